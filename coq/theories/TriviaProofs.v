(* Proofs of the statements of TriviaSpec.v. *)
From HclV Require Import Base Expr Build Lexer Parser LexParseSpec LexParseProofs TriviaSpec.
From Coq Require Import ZifyBool ZifyNat ZifyN.
Open Scope list_scope.
Open Scope N_scope.

(* ====================================================================================== *)
(* Part B: the parser never looks at positions                                            *)
(* ====================================================================================== *)
(* every token list is compared with its normal form, all positions erased *)
Definition norm (toks : list tok) : list tok := map (fun t => at_pos (tk t)) toks.

Definition lift {A : Type} (r : option (A * list tok)) : option (A * list tok) :=
  match r with Some (a, rest) => Some (a, norm rest) | None => None end.

Lemma norm_nil : norm [] = [].
Proof. reflexivity. Qed.
Lemma norm_cons t l : norm (t :: l) = at_pos (tk t) :: norm l.
Proof. reflexivity. Qed.
Lemma tk_at_pos x : tk (at_pos x) = x.
Proof. reflexivity. Qed.
Lemma norm_length l : List.length (norm l) = List.length l.
Proof. apply map_length. Qed.

Lemma norm_same a b : same_tokens a b <-> norm a = norm b.
Proof.
  unfold same_tokens, norm. split.
  - intros H. rewrite <- (map_map tk at_pos a), <- (map_map tk at_pos b), H. reflexivity.
  - revert b. induction a as [|x a IH]; intros [|y b] H; try discriminate; [reflexivity|].
    cbn [map] in H |- *. injection H as Hxy Hab.
    rewrite Hxy, (IH b Hab). reflexivity.
Qed.

(* one step of the comparison: expose the next scrutinee of the right-hand side *)
Ltac norm_simpl := rewrite ?norm_cons, ?norm_nil, ?tk_at_pos; cbn [lift].

Ltac norm_step :=
  match goal with
  | |- _ = lift (match ?X with _ => _ end) => destruct X; norm_simpl
  | |- _ = lift (if ?X then _ else _) => destruct X; norm_simpl
  end.

Section NormExpr.
  Variable tiers : list tier.

  Definition norm_at (f : nat) : Prop :=
    (forall ts toks, parse_tiers tiers f ts (norm toks) = lift (parse_tiers tiers f ts toks)) /\
    (forall rest ops l toks, left_loop tiers f rest ops l (norm toks) = lift (left_loop tiers f rest ops l toks)) /\
    (forall toks, parse_term tiers f (norm toks) = lift (parse_term tiers f toks)) /\
    (forall toks, parse_simple tiers f (norm toks) = lift (parse_simple tiers f toks)) /\
    (forall toks, parse_mux_options tiers f (norm toks) = lift (parse_mux_options tiers f toks)) /\
    (forall toks, parse_commas_exprs tiers f (norm toks) = lift (parse_commas_exprs tiers f toks)).

  Lemma norm_all : forall f, norm_at f.
  Proof.
    induction f as [|f IH].
    - unfold norm_at. repeat split; intros; reflexivity.
    - destruct IH as (IH1 & IH2 & IH3 & IH4 & IH5 & IH6).
      unfold norm_at. repeat split.
      + intros ts toks. rewrite !parse_tiers_S.
        destruct ts as [|[[| | |] ops] rest]; [apply IH3| | | |reflexivity].
        * rewrite IH1. destruct (parse_tiers tiers f rest toks) as [[l toks1]|]; cbn [lift]; [apply IH2|reflexivity].
        * rewrite IH1. destruct (parse_tiers tiers f rest toks) as [[l toks1]|]; cbn [lift]; [|reflexivity].
          destruct toks1 as [|t toks1]; norm_simpl; [reflexivity|].
          destruct (op_of_token ops (tk t)); norm_simpl; [|reflexivity].
          rewrite IH1. destruct (parse_tiers tiers f rest toks1) as [[r toks2]|]; reflexivity.
        * rewrite IH1. destruct (parse_tiers tiers f rest toks) as [[l toks1]|]; cbn [lift]; [|reflexivity].
          destruct toks1 as [|t toks1]; norm_simpl; [reflexivity|].
          destruct (token_eqb (tk t) TIn); norm_simpl; [|reflexivity].
          destruct toks1 as [|t2 toks2]; norm_simpl; [reflexivity|].
          destruct (token_eqb (tk t2) TOpenBrace); norm_simpl; [|reflexivity].
          rewrite IH6. destruct (parse_commas_exprs tiers f toks2) as [[items toks3]|]; cbn [lift]; [|reflexivity].
          destruct toks3 as [|t3 toks3]; norm_simpl; [reflexivity|].
          destruct (token_eqb (tk t3) TCloseBrace); reflexivity.
      + intros rest ops l toks. rewrite !left_loop_S.
        destruct toks as [|t toks1]; norm_simpl; [reflexivity|].
        destruct (op_of_token ops (tk t)); norm_simpl; [|reflexivity].
        rewrite IH1. destruct (parse_tiers tiers f rest toks1) as [[r toks2]|]; cbn [lift]; [apply IH2|reflexivity].
      + intros toks. rewrite !parse_term_S.
        destruct toks as [|t toks1]; norm_simpl; [reflexivity|].
        destruct (unop_of_token (tk t)).
        * rewrite IH4. destruct (parse_simple tiers f toks1) as [[e toks2]|]; reflexivity.
        * rewrite <- norm_cons, IH4.
          destruct (parse_simple tiers f (t :: toks1)) as [[e toks2]|]; cbn [lift]; [|reflexivity].
          destruct toks2 as [|t1 toks2]; norm_simpl; [reflexivity|].
          destruct toks2 as [|t2 toks2]; norm_simpl.
          { destruct (token_eqb (tk t1) TOpenBracket); reflexivity. }
          destruct toks2 as [|t3 toks2]; norm_simpl.
          { destruct (token_eqb (tk t1) TOpenBracket); reflexivity. }
          destruct toks2 as [|t4 toks2]; norm_simpl.
          { destruct (token_eqb (tk t1) TOpenBracket); reflexivity. }
          destruct toks2 as [|t5 toks2]; norm_simpl.
          { destruct (token_eqb (tk t1) TOpenBracket); reflexivity. }
          destruct (token_eqb (tk t1) TOpenBracket); [|reflexivity].
          destruct (small_constant (tk t2)); [|reflexivity].
          destruct (small_constant (tk t4)); [|reflexivity].
          destruct (token_eqb (tk t3) TDotDot && token_eqb (tk t5) TCloseBracket); reflexivity.
      + intros toks. rewrite !parse_simple_S.
        destruct toks as [|t toks1]; norm_simpl; [reflexivity|].
        destruct (tk t); try reflexivity.
        * rewrite IH1. destruct (parse_tiers tiers f tiers toks1) as [[e toks2]|]; cbn [lift]; [|reflexivity].
          destruct toks2 as [|t2 toks2]; norm_simpl; [reflexivity|].
          destruct (token_eqb (tk t2) TCloseParen); [reflexivity|].
          destruct (token_eqb (tk t2) TDotDot); [|reflexivity].
          rewrite IH1. destruct (parse_tiers tiers f tiers toks2) as [[r toks3]|]; cbn [lift]; [|reflexivity].
          destruct toks3 as [|t3 toks3]; norm_simpl; [reflexivity|].
          destruct (token_eqb (tk t3) TCloseParen); reflexivity.
        * rewrite IH5. destruct (parse_mux_options tiers f toks1) as [[a toks2]|]; cbn [lift]; [|reflexivity].
          destruct toks2 as [|t2 toks2]; norm_simpl; [reflexivity|].
          destruct (token_eqb (tk t2) TCloseBracket); reflexivity.
      + intros toks. rewrite !parse_mux_options_S.
        destruct toks as [|t toks1]; norm_simpl; [reflexivity|].
        destruct (token_eqb (tk t) TCloseBracket); [reflexivity|].
        rewrite <- norm_cons, IH1.
        destruct (parse_tiers tiers f tiers (t :: toks1)) as [[c toks2]|]; cbn [lift]; [|reflexivity].
        destruct toks2 as [|t1 toks2]; norm_simpl; [reflexivity|].
        destruct (token_eqb (tk t1) TColon); [|reflexivity].
        rewrite IH1. destruct (parse_tiers tiers f tiers toks2) as [[v toks3]|]; cbn [lift]; [|reflexivity].
        destruct toks3 as [|t2 toks3]; norm_simpl; [reflexivity|].
        destruct (token_eqb (tk t2) TSemicolon); [|reflexivity].
        rewrite IH5. destruct (parse_mux_options tiers f toks3) as [[rest toks4]|]; reflexivity.
      + intros toks. rewrite !parse_commas_exprs_S.
        destruct toks as [|t toks1]; norm_simpl; [reflexivity|].
        destruct (token_eqb (tk t) TCloseBrace); [reflexivity|].
        rewrite <- norm_cons, IH1.
        destruct (parse_tiers tiers f tiers (t :: toks1)) as [[e toks2]|]; cbn [lift]; [|reflexivity].
        destruct toks2 as [|t1 toks2]; norm_simpl; [reflexivity|].
        destruct (token_eqb (tk t1) TComma); [|reflexivity].
        rewrite IH6. destruct (parse_commas_exprs tiers f toks2) as [[rest toks3]|]; reflexivity.
  Qed.

  Lemma parse_expr_norm f toks : parse_expr tiers f (norm toks) = lift (parse_expr tiers f toks).
  Proof. apply (proj1 (norm_all f)). Qed.
End NormExpr.

(* ---- declarations and statements ---- *)
Ltac dtk t := let H := fresh "Htk" in destruct (tk t) eqn:H; cbn [lift fst snd]; rewrite ?norm_cons, ?norm_nil, ?H; try reflexivity.

Definition lift3 {A B : Type} (r : option (A * B * list tok)) : option (A * B * list tok) :=
  match r with Some (a, b, rest) => Some (a, b, norm rest) | None => None end.

Lemma parse_wire_decls_norm f : forall toks,
  parse_wire_decls f (norm toks) = lift (parse_wire_decls f toks).
Proof.
  induction f as [|f IH]; intros toks; [reflexivity|].
  cbn [parse_wire_decls].
  destruct toks as [|t1 toks]; norm_simpl; [reflexivity|].
  destruct toks as [|t2 toks]; norm_simpl; [dtk t1|].
  destruct toks as [|t3 toks]; norm_simpl; [dtk t1|].
  dtk t1.
  destruct (small_constant (tk t3)); [|reflexivity].
  destruct (token_eqb (tk t2) TColon); [|reflexivity].
  destruct toks as [|t4 toks]; norm_simpl; [reflexivity|].
  destruct (token_eqb (tk t4) TComma); [|reflexivity].
  rewrite IH. destruct (parse_wire_decls f toks) as [[rest toks3]|]; reflexivity.
Qed.

Section NormStmt.
  Variable tiers : list tier.

  Lemma parse_const_decls_norm f : forall toks,
    parse_const_decls tiers f (norm toks) = lift (parse_const_decls tiers f toks).
  Proof.
    induction f as [|f IH]; intros toks; [reflexivity|].
    cbn [parse_const_decls].
    destruct toks as [|t1 toks]; norm_simpl; [reflexivity|].
    destruct toks as [|t2 toks]; norm_simpl; [dtk t1|].
    dtk t1.
    destruct (token_eqb (tk t2) TAssign); [|reflexivity].
    rewrite parse_expr_norm.
    destruct (parse_expr tiers f toks) as [[e toks2]|]; cbn [lift]; [|reflexivity].
    destruct toks2 as [|t3 toks2]; norm_simpl; [reflexivity|].
    destruct (token_eqb (tk t3) TComma); [|reflexivity].
    rewrite IH. destruct (parse_const_decls tiers f toks2) as [[rest toks3]|]; reflexivity.
  Qed.

  Lemma parse_targets_norm f : forall toks,
    parse_targets f (norm toks) = (fst (parse_targets f toks), norm (snd (parse_targets f toks))).
  Proof.
    induction f as [|f IH]; intros toks; [reflexivity|].
    cbn [parse_targets].
    destruct toks as [|t1 toks]; norm_simpl; [reflexivity|].
    destruct toks as [|t2 toks]; norm_simpl; [reflexivity|].
    dtk t1.
    destruct (token_eqb (tk t2) TAssign); [|cbn [fst snd]; rewrite !norm_cons, Htk; reflexivity].
    rewrite IH. destruct (parse_targets f toks) as [more rest]. reflexivity.
  Qed.

  Lemma parse_assignments_norm f : forall toks,
    parse_assignments tiers f (norm toks) = lift (parse_assignments tiers f toks).
  Proof.
    induction f as [|f IH]; intros toks; [reflexivity|].
    cbn [parse_assignments]. rewrite norm_length, parse_targets_norm.
    destruct (parse_targets (List.length toks) toks) as [names toks1]. cbn [fst snd].
    destruct names as [|n names]; [reflexivity|].
    rewrite parse_expr_norm.
    destruct (parse_expr tiers f toks1) as [[e toks2]|]; cbn [lift]; [|reflexivity].
    destruct toks2 as [|t toks2]; norm_simpl; [reflexivity|].
    destruct (token_eqb (tk t) TComma); [|reflexivity].
    destruct toks2 as [|t2 toks2]; norm_simpl; [reflexivity|].
    dtk t2.
    rewrite <- Htk, <- norm_cons, IH.
    destruct (parse_assignments tiers f (t2 :: toks2)) as [[rest toks3]|]; reflexivity.
  Qed.

  Lemma parse_register_decls_norm f : forall toks,
    parse_register_decls tiers f (norm toks) = lift (parse_register_decls tiers f toks).
  Proof.
    induction f as [|f IH]; intros toks; [reflexivity|].
    cbn [parse_register_decls].
    destruct toks as [|t1 toks]; norm_simpl; [reflexivity|].
    destruct toks as [|t2 toks]; norm_simpl; [dtk t1|].
    destruct toks as [|t3 toks]; norm_simpl; [dtk t1|].
    destruct toks as [|t4 toks]; norm_simpl; [dtk t1|].
    dtk t1.
    destruct (small_constant (tk t3)); [|reflexivity].
    destruct (token_eqb (tk t2) TColon && token_eqb (tk t4) TAssign); [|reflexivity].
    rewrite parse_expr_norm.
    destruct (parse_expr tiers f toks) as [[e toks2]|]; cbn [lift]; [|reflexivity].
    destruct toks2 as [|t5 toks2]; norm_simpl; [reflexivity|].
    destruct (token_eqb (tk t5) TSemicolon); [|reflexivity].
    rewrite IH. destruct (parse_register_decls tiers f toks2) as [[rest toks3]|]; reflexivity.
  Qed.

  Lemma parse_statement_norm f toks :
    parse_statement tiers f (norm toks) = lift3 (parse_statement tiers f toks).
  Proof.
    unfold parse_statement.
    destruct toks as [|t toks1]; norm_simpl; [reflexivity|].
    destruct (tk t) eqn:Ht; try reflexivity.
    - rewrite parse_wire_decls_norm. destruct (parse_wire_decls f toks1) as [[d rest]|]; reflexivity.
    - rewrite parse_const_decls_norm. destruct (parse_const_decls tiers f toks1) as [[d rest]|]; reflexivity.
    - destruct toks1 as [|t1 toks1]; norm_simpl; [reflexivity|].
      destruct toks1 as [|t2 toks2]; norm_simpl; [reflexivity|].
      dtk t1.
      destruct (token_eqb (tk t2) TOpenBrace); [|reflexivity].
      rewrite parse_register_decls_norm.
      destruct (parse_register_decls tiers f toks2) as [[regs rest]|]; cbn [lift]; [|reflexivity].
      destruct rest as [|t3 rest]; norm_simpl; [reflexivity|].
      destruct (token_eqb (tk t3) TCloseBrace); reflexivity.
    - rewrite <- Ht, <- norm_cons, parse_assignments_norm.
      destruct (parse_assignments tiers f (t :: toks1)) as [[a rest]|]; reflexivity.
  Qed.

  Lemma parse_statements_norm f : forall toks seen acc,
    parse_statements tiers f (norm toks) seen acc = parse_statements tiers f toks seen acc.
  Proof.
    induction f as [|f IH]; intros toks seen acc; [reflexivity|].
    cbn [parse_statements].
    destruct toks as [|t toks1]; norm_simpl; [reflexivity|].
    destruct (token_eqb (tk t) TSemicolon).
    - destruct seen; [apply IH|reflexivity].
    - rewrite <- norm_cons, norm_length, parse_statement_norm.
      destruct (parse_statement tiers (20 * S (List.length (t :: toks1))) (t :: toks1)) as [[[s k] rest]|];
        cbn [lift3]; [|reflexivity].
      destruct k.
      + destruct rest as [|t2 rest]; norm_simpl; [reflexivity|].
        destruct (token_eqb (tk t2) TSemicolon); [apply IH|reflexivity].
      + apply IH.
  Qed.

  Lemma parse_norm toks : parse tiers (norm toks) = parse tiers toks.
  Proof. unfold parse. rewrite norm_length. apply parse_statements_norm. Qed.
End NormStmt.

Theorem parse_ignores_positions_holds : stmt_parse_ignores_positions.
Proof.
  intros tiers toks1 toks2 Hsame. apply norm_same in Hsame. repeat split.
  - intros fuel. pose proof (parse_expr_norm tiers fuel toks1) as H1.
    pose proof (parse_expr_norm tiers fuel toks2) as H2. rewrite Hsame in H1. rewrite H1 in H2.
    unfold same_result.
    destruct (parse_expr tiers fuel toks1) as [[e1 r1]|], (parse_expr tiers fuel toks2) as [[e2 r2]|];
      cbn [lift] in H2; try discriminate; [|exact I].
    injection H2 as He Hr. split; [exact He|]. apply norm_same. exact Hr.
  - intros fuel seen acc.
    rewrite <- (parse_statements_norm tiers fuel toks1), <- (parse_statements_norm tiers fuel toks2), Hsame.
    reflexivity.
  - rewrite <- (parse_norm tiers toks1), <- (parse_norm tiers toks2), Hsame. reflexivity.
Qed.

Theorem text_meaning_by_tokens_holds : stmt_text_meaning_by_tokens.
Proof.
  intros uc tiers b1 b2 toks1 toks2 H1 H2 Hsame. unfold parse_text. rewrite H1, H2.
  apply (parse_ignores_positions_holds tiers toks1 toks2 Hsame).
Qed.

(* non-vacuity: the same tokens at different offsets *)
Example parse_ignores_positions_example :
  let mk (s : nat) (t : token) (e : nat) : tok := (s, t, e) in
  let a := TIdentifier [97] in let one := TLit (mkV 1 Unl) in
  let toks1 := [mk 0 a 1; mk 2 TAssign 3; mk 4 one 5; mk 5 TSemicolon 6]%nat in
  let toks2 := [mk 7 a 9; mk 20 TAssign 21; mk 30 one 35; mk 40 TSemicolon 41]%nat in
  same_tokens toks1 toks2 /\ toks1 <> toks2 /\
  parse doc_tiers toks1 = Some [SAssign [(["a"%string], EConst (mkV 1 Unl))]] /\
  parse doc_tiers toks2 = parse doc_tiers toks1.
Proof. cbv zeta. repeat split; try reflexivity. discriminate. Qed.


(* ====================================================================================== *)
(* Part C: redundant parentheses                                                          *)
(* ====================================================================================== *)
Scheme renders_mut := Minimality for renders Sort Prop
  with renders_arms_mut := Minimality for renders_arms Sort Prop
  with renders_items_mut := Minimality for renders_items Sort Prop.
Combined Scheme renders_all_ind from renders_mut, renders_arms_mut, renders_items_mut.

Local Notation T := (map at_pos).
Ltac norm_toks := rewrite ?T_app, <- ?app_assoc; cbn [map app].

(* the last option of a case expression and the last member of a set need no separator *)
Lemma PM_last tiers toks c t1 toks1 v t2 toks2 :
  PT tiers tiers toks (c, t1 :: toks1) -> tk t1 = TColon ->
  PT tiers tiers toks1 (v, t2 :: toks2) -> token_eqb (tk t2) TSemicolon = false ->
  PM tiers toks (ACons c v ANil, t2 :: toks2).
Proof.
  intros H1 Ht1 [f2 H2] Ht2. pose proof (PT_opens _ _ _ _ H1) as Hop. destruct H1 as [f1 H1].
  set (m := Nat.max f1 f2).
  exists (S m). rewrite parse_mux_options_S.
  destruct toks as [|t toks0]; [contradiction|]. cbn [opens_term] in Hop. destruct Hop as [Hb _]. rewrite Hb.
  rewrite (pt_mono _ _ _ _ _ m H1) by lia. rewrite Ht1. cbn [token_eqb].
  rewrite (pt_mono _ _ _ _ _ m H2) by lia. rewrite Ht2. reflexivity.
Qed.

Lemma PC_last tiers toks e t1 toks1 :
  PT tiers tiers toks (e, t1 :: toks1) -> token_eqb (tk t1) TComma = false ->
  PC tiers toks (XCons e XNil, t1 :: toks1).
Proof.
  intros H1 Ht1. pose proof (PT_opens _ _ _ _ H1) as Hop. destruct H1 as [f1 H1].
  exists (S f1). rewrite parse_commas_exprs_S.
  destruct toks as [|t toks0]; [contradiction|]. cbn [opens_term] in Hop. destruct Hop as [_ Hb]. rewrite Hb.
  rewrite H1, Ht1. reflexivity.
Qed.

(* what a rendering at level m must achieve: as min_concl, for the one level m *)
Definition rconcl (m : nat) (e : expr) (ts : list token) : Prop :=
  ((m <= 10)%nat -> forall rest, not_tok TOpenBracket (hd_tok rest) = true -> passes (from (S m)) rest ->
      good m (T ts ++ rest) e rest)
  /\ ((11 <= m)%nat -> forall rest, PS doc_tiers (T ts ++ rest) (e, rest)).

Lemma r_b m e ts rest :
  rconcl m e ts -> (m <= 10)%nat -> not_tok TOpenBracket (hd_tok rest) = true -> passes (from m) rest ->
  PT doc_tiers (from m) (T ts ++ rest) (e, rest).
Proof.
  intros [H1 _] Hm Hnb Hp. apply good_b; [|exact Hp].
  apply H1; [exact Hm|exact Hnb|]. eapply from_le_passes; [|exact Hp]. lia.
Qed.

Lemma r_top e ts t rest :
  rconcl 0 e ts -> closer t = true ->
  PT doc_tiers doc_tiers (T ts ++ at_pos t :: rest) (e, at_pos t :: rest).
Proof.
  intros He Ht. rewrite <- from_0 at 2. apply r_b; [exact He|lia| |].
  - apply closer_not_bracket. exact Ht.
  - apply closer_passes_from. exact Ht.
Qed.

Lemma simple_to_r m e ts :
  (forall rest, PS doc_tiers (T ts ++ rest) (e, rest)) -> rconcl m e ts.
Proof.
  intros H. split.
  - intros Hm rest Hnb Hp. apply simple_good; [apply H|exact Hnb|exact Hp].
  - intros _ rest. apply H.
Qed.

Lemma own_to_r lv m e ts : (lv <= 10)%nat -> (m <= lv)%nat ->
  (forall rest, not_tok TOpenBracket (hd_tok rest) = true -> passes (from (S lv)) rest ->
      good lv (T ts ++ rest) e rest) ->
  rconcl m e ts.
Proof.
  intros Hlv Hm Hown. split; [|intros Hc; lia].
  intros _ rest Hnb Hp.
  destruct (Nat.eq_dec m lv) as [->|Hne].
  - apply Hown; assumption.
  - apply good_of_tighter. apply (PT_from_le (S m) lv); [lia|exact Hp|].
    assert (Hp' : passes (from lv) rest) by (eapply from_le_passes; [|exact Hp]; lia).
    apply good_b; [|exact Hp'].
    apply Hown; [exact Hnb|]. eapply from_le_passes; [|exact Hp']. lia.
Qed.

Definition r_expr (m : nat) (e : expr) (ts : list token) : Prop := printable e -> rconcl m e ts.
Definition r_arms (a : arms) (ts : list token) : Prop :=
  printable_arms a -> forall rest,
    PM doc_tiers (T ts ++ at_pos TCloseBracket :: rest) (a, at_pos TCloseBracket :: rest).
Definition r_items (xs : exprs) (ts : list token) : Prop :=
  printable_items xs -> forall rest,
    PC doc_tiers (T ts ++ at_pos TCloseBrace :: rest) (xs, at_pos TCloseBrace :: rest).

Lemma renders_ok :
  (forall m e ts, renders m e ts -> r_expr m e ts) /\
  (forall a ts, renders_arms a ts -> r_arms a ts) /\
  (forall xs ts, renders_items xs ts -> r_items xs ts).
Proof.
  apply renders_all_ind.
  - (* const *)
    intros m v _. apply simple_to_r. intros rest. cbn [map app]. apply PS_lit. reflexivity.
  - (* wire *)
    intros m n _. apply simple_to_r. intros rest. cbn [map app].
    rewrite <- (string_of_bytes_of_string n) at 2. apply PS_id. reflexivity.
  - (* bin *)
    intros m op l r tl tr Hm _ IHl _ IHr [Hpl Hpr]. specialize (IHl Hpl). specialize (IHr Hpr).
    assert (Hlv : (level_of op <= 9)%nat) by (destruct op; cbn; lia).
    apply (own_to_r (level_of op)); [lia|exact Hm|].
    intros rest Hnb Hp. norm_toks.
    assert (Hr : PT doc_tiers (from (S (level_of op))) (T tr ++ rest) (r, rest)).
    { apply r_b; [exact IHr|lia|exact Hnb|exact Hp]. }
    unfold good. rewrite nth_level, from_level. unfold kind_of. destruct (is_nonassoc op) eqn:Hna.
    + intros _. eapply PT_na_op.
      * apply r_b; [exact IHl|lia|apply op_not_bracket|apply op_passes_tighter].
      * apply ops_of_find.
      * exact Hr.
    + intros res HLL. destruct IHl as [IHl1 _].
      specialize (IHl1 ltac:(lia) (at_pos (binop_token op) :: T tr ++ rest)
                       (op_not_bracket _ _) (op_passes_tighter _ _)).
      unfold good in IHl1. rewrite nth_level, from_level in IHl1. unfold kind_of in IHl1.
      rewrite Hna in IHl1.
      apply IHl1. eapply LL_step; [apply ops_of_find|exact Hr|exact HLL].
  - (* un *)
    intros m u e te Hm _ IHe Hp. specialize (IHe Hp).
    apply (own_to_r term_level); [unfold term_level; lia|exact Hm|].
    intros rest Hnb _. norm_toks.
    unfold good. change (nth_error doc_tiers term_level) with (@None tier).
    change (from term_level) with (@nil tier).
    apply PT_nil. apply PTm_un; [destruct u; reflexivity|]. apply (proj2 IHe). unfold term_level. lia.
  - (* mux *)
    intros m a ta _ IHa Hp. apply simple_to_r. intros rest.
    norm_toks. apply PS_mux'. apply IHa. exact Hp.
  - (* slice *)
    intros m e te lo hi vlo vhi Hm _ IHe Hlo Hhi (Hp & Hlo128 & Hhi128). specialize (IHe Hp).
    apply (own_to_r term_level); [unfold term_level; lia|exact Hm|].
    intros rest Hnb _. norm_toks.
    unfold good. change (nth_error doc_tiers term_level) with (@None tier).
    change (from term_level) with (@nil tier).
    apply PT_nil.
    assert (Hs : forall v n, bits v = n -> n <= 128 -> small_constant (tk (at_pos (TLit v))) = Some n).
    { intros v n Hv Hn. unfold at_pos, tk. cbn [fst snd small_constant]. rewrite Hv.
      destruct (N.leb_spec n 128) as [_|Hc]; [reflexivity|lia]. }
    eapply PTm_slice;
      [apply (proj2 IHe); unfold term_level; lia | reflexivity | apply Hs; [exact Hlo|exact Hlo128]
       | reflexivity | apply Hs; [exact Hhi|exact Hhi128] | reflexivity].
  - (* cat *)
    intros m l r tl tr _ IHl _ IHr [Hpl Hpr]. specialize (IHl Hpl). specialize (IHr Hpr).
    apply simple_to_r. intros rest. norm_toks. eapply PS_cat'.
    + apply r_top; [exact IHl|reflexivity].
    + apply r_top; [exact IHr|reflexivity].
  - (* in *)
    intros m e te xs ti Hm _ IHe _ IHxs [Hp Hpx]. specialize (IHe Hp). specialize (IHxs Hpx).
    apply (own_to_r in_level); [unfold in_level; lia|exact Hm|].
    intros rest Hnb _. norm_toks.
    unfold good. change (nth_error doc_tiers in_level) with (Some (KIn, @nil binop)).
    change (from in_level) with ((KIn, @nil binop) :: from (S in_level)).
    intros _. eapply PT_in'.
    + apply r_b; [exact IHe|unfold in_level; lia|reflexivity|reflexivity].
    + apply IHxs.
  - (* paren *)
    intros m e te _ IHe Hp. specialize (IHe Hp).
    apply simple_to_r. intros rest. norm_toks. apply PS_paren'.
    apply r_top; [exact IHe|reflexivity].
  - (* arms: nil *)
    intros _ rest. cbn [map app]. apply PM_nil. reflexivity.
  - (* arms: last, no semicolon *)
    intros c v tc tv _ IHc _ IHv (Hpc & Hpv & _) rest. norm_toks.
    eapply PM_last.
    + apply r_top; [exact (IHc Hpc)|reflexivity].
    + reflexivity.
    + apply r_top; [exact (IHv Hpv)|reflexivity].
    + reflexivity.
  - (* arms: cons *)
    intros c v a tc tv ta _ IHc _ IHv _ IHa (Hpc & Hpv & Hpa) rest. norm_toks.
    eapply PM_cons'.
    + apply r_top; [exact (IHc Hpc)|reflexivity].
    + apply r_top; [exact (IHv Hpv)|reflexivity].
    + apply IHa. exact Hpa.
  - (* items: nil *)
    intros _ rest. cbn [map app]. apply PC_nil. reflexivity.
  - (* items: last, no comma *)
    intros e te _ IHe [Hpe _] rest.
    eapply PC_last; [apply r_top; [exact (IHe Hpe)|reflexivity]|reflexivity].
  - (* items: cons *)
    intros e xs te txs _ IHe _ IHxs [Hpe Hpx] rest. norm_toks.
    eapply PC_cons'.
    + apply r_top; [exact (IHe Hpe)|reflexivity].
    + apply IHxs. exact Hpx.
Qed.

Theorem any_parenthesisation_holds : stmt_any_parenthesisation.
Proof.
  intros e ts Hp Hr rest Hst. destruct (stops_passes rest Hst) as [Hpass Hnb].
  unfold parse_expr. apply PT_all_fuel.
  rewrite <- from_0 at 2. apply r_b; [|lia|exact Hnb|exact Hpass].
  apply (proj1 renders_ok 0%nat e ts Hr Hp).
Qed.

Theorem renderings_agree_holds : stmt_renderings_agree.
Proof.
  intros e ts1 ts2 Hp H1 H2 rest Hst.
  destruct (any_parenthesisation_holds e ts1 Hp H1 rest Hst) as [f1 F1].
  destruct (any_parenthesisation_holds e ts2 Hp H2 rest Hst) as [f2 F2].
  exists (Nat.max f1 f2). intros fuel Hle. split; [apply F1|apply F2]; lia.
Qed.

Theorem rendering_unambiguous_holds : stmt_rendering_unambiguous.
Proof.
  intros e1 e2 ts Hp1 Hp2 H1 H2.
  destruct (any_parenthesisation_holds e1 ts Hp1 H1 [] I) as [f1 F1].
  destruct (any_parenthesisation_holds e2 ts Hp2 H2 [] I) as [f2 F2].
  specialize (F1 (Nat.max f1 f2) ltac:(lia)). specialize (F2 (Nat.max f1 f2) ltac:(lia)).
  rewrite F1 in F2. injection F2 as He. exact He.
Qed.

(* ---- the two printers are renderings ---- *)
Lemma wrap_renders m lv e ts :
  (forall m', (m' <= lv)%nat -> renders m' e ts) ->
  renders m e (if (m <=? lv)%nat then ts else [TOpenParen] ++ ts ++ [TCloseParen]).
Proof.
  intros H. destruct (Nat.leb_spec m lv) as [Hle|Hgt].
  - apply H. exact Hle.
  - apply R_paren. apply H. lia.
Qed.

Lemma toks_min_renders :
  (forall e m, renders m e (toks_min m e)) /\
  (forall a, renders_arms a (toks_min_arms a)) /\
  (forall xs, renders_items xs (toks_min_items xs)).
Proof.
  apply expr_arms_exprs_ind.
  - intros v m. apply R_const.
  - intros op l IHl r IHr m. cbn [toks_min]. apply wrap_renders.
    intros m' Hm'. apply R_bin; [exact Hm'|apply IHl|apply IHr].
  - intros u e IHe m. cbn [toks_min]. apply wrap_renders.
    intros m' Hm'. apply R_un; [exact Hm'|apply IHe].
  - intros a IHa m. cbn [toks_min]. apply R_mux. exact IHa.
  - intros n m. apply R_wire.
  - intros e IHe lo hi m. cbn [toks_min]. apply wrap_renders.
    intros m' Hm'. apply R_slice; [exact Hm'|apply IHe|reflexivity|reflexivity].
  - intros l IHl r IHr m. cbn [toks_min]. apply R_cat; [apply IHl|apply IHr].
  - intros e IHe xs IHxs m. cbn [toks_min]. apply wrap_renders.
    intros m' Hm'. apply R_in; [exact Hm'|apply IHe|exact IHxs].
  - apply RA_nil.
  - intros c IHc v IHv a IHa. cbn [toks_min_arms]. apply RA_cons; [apply IHc|apply IHv|exact IHa].
  - apply RI_nil.
  - intros e IHe xs IHxs. cbn [toks_min_items]. apply RI_cons; [apply IHe|exact IHxs].
Qed.

Lemma toks_full_renders :
  (forall e m, (m <= term_level)%nat -> renders m e (toks_full e)) /\
  (forall a, renders_arms a (toks_full_arms a)) /\
  (forall xs, renders_items xs (toks_full_items xs)).
Proof.
  assert (Hlv : forall op, (S (level_of op) <= term_level)%nat) by (intros op; unfold term_level; destruct op; cbn; lia).
  apply expr_arms_exprs_ind.
  - intros v m _. apply R_const.
  - intros op l IHl r IHr m _.
    replace (toks_full (EBin op l r))
      with ([TOpenParen] ++ (toks_full l ++ [binop_token op] ++ toks_full r) ++ [TCloseParen])
      by (cbn [toks_full]; rewrite <- !app_assoc; reflexivity).
    apply R_paren. apply R_bin; [lia| |].
    + apply IHl. specialize (Hlv op). destruct (is_nonassoc op); lia.
    + apply IHr. apply Hlv.
  - intros u e IHe m Hm.
    change (toks_full (EUn u e)) with ([unop_token u] ++ ([TOpenParen] ++ toks_full e ++ [TCloseParen])).
    apply R_un; [exact Hm|]. apply R_paren. apply IHe. lia.
  - intros a IHa m _. cbn [toks_full]. apply R_mux. exact IHa.
  - intros n m _. apply R_wire.
  - intros e IHe lo hi m Hm.
    replace (toks_full (ESlice e lo hi))
      with (([TOpenParen] ++ toks_full e ++ [TCloseParen]) ++ [TOpenBracket; num lo; TDotDot; num hi; TCloseBracket])
      by (cbn [toks_full]; rewrite <- !app_assoc; reflexivity).
    apply R_slice; [exact Hm| |reflexivity|reflexivity]. apply R_paren. apply IHe. lia.
  - intros l IHl r IHr m _. cbn [toks_full]. apply R_cat; [apply IHl|apply IHr]; lia.
  - intros e IHe xs IHxs m _.
    replace (toks_full (EIn e xs))
      with ([TOpenParen] ++ (toks_full e ++ [TIn; TOpenBrace] ++ toks_full_items xs ++ [TCloseBrace]) ++ [TCloseParen])
      by (cbn [toks_full]; rewrite <- !app_assoc; reflexivity).
    apply R_paren. apply R_in; [lia| |exact IHxs]. apply IHe. unfold in_level, term_level. lia.
  - apply RA_nil.
  - intros c IHc v IHv a IHa. cbn [toks_full_arms]. apply RA_cons; [apply IHc; lia|apply IHv; lia|exact IHa].
  - apply RI_nil.
  - intros e IHe xs IHxs. cbn [toks_full_items]. apply RI_cons; [apply IHe; lia|exact IHxs].
Qed.

Theorem printers_render_holds : stmt_printers_render.
Proof.
  intros e. split.
  - intros m. apply (proj1 toks_min_renders).
  - intros m Hm. apply (proj1 toks_full_renders). exact Hm.
Qed.

(* non-vacuity: ((a))+(b) is a rendering of a + b that neither printer produces; it is read back *)
Example any_parenthesisation_example :
  let a := TIdentifier [97] in let b := TIdentifier [98] in
  let e := EBin Add (EWire "a") (EWire "b") in
  let ts := [TOpenParen; TOpenParen; a; TCloseParen; TCloseParen; TPlus; TOpenParen; b; TCloseParen] in
  printable e /\ renders 0 e ts /\ ts <> toks_min 0 e /\ ts <> toks_full e /\
  parse_expr doc_tiers 40 (map at_pos ts) = Some (e, []).
Proof.
  cbv zeta. split; [exact (conj I I)|]. split.
  - apply (R_bin 0 Add (EWire "a") (EWire "b") [TOpenParen; TOpenParen; TIdentifier [97]; TCloseParen; TCloseParen]
                 [TOpenParen; TIdentifier [98]; TCloseParen]); [cbn; lia| |].
    + apply (R_paren _ _ [TOpenParen; TIdentifier [97]; TCloseParen]).
      apply (R_paren _ _ [TIdentifier [97]]). apply (R_wire 0 "a").
    + apply (R_paren _ _ [TIdentifier [98]]). apply (R_wire 0 "b").
  - split; [discriminate|]. split; [discriminate|]. vm_compute. reflexivity.
Qed.

(* a slice of a parenthesised operand, a doubly wrapped concatenation, a set and a case expression
   without their last separators *)
Example any_parenthesisation_example2 :
  let x := TIdentifier [120] in let lit n := TLit (mkV n Unl) in
  let e := EMux (ACons (EIn (ESlice (EWire "x") 0 4) (XCons (EConst (mkV 1 Unl)) XNil))
                       (ECat (EWire "x") (EWire "x")) ANil) in
  let ts := [TOpenBracket; TOpenParen; x; TCloseParen; TOpenBracket; lit 0; TDotDot; lit 4; TCloseBracket;
             TIn; TOpenBrace; lit 1; TCloseBrace; TColon;
             TOpenParen; TOpenParen; x; TDotDot; TOpenParen; x; TCloseParen; TCloseParen; TCloseParen;
             TCloseBracket] in
  printable e /\ renders 0 e ts /\ parse_expr doc_tiers 200 (map at_pos ts) = Some (e, []).
Proof.
  cbv zeta. split; [cbn; repeat split; lia|]. split; [|vm_compute; reflexivity].
  apply (R_mux 0 _ [TOpenParen; TIdentifier [120]; TCloseParen; TOpenBracket; TLit (mkV 0 Unl); TDotDot;
                    TLit (mkV 4 Unl); TCloseBracket; TIn; TOpenBrace; TLit (mkV 1 Unl); TCloseBrace; TColon;
                    TOpenParen; TOpenParen; TIdentifier [120]; TDotDot; TOpenParen; TIdentifier [120];
                    TCloseParen; TCloseParen; TCloseParen]).
  apply (RA_last _ _ [TOpenParen; TIdentifier [120]; TCloseParen; TOpenBracket; TLit (mkV 0 Unl); TDotDot;
                      TLit (mkV 4 Unl); TCloseBracket; TIn; TOpenBrace; TLit (mkV 1 Unl); TCloseBrace]
                     [TOpenParen; TOpenParen; TIdentifier [120]; TDotDot; TOpenParen; TIdentifier [120];
                      TCloseParen; TCloseParen; TCloseParen]).
  - apply (R_in 0 _ [TOpenParen; TIdentifier [120]; TCloseParen; TOpenBracket; TLit (mkV 0 Unl); TDotDot;
                     TLit (mkV 4 Unl); TCloseBracket] _ [TLit (mkV 1 Unl)]); [unfold in_level, term_level; lia| |].
    + apply (R_slice _ _ [TOpenParen; TIdentifier [120]; TCloseParen] 0 4 (mkV 0 Unl) (mkV 4 Unl));
        [unfold in_level, term_level; lia| |reflexivity|reflexivity].
      apply (R_paren _ _ [TIdentifier [120]]). apply (R_wire 0 "x").
    + apply RI_last. apply R_const.
  - apply (R_paren _ _ [TOpenParen; TIdentifier [120]; TDotDot; TOpenParen; TIdentifier [120]; TCloseParen; TCloseParen]).
    apply (R_cat 0 (EWire "x") (EWire "x") [TIdentifier [120]] [TOpenParen; TIdentifier [120]; TCloseParen]).
    + apply (R_wire 0 "x").
    + apply (R_paren _ _ [TIdentifier [120]]). apply (R_wire 0 "x").
Qed.


(* ====================================================================================== *)
(* Part A: comments, blank space and line endings                                         *)
(* ====================================================================================== *)
(* ---- UTF-8: the lexer's decoder inverts the encoder -------------------------------------- *)
Definition clen (c : N) : nat := List.length (utf8_char c).
Definition blen (cs : list N) : nat := List.length (utf8 cs).

(* char_indices of an encoded text *)
Fixpoint cidx (pos : nat) (cs : list N) : list (nat * N) :=
  match cs with [] => [] | c :: r => (pos, c) :: cidx (pos + clen c) r end.

Lemma utf8_app a b : utf8 (a ++ b) = utf8 a ++ utf8 b.
Proof. apply flat_map_app. Qed.
Lemma blen_nil : blen [] = 0%nat.
Proof. reflexivity. Qed.
Lemma blen_cons c r : blen (c :: r) = (clen c + blen r)%nat.
Proof. unfold blen, clen. cbn [utf8 flat_map]. apply app_length. Qed.
Lemma blen_app a b : blen (a ++ b) = (blen a + blen b)%nat.
Proof. unfold blen. rewrite utf8_app. apply app_length. Qed.

Lemma clen_cases c : clen c = 1%nat \/ clen c = 2%nat \/ clen c = 3%nat \/ clen c = 4%nat.
Proof.
  unfold clen, utf8_char.
  destruct (c <? 128); [left; reflexivity|].
  destruct (c <? 2048); [right; left; reflexivity|].
  destruct (c <? 65536); [right; right; left; reflexivity|right; right; right; reflexivity].
Qed.
Lemma clen_pos c : (1 <= clen c)%nat.
Proof. destruct (clen_cases c) as [H|[H|[H|H]]]; rewrite H; lia. Qed.

Lemma cidx_length pos cs : List.length (cidx pos cs) = List.length cs.
Proof. revert pos. induction cs as [|c cs IH]; intros pos; [reflexivity|]. cbn [cidx List.length]. now rewrite IH. Qed.

Lemma length_le_blen cs : (List.length cs <= blen cs)%nat.
Proof.
  induction cs as [|c cs IH]; [cbn; lia|]. rewrite blen_cons. cbn [List.length].
  pose proof (clen_pos c). lia.
Qed.

Lemma char_indices_S f b r pos :
  char_indices (S f) (b :: r) pos =
  let n := utf8_len b in
  let lead := if b <? 128 then b else if b <? 224 then b mod 32 else if b <? 240 then b mod 16 else b mod 8 in
  let '(cp, rest) := take_cont r (n - 1) lead in
  (pos, cp) :: char_indices f rest (pos + n).
Proof. reflexivity. Qed.

Section Utf8.
  Local Ltac Zify.zify_post_hook ::= Z.div_mod_to_equations.

  Lemma char_indices_char f c rest pos : scalar c ->
    char_indices (S f) (utf8_char c ++ rest) pos = (pos, c) :: char_indices f rest (pos + clen c).
  Proof.
    unfold scalar, clen, utf8_char. intros Hc.
    destruct (N.ltb_spec c 128) as [H1|H1].
    { cbn [app]. rewrite char_indices_S. unfold utf8_len.
      destruct (N.ltb_spec c 128) as [_|Hx]; [|lia]. cbn [Nat.sub List.length]. rewrite take_cont_0. reflexivity. }
    destruct (N.ltb_spec c 2048) as [H2|H2].
    { cbn [app]. rewrite char_indices_S. unfold utf8_len.
      destruct (N.ltb_spec (192 + c / 64) 128) as [Hx|_]; [lia|].
      destruct (N.ltb_spec (192 + c / 64) 224) as [_|Hx]; [|lia].
      cbn [Nat.sub take_cont List.length]. rewrite take_cont_0.
      f_equal. f_equal. lia. }
    destruct (N.ltb_spec c 65536) as [H3|H3].
    { cbn [app]. rewrite char_indices_S. unfold utf8_len.
      destruct (N.ltb_spec (224 + c / 4096) 128) as [Hx|_]; [lia|].
      destruct (N.ltb_spec (224 + c / 4096) 224) as [Hx|_]; [lia|].
      destruct (N.ltb_spec (224 + c / 4096) 240) as [_|Hx]; [|lia].
      cbn [Nat.sub take_cont List.length]. rewrite take_cont_0.
      f_equal. f_equal. lia. }
    cbn [app]. rewrite char_indices_S. unfold utf8_len.
    destruct (N.ltb_spec (240 + c / 262144) 128) as [Hx|_]; [lia|].
    destruct (N.ltb_spec (240 + c / 262144) 224) as [Hx|_]; [lia|].
    destruct (N.ltb_spec (240 + c / 262144) 240) as [Hx|_]; [lia|].
    cbn [Nat.sub take_cont List.length]. rewrite take_cont_0.
    f_equal. f_equal. lia.
  Qed.
End Utf8.

Lemma char_indices_utf8 cs : forall f pos,
  Forall scalar cs -> (List.length cs <= f)%nat -> char_indices f (utf8 cs) pos = cidx pos cs.
Proof.
  induction cs as [|c cs IH]; intros f pos Hsc Hlen.
  - destruct f; reflexivity.
  - destruct f as [|f]; [cbn [List.length] in Hlen; lia|].
    inversion Hsc as [|? ? Hc Hcs]; subst.
    cbn [utf8 flat_map]. rewrite char_indices_char by exact Hc. cbn [cidx]. f_equal.
    apply IH; [exact Hcs|]. cbn [List.length] in Hlen. lia.
Qed.

(* ---- ASCII pieces ---- *)
Lemma clen_ascii c : c < 128 -> clen c = 1%nat.
Proof. intros H. unfold clen, utf8_char. destruct (N.ltb_spec c 128); [reflexivity|lia]. Qed.

Lemma utf8_ascii l : forallb (fun b => b <? 128) l = true -> utf8 l = l.
Proof.
  induction l as [|b l IH]; intros H; [reflexivity|].
  apply forallb_cons_true in H. destruct H as [Hb Hl].
  cbn [utf8 flat_map]. unfold utf8_char. rewrite Hb. cbn [app]. f_equal. apply IH. exact Hl.
Qed.

Lemma blen_ascii l : forallb (fun b => b <? 128) l = true -> blen l = List.length l.
Proof. intros H. unfold blen. rewrite utf8_ascii by exact H. reflexivity. Qed.

Lemma cidx_cons pos c r : cidx pos (c :: r) = (pos, c) :: cidx (pos + clen c) r.
Proof. reflexivity. Qed.

Lemma cidx_ascii pos c r : c < 128 -> cidx pos (c :: r) = (pos, c) :: cidx (pos + 1) r.
Proof. intros H. cbn [cidx]. rewrite clen_ascii by exact H. reflexivity. Qed.

(* ---- get_while over an encoded text ---- *)
Lemma get_while_span p cs : forall pos next len,
  forallb p cs = true -> (match next with [] => True | c :: _ => p c = false end) ->
  get_while p (cidx pos (cs ++ next)) len =
    (cidx (pos + blen cs) next, match next with [] => len | _ :: _ => (pos + blen cs)%nat end).
Proof.
  induction cs as [|c cs IH]; intros pos next len Hall Hnext.
  - cbn [app]. rewrite blen_nil, Nat.add_0_r.
    destruct next as [|c next]; [reflexivity|]. cbn [cidx get_while]. rewrite Hnext. reflexivity.
  - apply forallb_cons_true in Hall. destruct Hall as [Hc Hall].
    cbn [app cidx get_while]. rewrite Hc. rewrite (IH _ _ _ Hall Hnext).
    rewrite blen_cons, Nat.add_assoc. reflexivity.
Qed.

(* ---- slices of the text ---- *)
Lemma skipn_app_length {A} (pre l : list A) : skipn (List.length pre) (pre ++ l) = l.
Proof. induction pre as [|x pre IH]; [reflexivity|]. cbn [List.length app skipn]. exact IH. Qed.

Lemma firstn_app_length {A} (m l : list A) : firstn (List.length m) (m ++ l) = m.
Proof. induction m as [|x m IH]; [reflexivity|]. cbn [List.length app firstn]. now rewrite IH. Qed.

Lemma slice_mid pre m post s e :
  s = List.length pre -> e = (List.length pre + List.length m)%nat -> slice (pre ++ m ++ post) s e = m.
Proof.
  intros -> ->. unfold slice. rewrite skipn_app_length.
  replace (List.length pre + List.length m - List.length pre)%nat with (List.length m) by lia.
  apply firstn_app_length.
Qed.

(* ---- matching a character variable against literal characters ---- *)
Ltac case_pos p n :=
  match n with
  | O => idtac
  | S ?k => destruct p as [p|p|]; [case_pos p k | case_pos p k | ]
  end.

Ltac case_char c :=
  let p := fresh "p" in destruct c as [|p]; [|case_pos p 7%nat].

Lemma handle_constant_other bytes len i j c tl : c <> 120 -> c <> 98 ->
  handle_constant bytes len i ((j, c) :: tl) =
  if is_decimal_char c then
    let '(rest, last) := get_while is_decimal_char ((j, c) :: tl) len in
    (constant_of bytes 10 i last i last None, rest)
  else (constant_of bytes 10 i (i + 1) i (i + 1) None, (j, c) :: tl).
Proof.
  intros H1 H2. unfold handle_constant. case_char c; try reflexivity; congruence.
Qed.

Lemma skip_block_star_other f i j c r len : c <> 47 ->
  skip_block_comment (S f) ((i, 42) :: (j, c) :: r) len = skip_block_comment f ((j, c) :: r) len.
Proof.
  intros H. cbn [skip_block_comment get_while is_not_star N.eqb Pos.eqb negb].
  case_char c; try reflexivity; congruence.
Qed.

(* ---- one-step equations of Lexer::next ---- *)
Section Steps.
  Variable uc : N -> uclass.
  Variable bytes : list N.
  Variable len : nat.
  Local Notation LN := (lex_next uc).

  Lemma ln_white f i c r : is_whitespace uc c = true -> LN (S f) bytes len ((i, c) :: r) = LN f bytes len r.
  Proof. intros H. cbn [lex_next]. rewrite H. reflexivity. Qed.

  Lemma ln_word f i c r : is_whitespace uc c = false -> is_start_identifier_char uc c = true ->
    LN (S f) bytes len ((i, c) :: r) =
    let '(rest, last) := get_while (is_identifier_char uc) r len in
    LexTok (i, resolve_identifier (slice bytes i last), last) rest.
  Proof. intros H1 H2. cbn [lex_next]. rewrite H1, H2. reflexivity. Qed.

  Lemma ln_hash f i r :
    LN (S f) bytes len ((i, 35) :: r) = let '(rest, _) := get_while is_not_newline r len in LN f bytes len rest.
  Proof. reflexivity. Qed.

  Lemma ln_slashes f i j r :
    LN (S f) bytes len ((i, 47) :: (j, 47) :: r) =
    let '(rest, _) := get_while is_not_newline ((j, 47) :: r) len in LN f bytes len rest.
  Proof. reflexivity. Qed.

  Lemma ln_block f i j r :
    LN (S f) bytes len ((i, 47) :: (j, 42) :: r) =
    match skip_block_comment (S (List.length r)) r len with
    | Some rest => LN f bytes len rest
    | None => LexErr (LexUnterminatedComment i) []
    end.
  Proof. reflexivity. Qed.

  Lemma ln_divide_end f i : LN (S f) bytes len [(i, 47)] = LexTok (i, TDivide, (i + 1)%nat) [].
  Proof. reflexivity. Qed.

  Lemma ln_divide f i j c r : c <> 47 -> c <> 42 ->
    LN (S f) bytes len ((i, 47) :: (j, c) :: r) = LexTok (i, TDivide, (i + 1)%nat) ((j, c) :: r).
  Proof.
    intros H1 H2.
    change (LN (S f) bytes len ((i, 47) :: (j, c) :: r)) with
      (match c with
       | 47 => let '(rest, _) := get_while is_not_newline ((j, c) :: r) len in LN f bytes len rest
       | 42 => match skip_block_comment (S (List.length r)) r len with
               | Some rest => LN f bytes len rest
               | None => LexErr (LexUnterminatedComment i) []
               end
       | _ => LexTok (i, TDivide, (i + 1)%nat) ((j, c) :: r)
       end).
    case_char c; try reflexivity; congruence.
  Qed.

  Lemma ln_two f i c dflt options r :
    (c = 38 /\ dflt = TAnd /\ options = [(38, TAndAnd)]) \/
    (c = 124 /\ dflt = TOr /\ options = [(124, TOrOr)]) \/
    (c = 61 /\ dflt = TAssign /\ options = [(61, TEqual)]) \/
    (c = 62 /\ dflt = TGreater /\ options = [(62, TRightShift); (61, TGreaterEqual)]) \/
    (c = 60 /\ dflt = TLess /\ options = [(60, TLeftShift); (61, TLessEqual)]) \/
    (c = 33 /\ dflt = TNot /\ options = [(61, TNotEqual)]) ->
    LN (S f) bytes len ((i, c) :: r) = let '(t, rest) := two_char i dflt options r in LexTok t rest.
  Proof.
    intros [(-> & -> & ->)|[(-> & -> & ->)|[(-> & -> & ->)|[(-> & -> & ->)|[(-> & -> & ->)|(-> & -> & ->)]]]]];
      reflexivity.
  Qed.

  Lemma two_char_default i dflt options j c r :
    find (fun o : N * token => fst o =? c) options = None ->
    two_char i dflt options ((j, c) :: r) = ((i, dflt, (i + 1)%nat), (j, c) :: r).
  Proof. intros H. unfold two_char. rewrite H. reflexivity. Qed.
End Steps.

Ltac blen_norm := repeat (progress (rewrite ?blen_cons, ?blen_app, ?blen_nil)); rewrite ?clen_ascii by lia.

(* ---- skipping a separator ---- *)
Lemma has_close_cons a body : has_close (a :: body) = false ->
  has_close body = false /\ (a = 42 -> match body with b :: _ => b <> 47 | [] => True end).
Proof.
  cbn [has_close]. destruct body as [|b body']; [intros _; split; [reflexivity|intros _; exact I]|].
  intros H. apply orb_false_iff in H. destruct H as [H1 H2]. split; [exact H2|].
  intros ->. cbn in H1. apply N.eqb_neq in H1. exact H1.
Qed.

Section Skip.
  Variable uc : N -> uclass.
  Variable bytes : list N.
  Variable len : nat.
  Local Notation LN := (lex_next uc).

  Lemma ln_nil f : LN f bytes len [] = LexEnd.
  Proof. destruct f; reflexivity. Qed.

  Lemma skip_block_nonstar f i a cs : a <> 42 ->
    skip_block_comment (S f) ((i, a) :: cs) len = skip_block_comment (S f) cs len.
  Proof.
    intros H. cbn [skip_block_comment get_while]. unfold is_not_star at 1.
    apply N.eqb_neq in H. rewrite H. reflexivity.
  Qed.

  Lemma skip_block_body body : forall f pos r,
    has_close body = false -> (List.length body < f)%nat ->
    skip_block_comment f (cidx pos (body ++ [42; 47] ++ r)) len = Some (cidx (pos + blen body + 2) r).
  Proof.
    induction body as [|a body IH]; intros f pos r Hc Hf.
    - destruct f as [|f]; [lia|]. cbn [app]. rewrite !cidx_ascii by lia.
      change (skip_block_comment (S f) ((pos, 42) :: ((pos + 1)%nat, 47) :: cidx (pos + 1 + 1) r) len)
        with (Some (cidx (pos + 1 + 1) r)).
      rewrite blen_nil. f_equal. f_equal. lia.
    - destruct f as [|f]; [lia|]. cbn [List.length] in Hf.
      apply has_close_cons in Hc. destruct Hc as [Hc Hnext].
      destruct (N.eq_dec a 42) as [->|Hne].
      + specialize (Hnext eq_refl).
        assert (Hstep : skip_block_comment (S f) (cidx pos ((42 :: body) ++ [42; 47] ++ r)) len =
                        skip_block_comment f (cidx (pos + 1) (body ++ [42; 47] ++ r)) len).
        { cbn [app]. rewrite cidx_ascii by lia.
          destruct body as [|b body']; cbn [app]; rewrite cidx_cons.
          - apply skip_block_star_other. lia.
          - apply skip_block_star_other. exact Hnext. }
        rewrite Hstep, IH by (try exact Hc; lia).
        rewrite blen_cons, clen_ascii by lia. f_equal. f_equal. lia.
      + change ((a :: body) ++ [42; 47] ++ r) with (a :: (body ++ [42; 47] ++ r)).
        rewrite cidx_cons, skip_block_nonstar by exact Hne.
        rewrite IH by (try exact Hc; lia). rewrite blen_cons. f_equal. f_equal. lia.
  Qed.

  Lemma newline_white nl : nl = 10 \/ nl = 13 -> is_whitespace uc nl = true /\ is_not_newline nl = false /\ nl < 128.
  Proof. intros [-> | ->]; repeat split; reflexivity. Qed.

  Lemma skip_trivia tv : trivia uc tv -> forall f pos rest,
    (List.length tv + List.length rest < f)%nat ->
    exists f', (List.length rest < f')%nat /\
      LN f bytes len (cidx pos (tv ++ rest)) = LN f' bytes len (cidx (pos + blen tv) rest).
  Proof.
    induction 1 as [|c r Hc _ IH|body nl r Hbody Hnl _ IH|body nl r Hbody Hnl _ IH|body r Hbody _ IH];
      intros f pos rest Hf.
    - exists f. split; [cbn [List.length] in Hf; lia|]. rewrite blen_nil, Nat.add_0_r. reflexivity.
    - destruct f as [|f]; [lia|]. cbn [List.length] in Hf.
      destruct (IH f (pos + clen c)%nat rest ltac:(lia)) as (f' & Hf' & E).
      exists f'. split; [exact Hf'|].
      cbn [app]. rewrite cidx_cons, ln_white by exact Hc. rewrite E, blen_cons, Nat.add_assoc. reflexivity.
    - destruct (newline_white nl Hnl) as (Hw & Hn & Hlt).
      rewrite !app_length in Hf. cbn [List.length] in Hf.
      destruct f as [|[|f]]; [lia|lia|].
      destruct (IH f (pos + 1 + blen body + 1)%nat rest ltac:(lia)) as (f' & Hf' & E).
      exists f'. split; [exact Hf'|].
      rewrite <- !app_assoc. cbn [app]. rewrite cidx_ascii by lia. rewrite ln_hash.
      rewrite (get_while_span is_not_newline body (pos + 1) (nl :: r ++ rest) len Hbody Hn).
      rewrite cidx_ascii by exact Hlt. rewrite ln_white by exact Hw. rewrite E.
      blen_norm. f_equal. f_equal. lia.
    - destruct (newline_white nl Hnl) as (Hw & Hn & Hlt).
      rewrite !app_length in Hf. cbn [List.length] in Hf.
      destruct f as [|[|f]]; [lia|lia|].
      destruct (IH f (pos + 1 + blen (47%N :: body) + 1)%nat rest ltac:(lia)) as (f' & Hf' & E).
      exists f'. split; [exact Hf'|].
      rewrite <- !app_assoc. cbn [app]. rewrite (cidx_ascii pos 47) by lia.
      change (47 :: body ++ nl :: r ++ rest) with ((47 :: body) ++ nl :: r ++ rest).
      assert (Hb2 : forallb is_not_newline (47 :: body) = true) by (cbn [forallb]; apply andb_true_iff; split; [reflexivity|exact Hbody]).
      pose proof (get_while_span is_not_newline (47 :: body) (pos + 1) (nl :: r ++ rest) len Hb2 Hn) as G.
      cbn [app] in G |- *. rewrite cidx_cons in G |- *. rewrite ln_slashes, G.
      rewrite cidx_ascii by exact Hlt. rewrite ln_white by exact Hw. rewrite E.
      blen_norm. f_equal. f_equal. lia.
    - rewrite !app_length in Hf. cbn [List.length] in Hf.
      destruct f as [|f]; [lia|].
      destruct (IH f (pos + 2 + blen body + 2)%nat rest ltac:(lia)) as (f' & Hf' & E).
      exists f'. split; [exact Hf'|].
      rewrite <- !app_assoc. cbn [app]. rewrite (cidx_ascii pos 47), (cidx_ascii (pos + 1) 42) by lia.
      rewrite ln_block.
      change (body ++ 42 :: 47 :: r ++ rest) with (body ++ [42; 47] ++ (r ++ rest)).
      rewrite skip_block_body; [|exact Hbody|rewrite cidx_length, app_length; lia].
      replace (pos + 1 + 1 + blen body + 2)%nat with (pos + 2 + blen body + 2)%nat by lia.
      rewrite E.
      blen_norm. f_equal. f_equal. lia.
  Qed.

  Lemma skip_final tvf : trivia_final uc tvf -> forall f pos,
    (List.length tvf < f)%nat -> LN f bytes len (cidx pos tvf) = LexEnd.
  Proof.
    intros [s Hs|s body Hs Hbody|s body Hs Hbody] f pos Hf.
    - destruct (skip_trivia s Hs f pos [] ltac:(cbn [List.length]; lia)) as (f' & _ & E).
      rewrite app_nil_r in E. rewrite E. apply ln_nil.
    - rewrite !app_length in Hf. cbn [List.length] in Hf.
      destruct (skip_trivia s Hs f pos ([35] ++ body) ltac:(rewrite app_length; cbn [List.length]; lia))
        as (f' & Hf' & E).
      rewrite E. destruct f' as [|f']; [cbn [List.length app] in Hf'; lia|].
      cbn [app]. rewrite cidx_ascii by lia. rewrite ln_hash.
      pose proof (get_while_span is_not_newline body (pos + blen s + 1) [] len Hbody I) as G.
      rewrite app_nil_r in G. rewrite G. apply ln_nil.
    - rewrite !app_length in Hf. cbn [List.length] in Hf.
      destruct (skip_trivia s Hs f pos ([47; 47] ++ body) ltac:(rewrite app_length; cbn [List.length]; lia))
        as (f' & Hf' & E).
      rewrite E. destruct f' as [|f']; [cbn [List.length app] in Hf'; lia|].
      cbn [app]. rewrite (cidx_ascii _ 47) by lia.
      assert (Hb2 : forallb is_not_newline (47 :: body) = true) by (cbn [forallb]; apply andb_true_iff; split; [reflexivity|exact Hbody]).
      pose proof (get_while_span is_not_newline (47 :: body) (pos + blen s + 1) [] len Hb2 I) as G.
      rewrite app_nil_r in G. rewrite cidx_cons in G |- *. rewrite ln_slashes, G. apply ln_nil.
  Qed.
End Skip.

(* ---- one token ---- *)
Lemma find_opts1 a (t : token) x :
  (x =? a) = false -> find (fun o : N * token => fst o =? x) [(a, t)] = None.
Proof. intros H. cbn [find fst]. rewrite N.eqb_sym, H. reflexivity. Qed.

Lemma find_opts2 a (t : token) b (u : token) x :
  (x =? a) || (x =? b) = false -> find (fun o : N * token => fst o =? x) [(a, t); (b, u)] = None.
Proof.
  intros H. apply orb_false_iff in H. destruct H as [H1 H2].
  cbn [find fst]. rewrite (N.eqb_sym a x), H1, (N.eqb_sym b x), H2. reflexivity.
Qed.

Definition is_keyword_token (t : token) : bool :=
  match t with TWire | TConst | TRegister | TIn => true | _ => false end.

Ltac compute_spelling :=
  repeat match goal with
         | |- context [bytes_of_string ?s] =>
             let v := eval vm_compute in (bytes_of_string s) in change (bytes_of_string s) with v
         | H : context [bytes_of_string ?s] |- _ =>
             let v := eval vm_compute in (bytes_of_string s) in change (bytes_of_string s) with v in H
         end;
  repeat match goal with
         | |- context [blen (?a :: ?l)] =>
             let v := eval vm_compute in (blen (a :: l)) in change (blen (a :: l)) with v
         end.

Lemma lex_fixed_op uc bytes len t s next pos f :
  fixed_spelling t = Some s -> is_keyword_token t = false -> may_follow uc t (bytes_of_string s) next ->
  lex_next uc (S f) bytes len (cidx pos (bytes_of_string s ++ next)) =
  LexTok (pos, t, (pos + blen (bytes_of_string s))%nat) (cidx (pos + blen (bytes_of_string s)) next).
Proof.
  intros Hfix Hnk Hmf.
  destruct t; try discriminate Hfix; try discriminate Hnk; injection Hfix as <-;
    compute_spelling; cbn [app]; rewrite !cidx_ascii by lia;
    try replace (pos + 1 + 1)%nat with (pos + 2)%nat by lia;
    try reflexivity;
    (destruct next as [|x next']; [reflexivity|]); cbn [may_follow clash] in Hmf; rewrite cidx_cons.
  - (* > *)
    rewrite (ln_two uc bytes len f pos 62 TGreater [(62, TRightShift); (61, TGreaterEqual)]) by tauto.
    rewrite two_char_default; [reflexivity|]. apply find_opts2. exact Hmf.
  - (* < *)
    rewrite (ln_two uc bytes len f pos 60 TLess [(60, TLeftShift); (61, TLessEqual)]) by tauto.
    rewrite two_char_default; [reflexivity|]. apply find_opts2. exact Hmf.
  - (* = *)
    rewrite (ln_two uc bytes len f pos 61 TAssign [(61, TEqual)]) by tauto.
    rewrite two_char_default; [reflexivity|]. apply find_opts1. exact Hmf.
  - (* & *)
    rewrite (ln_two uc bytes len f pos 38 TAnd [(38, TAndAnd)]) by tauto.
    rewrite two_char_default; [reflexivity|]. apply find_opts1. exact Hmf.
  - (* | *)
    rewrite (ln_two uc bytes len f pos 124 TOr [(124, TOrOr)]) by tauto.
    rewrite two_char_default; [reflexivity|]. apply find_opts1. exact Hmf.
  - (* / *)
    apply orb_false_iff in Hmf. destruct Hmf as [H1 H2]. apply N.eqb_neq in H1, H2.
    rewrite ln_divide by assumption. reflexivity.
  - (* ! *)
    rewrite (ln_two uc bytes len f pos 33 TNot [(61, TNotEqual)]) by tauto.
    rewrite two_char_default; [reflexivity|]. apply find_opts1. exact Hmf.
Qed.

Definition hexp (ds : list N) : list N := [48; 120] ++ ds.
Definition binp (ds : list N) : list N := [48; 98] ++ ds.

Section Tokens.
  Variable uc : N -> uclass.
  Local Notation LN := (lex_next uc).

  Lemma start_not_white c : is_start_identifier_char uc c = true -> is_whitespace uc c = false.
  Proof.
    unfold is_start_identifier_char, is_alphabetic, is_whitespace, is_ascii_alpha.
    destruct (N.ltb_spec c 128) as [Hlt|Hge].
    - intros H. lia.
    - destruct (uc c); intros H; try reflexivity; lia.
  Qed.

  (* the length of the encoded text around a piece *)
  Lemma bytes_length pre (s next : list N) :
    List.length (pre ++ utf8 (s ++ next)) = (List.length pre + blen s + blen next)%nat.
  Proof. rewrite app_length. fold (blen (s ++ next)). rewrite blen_app. lia. Qed.

  Lemma slice_piece pre s next e :
    e = (List.length pre + blen s)%nat -> slice (pre ++ utf8 (s ++ next)) (List.length pre) e = utf8 s.
  Proof. intros ->. rewrite utf8_app. apply slice_mid; reflexivity. Qed.

  (* identifiers and keywords *)
  Lemma lex_word pre c cs next f :
    is_start_identifier_char uc c = true -> forallb (is_identifier_char uc) cs = true ->
    match next with [] => True | x :: _ => is_identifier_char uc x = false end ->
    LN (S f) (pre ++ utf8 ((c :: cs) ++ next)) (List.length (pre ++ utf8 ((c :: cs) ++ next)))
       (cidx (List.length pre) ((c :: cs) ++ next)) =
    LexTok (List.length pre, resolve_identifier (utf8 (c :: cs)), (List.length pre + blen (c :: cs))%nat)
           (cidx (List.length pre + blen (c :: cs)) next).
  Proof.
    intros Hc Hcs Hnext.
    set (bytes := pre ++ utf8 ((c :: cs) ++ next)).
    assert (Hlen : List.length bytes = (List.length pre + blen (c :: cs) + blen next)%nat) by apply bytes_length.
    change ((c :: cs) ++ next) with (c :: (cs ++ next)). rewrite cidx_cons.
    rewrite ln_word; [|apply start_not_white; exact Hc|exact Hc].
    rewrite (get_while_span (is_identifier_char uc) cs _ next _ Hcs Hnext).
    assert (Hlast : match next with [] => List.length bytes | _ :: _ => (List.length pre + clen c + blen cs)%nat end
                    = (List.length pre + blen (c :: cs))%nat).
    { rewrite blen_cons. destruct next; [rewrite Hlen, blen_cons, blen_nil|]; lia. }
    rewrite Hlast. unfold bytes at 1. rewrite slice_piece by reflexivity.
    rewrite blen_cons, Nat.add_assoc. reflexivity.
  Qed.

  Lemma constant_of_ok bytes radix ts te s e w ds :
    slice bytes ts te = ds -> positional radix ds < two128 ->
    constant_of bytes radix ts te s e w =
    match w with
    | None => inl (s, TLit (mkV (positional radix ds) Unl), e)
    | Some n => if n <=? 128 then inl (s, TLit (mkV (positional radix ds) (Bits n)), e)
                else inr (LexInvalidConstant s e)
    end.
  Proof.
    intros Hs Hv. unfold constant_of. rewrite Hs, digits_value_0.
    apply N.ltb_lt in Hv. rewrite Hv. reflexivity.
  Qed.

  Lemma digits_ascii p ds : (forall c, p c = true -> (c <? 128) = true) ->
    forallb p ds = true -> forallb (fun b => b <? 128) ds = true.
  Proof. intros H. apply forallb_impl. exact H. Qed.

  (* decimal literals *)
  Lemma lex_decimal pre d ds next f :
    forallb dec_digit (d :: ds) = true -> positional 10 (d :: ds) < two128 ->
    match next with
    | [] => True
    | x :: _ => dec_digit x = false /\ (ds = [] -> x <> 120 /\ x <> 98)
    end ->
    LN (S f) (pre ++ utf8 ((d :: ds) ++ next)) (List.length (pre ++ utf8 ((d :: ds) ++ next)))
       (cidx (List.length pre) ((d :: ds) ++ next)) =
    LexTok (List.length pre, TLit (mkV (positional 10 (d :: ds)) Unl), (List.length pre + blen (d :: ds))%nat)
           (cidx (List.length pre + blen (d :: ds)) next).
  Proof.
    intros Hall Hv Hnext.
    set (bytes := pre ++ utf8 ((d :: ds) ++ next)). set (len := List.length bytes). set (p := List.length pre).
    assert (Hlen : len = (p + blen (d :: ds) + blen next)%nat) by apply bytes_length.
    pose proof (digits_ascii _ _ dec_lt128 Hall) as Hasc.
    pose proof (blen_ascii _ Hasc) as Hb. pose proof (utf8_ascii _ Hasc) as Hu.
    destruct (forallb_cons_true _ _ _ Hall) as [Hd Hds].
    destruct (forallb_cons_true _ _ _ Hasc) as [Hd128 Hds128]. apply N.ltb_lt in Hd128.
    assert (Hslice : slice bytes p (p + blen (d :: ds)) = d :: ds).
    { unfold bytes, p. rewrite slice_piece by reflexivity. exact Hu. }
    change ((d :: ds) ++ next) with (d :: (ds ++ next)). rewrite cidx_ascii by exact Hd128.
    rewrite lex_next_digit by exact Hd.
    assert (Hhc : handle_constant bytes len p (cidx (p + 1) (ds ++ next)) =
                  (constant_of bytes 10 p (p + blen (d :: ds)) p (p + blen (d :: ds)) None,
                   cidx (p + blen (d :: ds)) next)).
    { rewrite Hb. destruct ds as [|c2 ds'].
      - cbn [app List.length]. destruct next as [|x next']; [reflexivity|].
        destruct Hnext as [Hx Hxb]. destruct (Hxb eq_refl) as [Hx1 Hx2].
        rewrite cidx_cons, handle_constant_other by assumption.
        change (is_decimal_char x) with (dec_digit x). rewrite Hx. reflexivity.
      - destruct (forallb_cons_true _ _ _ Hds) as [Hc2 Hds'].
        destruct (forallb_cons_true _ _ _ Hds128) as [Hc128 Hds'128]. apply N.ltb_lt in Hc128.
        change ((c2 :: ds') ++ next) with (c2 :: (ds' ++ next)). rewrite cidx_ascii by exact Hc128.
        rewrite hc_dec_step by exact Hc2.
        assert (Hn : match next with [] => True | x :: _ => is_decimal_char x = false end).
        { destruct next as [|x next']; [exact I|]. exact (proj1 Hnext). }
        rewrite (get_while_span is_decimal_char ds' _ next _ Hds' Hn).
        rewrite (blen_ascii _ Hds'128).
        assert (Hlast : match next with [] => len | _ :: _ => (p + 1 + 1 + List.length ds')%nat end
                        = (p + List.length (d :: c2 :: ds'))%nat).
        { cbn [List.length]. destruct next; [rewrite Hlen, Hb, blen_nil; cbn [List.length]|]; lia. }
        rewrite Hlast. cbn [List.length].
        replace (p + 1 + 1 + List.length ds')%nat with (p + S (S (List.length ds')))%nat by lia.
        reflexivity. }
    rewrite Hhc, (constant_of_ok _ _ _ _ _ _ _ _ Hslice Hv). reflexivity.
  Qed.
  (* hexadecimal literals *)
  Lemma lex_hex pre h hs next f :
    forallb hex_digit (h :: hs) = true -> positional 16 (h :: hs) < two128 ->
    match next with [] => True | x :: _ => hex_digit x = false end ->
    LN (S f) (pre ++ utf8 ((hexp (h :: hs)) ++ next))
       (List.length (pre ++ utf8 ((hexp (h :: hs)) ++ next)))
       (cidx (List.length pre) ((hexp (h :: hs)) ++ next)) =
    LexTok (List.length pre, TLit (mkV (positional 16 (h :: hs)) Unl),
            (List.length pre + blen (hexp (h :: hs)))%nat)
           (cidx (List.length pre + blen (hexp (h :: hs))) next).
  Proof.
    intros Hall Hv Hnext.
    set (s := hexp (h :: hs)).
    set (bytes := pre ++ utf8 (s ++ next)). set (len := List.length bytes). set (p := List.length pre).
    assert (Hlen : len = (p + blen s + blen next)%nat) by apply bytes_length.
    pose proof (digits_ascii _ _ hex_lt128 Hall) as Hasc0.
    assert (Hasc : forallb (fun b => b <? 128) s = true) by (unfold s, hexp, binp; cbn [app forallb] in *; exact Hasc0).
    pose proof (blen_ascii _ Hasc) as Hb. pose proof (utf8_ascii _ Hasc) as Hu.
    destruct (forallb_cons_true _ _ _ Hall) as [Hh Hhs].
    destruct (forallb_cons_true _ _ _ Hasc0) as [Hh128 Hhs128]. apply N.ltb_lt in Hh128.
    assert (Hblen : blen s = S (S (S (List.length hs)))) by (rewrite Hb; reflexivity).
    assert (Hslice : slice bytes (p + 2) (p + blen s) = h :: hs).
    { assert (Hbytes : bytes = (pre ++ [48; 120]) ++ (h :: hs) ++ utf8 next).
      { unfold bytes. rewrite utf8_app, Hu. unfold s, hexp, binp. rewrite <- !app_assoc. reflexivity. }
      rewrite Hbytes. apply slice_mid.
      - rewrite app_length. reflexivity.
      - rewrite app_length, Hblen. cbn [List.length]. unfold p. lia. }
    change (s ++ next) with (48 :: 120 :: h :: (hs ++ next)).
    rewrite (cidx_ascii p 48), (cidx_ascii (p + 1) 120), (cidx_ascii (p + 1 + 1) h) by (try exact Hh128; lia).
    rewrite lex_next_digit by reflexivity.
    rewrite hc_hex_step. change (is_hexadecimal_char h) with (hex_digit h). rewrite Hh.
    rewrite (get_while_span is_hexadecimal_char hs _ next _ Hhs Hnext).
    rewrite (blen_ascii _ Hhs128).
    assert (Hlast : match next with [] => len | _ :: _ => (p + 1 + 1 + 1 + List.length hs)%nat end
                    = (p + blen s)%nat).
    { rewrite Hblen. destruct next; [rewrite Hlen, Hblen, blen_nil|]; lia. }
    rewrite Hlast.
    rewrite (constant_of_ok _ _ _ _ _ _ _ _ Hslice Hv).
    replace (p + 1 + 1 + 1 + List.length hs)%nat with (p + blen s)%nat by lia. reflexivity.
  Qed.

  Lemma bin_not_dec x : dec_digit x = false -> bin_digit x = false.
  Proof. unfold dec_digit, bin_digit. lia. Qed.

  (* binary literals *)
  Lemma lex_binary pre b bs next f :
    forallb bin_digit (b :: bs) = true -> (List.length (b :: bs) <= 128)%nat ->
    match next with [] => True | x :: _ => dec_digit x = false end ->
    LN (S f) (pre ++ utf8 ((binp (b :: bs)) ++ next))
       (List.length (pre ++ utf8 ((binp (b :: bs)) ++ next)))
       (cidx (List.length pre) ((binp (b :: bs)) ++ next)) =
    LexTok (List.length pre, TLit (mkV (positional 2 (b :: bs)) (Bits (N.of_nat (List.length (b :: bs))))),
            (List.length pre + blen (binp (b :: bs)))%nat)
           (cidx (List.length pre + blen (binp (b :: bs))) next).
  Proof.
    intros Hall Hn128 Hnext.
    set (s := binp (b :: bs)).
    set (bytes := pre ++ utf8 (s ++ next)). set (len := List.length bytes). set (p := List.length pre).
    assert (Hlen : len = (p + blen s + blen next)%nat) by apply bytes_length.
    pose proof (digits_ascii _ _ bin_lt128 Hall) as Hasc0.
    assert (Hasc : forallb (fun b => b <? 128) s = true) by (unfold s, hexp, binp; cbn [app forallb] in *; exact Hasc0).
    pose proof (blen_ascii _ Hasc) as Hb. pose proof (utf8_ascii _ Hasc) as Hu.
    destruct (forallb_cons_true _ _ _ Hall) as [Hb0 Hbs].
    destruct (forallb_cons_true _ _ _ Hasc0) as [Hb128 Hbs128]. apply N.ltb_lt in Hb128.
    assert (Hblen : blen s = S (S (S (List.length bs)))) by (rewrite Hb; reflexivity).
    assert (Hslice : slice bytes (p + 2) (p + blen s) = b :: bs).
    { assert (Hbytes : bytes = (pre ++ [48; 98]) ++ (b :: bs) ++ utf8 next).
      { unfold bytes. rewrite utf8_app, Hu. unfold s, hexp, binp. rewrite <- !app_assoc. reflexivity. }
      rewrite Hbytes. apply slice_mid.
      - rewrite app_length. reflexivity.
      - rewrite app_length, Hblen. cbn [List.length]. unfold p. lia. }
    assert (Hv : positional 2 (b :: bs) < two128).
    { eapply N.lt_le_trans; [apply bin_positional_bound; exact Hall|].
      unfold two128. apply N.pow_le_mono_r; lia. }
    assert (Hnb : match next with [] => True | x :: _ => is_binary_char x = false end).
    { destruct next as [|x next']; [exact I|]. apply bin_not_dec. exact Hnext. }
    change (s ++ next) with (48 :: 98 :: b :: (bs ++ next)).
    rewrite (cidx_ascii p 48), (cidx_ascii (p + 1) 98), (cidx_ascii (p + 1 + 1) b) by (try exact Hb128; lia).
    rewrite lex_next_digit by reflexivity.
    rewrite hc_bin_step. change (is_binary_char b) with (bin_digit b). rewrite Hb0.
    rewrite (get_while_span is_binary_char bs _ next _ Hbs Hnb).
    rewrite (blen_ascii _ Hbs128).
    assert (Hlast : match next with [] => len | _ :: _ => (p + 1 + 1 + 1 + List.length bs)%nat end
                    = (p + blen s)%nat).
    { rewrite Hblen. destruct next; [rewrite Hlen, Hblen, blen_nil|]; lia. }
    rewrite Hlast.
    rewrite (constant_of_ok _ _ _ _ _ _ _ _ Hslice Hv).
    replace (N.of_nat (p + blen s - (p + 2))) with (N.of_nat (List.length (b :: bs)))
      by (rewrite Hblen; cbn [List.length]; lia).
    assert (Hw : (N.of_nat (List.length (b :: bs)) <=? 128) = true) by (apply N.leb_le; lia).
    rewrite Hw.
    replace (p + 1 + 1 + 1 + List.length bs)%nat with (p + blen s)%nat by lia.
    destruct next as [|x next']; [reflexivity|].
    rewrite cidx_cons. change (is_decimal_char x) with (dec_digit x). rewrite Hnext. reflexivity.
  Qed.
End Tokens.

Lemma bytes_eqb_true a : forall b, bytes_eqb a b = true -> a = b.
Proof.
  induction a as [|x a IH]; intros [|y b] H; try discriminate; [reflexivity|].
  cbn [bytes_eqb] in H. apply andb_true_iff in H. destruct H as [Hxy Hab].
  apply N.eqb_eq in Hxy. subst y. f_equal. apply IH. exact Hab.
Qed.

Lemma resolve_not_keyword name : ~ In name keywords -> resolve_identifier name = TIdentifier name.
Proof.
  intros Hnk. unfold resolve_identifier.
  assert (Hk : forall kw, In kw keywords -> bytes_eqb name kw = false).
  { intros kw Hin. destruct (bytes_eqb name kw) eqn:E; [|reflexivity].
    apply bytes_eqb_true in E. subst kw. contradiction. }
  rewrite (Hk kw_wire), (Hk kw_const), (Hk kw_register), (Hk kw_in);
    [reflexivity|..]; vm_compute; tauto.
Qed.

Lemma lex_token_step uc pre t s next f :
  spells uc t s -> may_follow uc t s next ->
  lex_next uc (S f) (pre ++ utf8 (s ++ next)) (List.length (pre ++ utf8 (s ++ next)))
           (cidx (List.length pre) (s ++ next)) =
  LexTok (List.length pre, t, (List.length pre + blen s)%nat) (cidx (List.length pre + blen s) next).
Proof.
  intros Hsp Hmf. destruct Hsp as [t s Hfix|c cs Hc Hcs Hnk|ds Hne Hall Hv|ds Hne Hall Hv|ds Hne Hall Hn].
  - destruct (is_keyword_token t) eqn:Hk.
    + assert (Hnext : match next with [] => True | x :: _ => is_identifier_char uc x = false end).
      { destruct next as [|x next']; [exact I|]. destruct t; try discriminate Hk; exact Hmf. }
      destruct t; try discriminate Hk; injection Hfix as <-; compute_spelling;
        rewrite lex_word by (try reflexivity; exact Hnext); reflexivity.
    + apply lex_fixed_op; assumption.
  - rewrite lex_word; [|exact Hc|exact Hcs|].
    + rewrite resolve_not_keyword by exact Hnk. reflexivity.
    + destruct next as [|x next']; [exact I|exact Hmf].
  - destruct ds as [|d ds']; [congruence|].
    apply lex_decimal; [exact Hall|exact Hv|].
    destruct next as [|x next']; [exact I|]. cbn [may_follow clash] in Hmf.
    destruct ds' as [|x2 ds''].
    + apply orb_false_iff in Hmf. destruct Hmf as [Hmf H98]. apply orb_false_iff in Hmf. destruct Hmf as [Hd H120].
      apply N.eqb_neq in H98, H120. split; [exact Hd|]. intros _. split; assumption.
    + assert (Hx2 : (x2 =? 120) = false).
      { apply forallb_cons_true in Hall. destruct Hall as [_ Hall]. apply forallb_cons_true in Hall.
        destruct Hall as [Hx2 _]. unfold dec_digit in Hx2. lia. }
      rewrite Hx2 in Hmf. split; [exact Hmf|]. intros Habs. discriminate Habs.
  - destruct ds as [|h hs]; [congruence|].
    apply (lex_hex uc pre h hs next f); [exact Hall|exact Hv|].
    destruct next as [|x next']; [exact I|exact Hmf].
  - destruct ds as [|b bs]; [congruence|].
    apply (lex_binary uc pre b bs next f); [exact Hall|exact Hn|].
    destruct next as [|x next']; [exact I|exact Hmf].
Qed.

(* ---- the whole text ---- *)
Lemma spells_nonempty uc t s : spells uc t s -> (1 <= List.length s)%nat.
Proof.
  intros [t0 s0 Hfix|c cs _ _ _|ds Hne _ _|ds _ _ _|ds _ _ _].
  - destruct t0; try discriminate Hfix; injection Hfix as <-; cbn; lia.
  - cbn [List.length]. lia.
  - destruct ds; [congruence|cbn [List.length]; lia].
  - cbn [app List.length]. lia.
  - cbn [app List.length]. lia.
Qed.

Lemma items_le_text uc items last : admissible uc items last ->
  (List.length items <= List.length (text_of items last))%nat.
Proof.
  induction items as [|[[sep t] s] r IH]; intros H; [cbn [List.length]; lia|].
  cbn [admissible] in H. destruct H as (_ & Hsp & _ & Hr).
  cbn [text_of List.length]. rewrite !app_length.
  pose proof (spells_nonempty _ _ _ Hsp). specialize (IH Hr). lia.
Qed.

Lemma lex_loop_items uc : forall items last pre fuel acc bytes,
  admissible uc items last -> (List.length items < fuel)%nat ->
  bytes = pre ++ utf8 (text_of items last) ->
  lex_loop uc fuel bytes (List.length bytes) (cidx (List.length pre) (text_of items last)) acc =
  (rev acc ++ spans_of (List.length pre) items, None).
Proof.
  induction items as [|[[sep t] s] r IH]; intros last pre fuel acc bytes Hadm Hfuel Hbytes.
  - destruct fuel as [|fuel]; [cbn [List.length] in Hfuel; lia|].
    cbn [admissible text_of] in Hadm |- *. cbn [lex_loop].
    rewrite skip_final; [|exact Hadm|rewrite cidx_length; lia].
    cbn [spans_of]. rewrite app_nil_r. reflexivity.
  - destruct fuel as [|fuel]; [lia|]. cbn [List.length] in Hfuel.
    cbn [admissible] in Hadm. destruct Hadm as (Hsep & Hsp & Hmf & Hr).
    cbn [text_of] in Hbytes |- *. set (rest := text_of r last) in *.
    cbn [lex_loop].
    destruct (skip_trivia uc bytes (List.length bytes) sep Hsep
                (S (List.length (cidx (List.length pre) (sep ++ s ++ rest)))) (List.length pre) (s ++ rest))
      as (f' & Hf' & E).
    { rewrite cidx_length, !app_length. lia. }
    rewrite E. destruct f' as [|f']; [lia|].
    assert (Hb1 : bytes = (pre ++ utf8 sep) ++ utf8 (s ++ rest)).
    { rewrite Hbytes, utf8_app, app_assoc. reflexivity. }
    assert (Hl1 : (List.length pre + blen sep)%nat = List.length (pre ++ utf8 sep)).
    { rewrite app_length. reflexivity. }
    rewrite Hl1. rewrite Hb1 at 1 2. rewrite (lex_token_step uc _ t s rest f' Hsp Hmf).
    assert (Hb2 : bytes = ((pre ++ utf8 sep) ++ utf8 s) ++ utf8 rest).
    { rewrite Hb1, utf8_app, app_assoc. reflexivity. }
    assert (Hl2 : (List.length (pre ++ utf8 sep) + blen s)%nat = List.length ((pre ++ utf8 sep) ++ utf8 s)).
    { rewrite (app_length (pre ++ utf8 sep)). reflexivity. }
    rewrite Hl2.
    rewrite (IH last _ fuel _ bytes Hr ltac:(lia) Hb2).
    cbn [rev spans_of]. rewrite <- app_assoc. cbn [app].
    rewrite <- Hl2, <- Hl1. reflexivity.
Qed.

Theorem trivia_spans_holds : stmt_trivia_spans.
Proof.
  intros uc items last Hadm Hsc. unfold lex.
  set (text := text_of items last) in *. set (bytes := utf8 text).
  pose proof (length_le_blen text) as Hl. fold bytes in Hl. unfold blen in Hl. fold bytes in Hl.
  rewrite (char_indices_utf8 text _ _ Hsc) by lia.
  apply (lex_loop_items uc items last [] _ [] bytes Hadm).
  - pose proof (items_le_text uc items last Hadm). fold text in H. lia.
  - reflexivity.
Qed.

Lemma spans_tokens pos items : map tk (spans_of pos items) = map item_token items.
Proof.
  revert pos. induction items as [|[[sep t] s] r IH]; intros pos; [reflexivity|].
  cbn [spans_of map]. rewrite IH. reflexivity.
Qed.

Theorem trivia_irrelevant_holds : stmt_trivia_irrelevant.
Proof.
  intros uc items last Hadm Hsc. cbv zeta. rewrite (trivia_spans_holds uc items last Hadm Hsc).
  cbn [fst snd]. split; [apply spans_tokens|reflexivity].
Qed.

Theorem same_tokens_any_trivia_holds : stmt_same_tokens_any_trivia.
Proof.
  intros uc items1 last1 items2 last2 Ha1 Hs1 Ha2 Hs2 Htok.
  exists (spans_of 0 items1), (spans_of 0 items2).
  split; [apply trivia_spans_holds; assumption|]. split; [apply trivia_spans_holds; assumption|].
  unfold same_tokens. rewrite !spans_tokens. exact Htok.
Qed.

(* ---- line endings ---- *)
Definition hd47 (l : list N) : bool := match l with b :: _ => b =? 47 | [] => false end.

Lemma has_close_cons_eq a r : has_close (a :: r) = ((a =? 42) && hd47 r) || has_close r.
Proof. destruct r as [|b r']; [cbn; rewrite andb_false_r; reflexivity|reflexivity]. Qed.

Section LineEnds.
  Variable le : list N.
  Hypothesis Hle : le = [13; 10] \/ le = [13].
  Local Notation W := (with_line_end le).

  Lemma wle_cons c r : W (c :: r) = (if c =? 10 then le else [c]) ++ W r.
  Proof. reflexivity. Qed.
  Lemma wle_app a b : W (a ++ b) = W a ++ W b.
  Proof. apply flat_map_app. Qed.

  Lemma wle_no_newline body : forallb not_newline body = true -> W body = body.
  Proof.
    induction body as [|c body IH]; intros H; [reflexivity|].
    apply forallb_cons_true in H. destruct H as [Hc Hb]. rewrite wle_cons, (IH Hb).
    unfold not_newline in Hc. destruct (c =? 10); [discriminate Hc|reflexivity].
  Qed.

  Lemma hd47_wle r : hd47 (W r) = hd47 r.
  Proof.
    destruct r as [|b r']; [reflexivity|]. rewrite wle_cons.
    destruct (N.eqb_spec b 10) as [->|Hne]; [|reflexivity].
    destruct Hle as [-> | ->]; reflexivity.
  Qed.

  Lemma has_close_wle r : has_close (W r) = has_close r.
  Proof.
    induction r as [|a r IH]; [reflexivity|]. rewrite wle_cons.
    destruct (N.eqb_spec a 10) as [->|Hne].
    - rewrite (has_close_cons_eq 10 r). cbn [N.eqb Pos.eqb andb orb]. rewrite <- IH.
      destruct Hle as [-> | ->]; cbn [app]; rewrite !has_close_cons_eq; reflexivity.
    - cbn [app]. rewrite !has_close_cons_eq, hd47_wle, IH. reflexivity.
  Qed.

  Lemma trivia_le uc r : trivia uc r -> trivia uc (le ++ r).
  Proof.
    intros H. destruct Hle as [-> | ->]; cbn [app].
    - apply tv_white; [reflexivity|]. apply tv_white; [reflexivity|exact H].
    - apply tv_white; [reflexivity|exact H].
  Qed.

  Lemma le_split : exists le', le = [13] ++ le' /\ forall uc r, trivia uc r -> trivia uc (le' ++ r).
  Proof.
    destruct Hle as [-> | ->].
    - exists [10]. split; [reflexivity|]. intros uc r H. apply tv_white; [reflexivity|exact H].
    - exists []. split; [reflexivity|]. intros uc r H. exact H.
  Qed.

  Lemma wle_newline nl : nl = 10 \/ nl = 13 ->
    exists nl' tl, W [nl] = [nl'] ++ tl /\ (nl' = 10 \/ nl' = 13) /\ forall uc r, trivia uc r -> trivia uc (tl ++ r).
  Proof.
    intros [-> | ->].
    - destruct le_split as (le' & E & Hle'). exists 13, le'. split; [|split; [right; reflexivity|exact Hle']].
      cbn [with_line_end flat_map N.eqb Pos.eqb]. rewrite app_nil_r. exact E.
    - exists 13, []. split; [reflexivity|]. split; [right; reflexivity|]. intros uc r H. exact H.
  Qed.

  Lemma trivia_wle uc s : trivia uc s -> trivia uc (W s).
  Proof.
    induction 1 as [|c r Hc _ IH|body nl r Hbody Hnl _ IH|body nl r Hbody Hnl _ IH|body r Hbody _ IH].
    - apply tv_nil.
    - rewrite wle_cons. destruct (c =? 10); [apply trivia_le; exact IH|]. cbn [app]. apply tv_white; assumption.
    - rewrite !wle_app, (wle_no_newline body Hbody).
      destruct (wle_newline nl Hnl) as (nl' & tl & E & Hnl' & Htl). rewrite E, <- app_assoc.
      apply tv_hash; [exact Hbody|exact Hnl'|]. apply Htl. exact IH.
    - rewrite !wle_app, (wle_no_newline body Hbody).
      destruct (wle_newline nl Hnl) as (nl' & tl & E & Hnl' & Htl). rewrite E, <- app_assoc.
      apply tv_slashes; [exact Hbody|exact Hnl'|]. apply Htl. exact IH.
    - rewrite !wle_app. apply tv_block; [rewrite has_close_wle; exact Hbody|exact IH].
  Qed.

  Lemma trivia_final_wle uc s : trivia_final uc s -> trivia_final uc (W s).
  Proof.
    intros [s0 Hs|s0 body Hs Hbody|s0 body Hs Hbody].
    - apply tf_closed. apply trivia_wle. exact Hs.
    - rewrite !wle_app, (wle_no_newline body Hbody). apply tf_hash; [apply trivia_wle; exact Hs|exact Hbody].
    - rewrite !wle_app, (wle_no_newline body Hbody). apply tf_slashes; [apply trivia_wle; exact Hs|exact Hbody].
  Qed.

  Lemma hd_wle s x x' :
    (hd_error x' = hd_error x \/ hd_error x' = Some 13) ->
    hd_error (W s ++ x') = hd_error (s ++ x) \/ hd_error (W s ++ x') = Some 13.
  Proof.
    intros Hx. destruct s as [|c s']; [exact Hx|]. rewrite wle_cons.
    destruct (N.eqb_spec c 10) as [->|Hne]; [|left; reflexivity].
    right. destruct Hle as [-> | ->]; reflexivity.
  Qed.

  Lemma hd_text items last :
    let items' := map_seps W items in
    hd_error (text_of items' (W last)) = hd_error (text_of items last) \/
    hd_error (text_of items' (W last)) = Some 13.
  Proof.
    induction items as [|[[sep t] s] r IH]; cbn [map_seps map text_of fst snd].
    - pose proof (hd_wle last [] [] (or_introl eq_refl)) as H. rewrite !app_nil_r in H. exact H.
    - apply hd_wle. destruct s as [|c s']; [exact IH|left; reflexivity].
  Qed.

  Lemma clash_cr uc t s : clash uc t s 13 = false.
  Proof.
    destruct t; try reflexivity.
    destruct s as [|a [|b s']]; try reflexivity. cbn [clash]. destruct (b =? 120); reflexivity.
  Qed.

  Lemma may_follow_hd uc t s x x' :
    (hd_error x' = hd_error x \/ hd_error x' = Some 13) -> may_follow uc t s x -> may_follow uc t s x'.
  Proof.
    unfold may_follow. intros [H|H] Hm.
    - destruct x' as [|c' x']; [exact I|]. destruct x as [|c x]; [discriminate H|].
      cbn [hd_error] in H. injection H as ->. exact Hm.
    - destruct x' as [|c' x']; [exact I|]. cbn [hd_error] in H. injection H as ->. apply clash_cr.
  Qed.

  Lemma admissible_wle uc items last :
    admissible uc items last -> admissible uc (map_seps W items) (W last).
  Proof.
    induction items as [|[[sep t] s] r IH]; cbn [map_seps map admissible fst snd].
    - apply trivia_final_wle.
    - intros (Hsep & Hsp & Hmf & Hr). split; [apply trivia_wle; exact Hsep|]. split; [exact Hsp|].
      split; [|apply IH; exact Hr].
      eapply may_follow_hd; [|exact Hmf]. apply hd_text.
  Qed.

  Lemma scalar_wle s : Forall scalar s -> Forall scalar (W s).
  Proof.
    induction 1 as [|c s Hc _ IH]; [constructor|]. rewrite wle_cons. apply Forall_app. split; [|exact IH].
    destruct (c =? 10); [|constructor; [exact Hc|constructor]].
    destruct Hle as [-> | ->]; repeat constructor.
  Qed.

  Lemma scalar_text items last :
    Forall scalar (text_of items last) -> Forall scalar (text_of (map_seps W items) (W last)).
  Proof.
    induction items as [|[[sep t] s] r IH]; cbn [map_seps map text_of fst snd].
    - apply scalar_wle.
    - intros H. apply Forall_app in H. destruct H as [H1 H]. apply Forall_app in H. destruct H as [H2 H3].
      apply Forall_app. split; [apply scalar_wle; exact H1|]. apply Forall_app. split; [exact H2|apply IH; exact H3].
  Qed.

  Lemma map_seps_tokens f items : map item_token (map_seps f items) = map item_token items.
  Proof. unfold map_seps. rewrite map_map. apply map_ext. intros [[sep t] s]. reflexivity. Qed.
End LineEnds.

Theorem line_endings_holds : stmt_line_endings.
Proof.
  intros uc items last le Hle Hadm Hsc. cbv zeta.
  pose proof (admissible_wle le Hle uc items last Hadm) as Hadm'.
  pose proof (scalar_text le Hle items last Hsc) as Hsc'.
  split; [exact Hadm'|]. split; [exact Hsc'|].
  rewrite <- (map_seps_tokens (with_line_end le) items).
  apply (trivia_irrelevant_holds uc _ _ Hadm' Hsc').
Qed.

(* ---- the usual wording: separated texts are admissible ---- *)
Lemma white_no_clash uc t s c : is_whitespace uc c = true -> clash uc t s c = false.
Proof.
  intros Hw.
  assert (Hid : is_identifier_char uc c = false).
  { revert Hw. unfold is_whitespace, is_identifier_char, is_alphanumeric, is_ascii_alpha, is_decimal_char.
    destruct (N.ltb_spec c 128) as [Hlt|Hge].
    - intros H. lia.
    - destruct (uc c); intros H; try discriminate H. lia. }
  assert (Hasc : c < 128 -> (9 <= c <= 13) \/ c = 32).
  { intros Hlt. revert Hw. unfold is_whitespace. destruct (N.ltb_spec c 128); [|lia]. lia. }
  assert (Hop : forall k, 33 <= k < 128 -> (c =? k) = false).
  { intros k Hk. apply N.eqb_neq. intros ->. specialize (Hasc ltac:(lia)). lia. }
  assert (Hdig : dec_digit c = false /\ hex_digit c = false).
  { unfold hex_digit, dec_digit.
    destruct (N.ltb_spec c 128) as [Hlt|Hge]; [specialize (Hasc Hlt)|]; lia. }
  destruct Hdig as [Hd Hh].
  destruct t; try reflexivity; cbn [clash]; rewrite ?Hop by lia; try reflexivity; try exact Hid.
  destruct s as [|a [|b s']]; [reflexivity| |].
  - rewrite Hd, ?Hop by lia. reflexivity.
  - destruct (b =? 120); assumption.
Qed.

Lemma hash_no_clash uc t s : clash uc t s 35 = false.
Proof.
  destruct t; try reflexivity.
  destruct s as [|a [|b s']]; try reflexivity. cbn [clash]. destruct (b =? 120); reflexivity.
Qed.

Lemma slash_no_clash uc t s : t <> TDivide -> clash uc t s 47 = false.
Proof.
  intros Ht. destruct t; try reflexivity; [congruence|].
  destruct s as [|a [|b s']]; try reflexivity. cbn [clash]. destruct (b =? 120); reflexivity.
Qed.

Lemma trivia_head uc s : trivia uc s ->
  match s with [] => True | c :: _ => is_whitespace uc c = true \/ c = 35 \/ c = 47 end.
Proof. intros [|c r Hc _|body nl r _ _ _|body nl r _ _ _|body r _ _]; cbn [app]; auto. Qed.

Lemma trivia_final_head uc s : trivia_final uc s ->
  match s with [] => True | c :: _ => is_whitespace uc c = true \/ c = 35 \/ c = 47 end.
Proof.
  intros [s0 Hs|s0 body Hs _|s0 body Hs _].
  - apply trivia_head. exact Hs.
  - pose proof (trivia_head uc s0 Hs) as H. destruct s0; cbn [app]; auto.
  - pose proof (trivia_head uc s0 Hs) as H. destruct s0; cbn [app]; auto.
Qed.

Lemma head_no_clash uc t s c :
  (is_whitespace uc c = true \/ c = 35 \/ c = 47) -> (t = TDivide -> c <> 47) -> clash uc t s c = false.
Proof.
  intros [Hw|[-> | ->]] Hdiv.
  - apply white_no_clash. exact Hw.
  - apply hash_no_clash.
  - apply slash_no_clash. intros ->. exact (Hdiv eq_refl eq_refl).
Qed.

Lemma separated_admissible uc items last : separated uc items last -> admissible uc items last.
Proof.
  induction items as [|[[sep t] s] r IH]; cbn [separated admissible]; [exact (fun H => H)|].
  intros (Hsep & Hsp & Hnext & Hr). split; [exact Hsep|]. split; [exact Hsp|]. split; [|apply IH; exact Hr].
  destruct r as [|[[sep2 t2] s2] r'].
  - cbn [text_of]. cbn [separated] in Hr. pose proof (trivia_final_head uc last Hr) as Hh.
    unfold may_follow. destruct last as [|c last']; [exact I|].
    apply head_no_clash; [exact Hh|]. intros Ht Hc. apply (Hnext Ht). cbn [hd_error]. congruence.
  - cbn [text_of]. destruct Hnext as [Hempty Hdiv].
    cbn [separated] in Hr. destruct Hr as (Hsep2 & Hsp2 & _).
    destruct sep2 as [|c sep2'].
    + cbn [app]. specialize (Hempty eq_refl). unfold must_separate in Hempty. unfold may_follow.
      pose proof (spells_nonempty uc t2 s2 Hsp2) as Hne.
      destruct s2 as [|c2 s2']; [cbn [List.length] in Hne; lia|]. exact Hempty.
    + cbn [app]. unfold may_follow. pose proof (trivia_head uc _ Hsep2) as Hh. cbn in Hh.
      apply head_no_clash; [exact Hh|]. intros Ht Hc. apply (Hdiv Ht). cbn [hd_error]. congruence.
Qed.

Theorem trivia_irrelevant_separated_holds : stmt_trivia_irrelevant_separated.
Proof.
  intros uc items last Hsep Hsc. apply trivia_irrelevant_holds; [|exact Hsc].
  apply separated_admissible. exact Hsep.
Qed.

Lemma scalar_check l : forallb (fun c => c <? 1114112) l = true -> Forall scalar l.
Proof.
  intros H. apply Forall_forall. intros x Hx. apply N.ltb_lt.
  exact (proj1 (forallb_forall _ l) H x Hx).
Qed.

(* ---- the canonical spelling ---- *)
Lemma map_snd_cidx pos cs : map snd (cidx pos cs) = cs.
Proof. revert pos. induction cs as [|c cs IH]; intros pos; [reflexivity|]. cbn [cidx map snd]. now rewrite IH. Qed.

Lemma decode_utf8 cs : Forall scalar cs -> decode (utf8 cs) = cs.
Proof.
  intros H. unfold decode. rewrite (char_indices_utf8 cs _ _ H) by apply length_le_blen. apply map_snd_cidx.
Qed.

Lemma digit_value_small m : m < 10 -> digit_value (48 + m) = m.
Proof. intros H. unfold digit_value. destruct (N.leb_spec (48 + m) 57); lia. Qed.

Lemma positional_cons radix d r :
  positional radix (d :: r) = digit_value d * radix ^ N.of_nat (List.length r) + positional radix r.
Proof. reflexivity. Qed.

Lemma decimal_digits_ok f : forall n acc,
  n < 10 ^ N.of_nat f -> forallb dec_digit acc = true ->
  positional 10 (decimal_digits f n acc) = n * 10 ^ N.of_nat (List.length acc) + positional 10 acc /\
  forallb dec_digit (decimal_digits f n acc) = true /\
  (List.length acc <= List.length (decimal_digits f n acc))%nat.
Proof.
  induction f as [|f IH]; intros n acc Hn Hacc.
  - cbn [decimal_digits]. change (10 ^ N.of_nat 0) with 1 in Hn.
    assert (n = 0) by lia. subst n. split; [lia|]. split; [exact Hacc|lia].
  - cbn [decimal_digits]. destruct (N.ltb_spec n 10) as [Hlt|Hge].
    + split; [|split].
      * rewrite positional_cons, digit_value_small by exact Hlt. reflexivity.
      * cbn [forallb]. rewrite Hacc. unfold dec_digit. lia.
      * cbn [List.length]. lia.
    + assert (Hq : n / 10 < 10 ^ N.of_nat f).
      { rewrite Nat2N.inj_succ, N.pow_succ_r' in Hn. apply N.div_lt_upper_bound; lia. }
      assert (Hr : n mod 10 < 10) by (apply N.mod_lt; lia).
      assert (Hacc' : forallb dec_digit ((48 + n mod 10) :: acc) = true).
      { cbn [forallb]. rewrite Hacc. unfold dec_digit. lia. }
      destruct (IH (n / 10) ((48 + n mod 10) :: acc) Hq Hacc') as (H1 & H2 & H3).
      split; [|split; [exact H2|cbn [List.length] in H3; lia]].
      rewrite H1, positional_cons, digit_value_small by exact Hr.
      cbn [List.length]. rewrite Nat2N.inj_succ, N.pow_succ_r'.
      set (P := 10 ^ N.of_nat (List.length acc)). set (X := positional 10 acc).
      rewrite (N.div_mod' n 10) at 3. ring.
Qed.

Lemma decimal_digits_length f : forall n acc,
  (List.length acc <= List.length (decimal_digits f n acc))%nat.
Proof.
  induction f as [|f IH]; intros n acc; [cbn [decimal_digits]; lia|].
  cbn [decimal_digits]. destruct (n <? 10); [cbn [List.length]; lia|].
  specialize (IH (n / 10) ((48 + n mod 10) :: acc)). cbn [List.length] in IH. lia.
Qed.

Lemma decimal_digits_nonempty f n acc : decimal_digits (S f) n acc <> [].
Proof.
  cbn [decimal_digits]. destruct (n <? 10); [discriminate|]. intros E.
  pose proof (decimal_digits_length f (n / 10) ((48 + n mod 10) :: acc)) as H.
  rewrite E in H. cbn [List.length] in H. lia.
Qed.

Lemma decimal_ok v : v < two128 ->
  decimal v <> [] /\ forallb dec_digit (decimal v) = true /\ positional 10 (decimal v) = v.
Proof.
  intros Hv. unfold decimal.
  assert (Hb : v < 10 ^ N.of_nat 39).
  { eapply N.lt_trans; [exact Hv|]. vm_compute. reflexivity. }
  destruct (decimal_digits_ok 39 v [] Hb eq_refl) as (H1 & H2 & _).
  split; [apply decimal_digits_nonempty|]. split; [exact H2|].
  rewrite H1. cbn [List.length positional N.of_nat]. rewrite N.pow_0_r. lia.
Qed.

Lemma binary_ok k : forall v,
  List.length (binary k v) = k /\ forallb bin_digit (binary k v) = true /\
  positional 2 (binary k v) = v mod 2 ^ N.of_nat k.
Proof.
  induction k as [|k IH]; intros v.
  - cbn [binary List.length forallb positional N.of_nat]. rewrite N.pow_0_r, N.mod_1_r. split; [reflexivity|]. split; reflexivity.
  - destruct (IH v) as (H1 & H2 & H3). cbn [binary].
    assert (Hb : (v / 2 ^ N.of_nat k) mod 2 < 2) by (apply N.mod_lt; lia).
    set (m := (v / 2 ^ N.of_nat k) mod 2) in *.
    split; [|split].
    + cbn [List.length]. rewrite H1. reflexivity.
    + cbn [forallb]. rewrite H2. unfold bin_digit. lia.
    + rewrite positional_cons, H1, H3, digit_value_small by lia.
      rewrite Nat2N.inj_succ, N.pow_succ_r', (N.mul_comm 2).
      rewrite N.mod_mul_r by (try apply N.pow_nonzero; lia). fold m. lia.
Qed.

Theorem canonical_spelling_holds : stmt_canonical_spelling.
Proof.
  intros uc t Hlex.
  assert (Hfixed : forall s, fixed_spelling t = Some s ->
             spells uc t (bytes_of_string s) /\ Forall scalar (bytes_of_string s)).
  { intros s Hs. split; [apply sp_fixed; exact Hs|].
    destruct t; try discriminate Hs; injection Hs as <-; apply scalar_check; vm_compute; reflexivity. }
  destruct t; try (apply Hfixed; reflexivity).
  - (* literals *)
    destruct v as [v [n|]]; cbn [lexable spell] in *.
    + destruct Hlex as [Hn Hv].
      destruct (binary_ok (N.to_nat n) v) as (H1 & H2 & H3).
      rewrite N2Nat.id, N.mod_small in H3 by exact Hv.
      split.
      * replace (TLit (mkV v (Bits n)))
          with (TLit (mkV (positional 2 (binary (N.to_nat n) v))
                          (Bits (N.of_nat (List.length (binary (N.to_nat n) v))))))
          by (rewrite H1, H3, N2Nat.id; reflexivity).
        apply sp_binary; [|exact H2|rewrite H1; lia].
        intros E. rewrite E in H1. cbn [List.length] in H1. lia.
      * apply Forall_forall. intros x Hx. unfold scalar. cbn [app] in Hx.
        destruct Hx as [<-|[<-|Hx]]; [lia|lia|].
        pose proof (proj1 (forallb_forall _ _) H2 x Hx) as Hbx. unfold bin_digit in Hbx. lia.
    + destruct (decimal_ok v Hlex) as (H1 & H2 & H3). split.
      * replace (TLit (mkV v Unl)) with (TLit (mkV (positional 10 (decimal v)) Unl)) by (rewrite H3; reflexivity).
        apply sp_decimal; [exact H1|exact H2|rewrite H3; exact Hlex].
      * apply Forall_forall. intros x Hx. unfold scalar.
        pose proof (proj1 (forallb_forall _ _) H2 x Hx) as Hbx. unfold dec_digit in Hbx. lia.
  - (* identifiers *)
    cbn [lexable spell] in *. destruct Hlex as (c & cs & -> & Hsc & Hc & Hcs & Hnk).
    rewrite decode_utf8 by exact Hsc. split; [|exact Hsc].
    apply sp_ident; assumption.
Qed.

Example canonical_spelling_example :
  spell (TLit (mkV 255 Unl)) = bytes_of_string "255" /\
  spell (TLit (mkV 0 Unl)) = bytes_of_string "0" /\
  spell (TLit (mkV 5 (Bits 4))) = bytes_of_string "0b0101" /\
  spell (TIdentifier [97; 195; 169; 95; 49]) = [97; 233; 95; 49] /\
  spell TRightShift = bytes_of_string ">>" /\ spell TRegister = bytes_of_string "register" /\
  lexable test_uclass (TIdentifier [97; 195; 169; 95; 49]) /\ lexable test_uclass (TLit (mkV 5 (Bits 4))).
Proof.
  repeat split; try (vm_compute; reflexivity); try (cbn; lia).
  exists 97, [233; 95; 49]. repeat split; try reflexivity.
  - apply scalar_check. reflexivity.
  - vm_compute. intuition discriminate.
Qed.

(* ---- examples ---- *)

(* the text (with CR LF, a no-break space U+00A0, a non-ASCII identifier, a heart in a comment,
   adjacent tokens without separator, and a last line comment that is not closed by a line end)
     /*/ * /*/t /* c */ =<CR><LF> a<e-acute><NBSP>+ # comment <heart><LF> 0x1F*0b01 ;; // end    *)
Definition example_items : list item :=
  [ ([47; 42; 47; 32; 42; 32; 47; 42; 47], TIdentifier [116], [116]);
    ([32; 47; 42; 32; 99; 32; 42; 47; 32], TAssign, [61]);
    ([13; 10; 32], TIdentifier [97; 195; 169], [97; 233]);
    ([160], TPlus, [43]);
    ([32; 35; 32; 99; 111; 109; 109; 101; 110; 116; 32; 10084; 10; 32], TLit (mkV 31 Unl), [48; 120; 49; 70]);
    ([], TTimes, [42]);
    ([], TLit (mkV 1 (Bits 2)), [48; 98; 48; 49]);
    ([32], TSemicolon, [59]);
    ([], TSemicolon, [59]) ].
Definition example_last : list N := [32; 47; 47; 32; 101; 110; 100].

Example trivia_irrelevant_example :
  admissible test_uclass example_items example_last /\
  Forall scalar (text_of example_items example_last) /\
  lex test_uclass (utf8 (text_of example_items example_last)) = (spans_of 0 example_items, None) /\
  map item_token example_items =
    [TIdentifier [116]; TAssign; TIdentifier [97; 195; 169]; TPlus; TLit (mkV 31 Unl); TTimes;
     TLit (mkV 1 (Bits 2)); TSemicolon; TSemicolon].
Proof.
  split; [|split; [apply scalar_check; vm_compute; reflexivity|split; vm_compute; reflexivity]].
  unfold example_items, example_last. cbn [admissible].
  repeat match goal with |- _ /\ _ => split end; try exact I; try reflexivity.
  - exact (tv_block test_uclass [47; 32; 42; 32; 47] [] eq_refl (tv_nil _)).
  - apply (sp_ident test_uclass 116 []); [reflexivity|reflexivity|vm_compute; intuition discriminate].
  - apply tv_white; [reflexivity|].
    apply (tv_block test_uclass [32; 99; 32] [32] eq_refl). apply tv_white; [reflexivity|apply tv_nil].
  - exact (sp_fixed test_uclass TAssign "=" eq_refl).
  - repeat (apply tv_white; [reflexivity|]). apply tv_nil.
  - apply (sp_ident test_uclass 97 [233]); [reflexivity|reflexivity|vm_compute; intuition discriminate].
  - apply tv_white; [reflexivity|apply tv_nil].
  - exact (sp_fixed test_uclass TPlus "+" eq_refl).
  - apply tv_white; [reflexivity|].
    apply (tv_hash test_uclass [32; 99; 111; 109; 109; 101; 110; 116; 32; 10084] 10 [32] eq_refl (or_introl eq_refl)).
    apply tv_white; [reflexivity|apply tv_nil].
  - apply (sp_hex test_uclass [49; 70]); [discriminate|reflexivity|reflexivity].
  - apply tv_nil.
  - exact (sp_fixed test_uclass TTimes "*" eq_refl).
  - apply tv_nil.
  - apply (sp_binary test_uclass [48; 49]); [discriminate|reflexivity|cbn; lia].
  - apply tv_white; [reflexivity|apply tv_nil].
  - exact (sp_fixed test_uclass TSemicolon ";" eq_refl).
  - apply tv_nil.
  - exact (sp_fixed test_uclass TSemicolon ";" eq_refl).
  - apply (tf_slashes test_uclass [32] [32; 101; 110; 100]); [|reflexivity].
    apply tv_white; [reflexivity|apply tv_nil].
Qed.

(* the same tokens, one blank between them, LF only: the same token sequence *)
Example same_tokens_example :
  let items2 := map (fun i : item => ([32], item_token i, snd i)) example_items in
  map tk (fst (lex test_uclass (utf8 (text_of items2 [10])))) = map item_token example_items /\
  text_of items2 [10] <> text_of example_items example_last.
Proof. cbv zeta. split; [vm_compute; reflexivity|vm_compute; discriminate]. Qed.

(* ---- the refuted draft ---- *)
Lemma trivia_irrelevant_draft_refuted : ~ stmt_trivia_irrelevant_draft.
Proof.
  intros H.
  specialize (H test_uclass [([], TDivide, [47]); ([47; 42; 99; 42; 47], TIdentifier [97], [97])] []).
  assert (Hadm : admissible_draft test_uclass
                   [([], TDivide, [47]); ([47; 42; 99; 42; 47], TIdentifier [97], [97])] []).
  { cbn [admissible_draft]. repeat match goal with |- _ /\ _ => split end; try exact I.
    - apply tv_nil.
    - exact (sp_fixed test_uclass TDivide "/" eq_refl).
    - intros Hc. discriminate Hc.
    - exact (tv_block test_uclass [99] [] eq_refl (tv_nil _)).
    - apply (sp_ident test_uclass 97 []); [reflexivity|reflexivity|vm_compute; intuition discriminate].
    - apply tf_closed, tv_nil. }
  specialize (H Hadm ltac:(apply scalar_check; vm_compute; reflexivity)).
  vm_compute in H. destruct H as [H _]. discriminate H.
Qed.

(* ---- what the lexer does where may_follow fails, and where it holds without a separator ---- *)
Definition lx (s : string) : list token * option lex_error :=
  let r := lex test_uclass (bytes_of_string s) in (map tk (fst r), snd r).
Definition idt (s : string) : token := TIdentifier (bytes_of_string s).
Definition lit (n : N) : token := TLit (mkV n Unl).

Example clash_examples :
  (* a line comment that is not closed swallows the rest of the line *)
  lx "a #c b" = ([idt "a"], None) /\
  lx "a //c b" = ([idt "a"], None) /\
  (* words and literals run together *)
  lx "a1" = ([idt "a1"], None) /\ lx "inx" = ([idt "inx"], None) /\ lx "12" = ([lit 12], None) /\
  lx "1x5" = ([lit 5], None) /\ lx "1b1" = ([TLit (mkV 1 (Bits 1))], None) /\
  lx "0x1f" = ([lit 31], None) /\ lx "0b12" = ([], Some (LexLexicalError 3)) /\
  (* operators run together *)
  lx "&&" = ([TAndAnd], None) /\ lx "||" = ([TOrOr], None) /\ lx "==" = ([TEqual], None) /\
  lx "!=" = ([TNotEqual], None) /\ lx ">>" = ([TRightShift], None) /\ lx ">=" = ([TGreaterEqual], None) /\
  lx "<<" = ([TLeftShift], None) /\ lx "<=" = ([TLessEqual], None) /\
  lx "//*c*/a" = ([], None) /\ lx "/*" = ([], Some (LexUnterminatedComment 0)) /\
  (* no separator needed *)
  lx "12abc" = ([lit 12; idt "abc"], None) /\ lx "0b1x" = ([TLit (mkV 1 (Bits 1)); idt "x"], None) /\
  lx "12x" = ([lit 12; idt "x"], None) /\ lx ">>=" = ([TRightShift; TAssign], None) /\
  lx "a..b" = ([idt "a"; TDotDot; idt "b"], None) /\ lx "1..2" = ([lit 1; TDotDot; lit 2], None) /\
  (* a block comment body may end in stars and contain comment openers *)
  lx "a/***/b" = ([idt "a"; idt "b"], None) /\ lx "a/*/* # // **/b" = ([idt "a"; idt "b"], None).
Proof. vm_compute. repeat split. Qed.

(* ---- Part A and Part B together ---- *)
Theorem same_meaning_any_trivia_holds : stmt_same_meaning_any_trivia.
Proof.
  intros uc tiers items1 last1 items2 last2 Ha1 Hs1 Ha2 Hs2 Htok.
  destruct (same_tokens_any_trivia_holds uc items1 last1 items2 last2 Ha1 Hs1 Ha2 Hs2 Htok)
    as (toks1 & toks2 & H1 & H2 & Hsame).
  exact (text_meaning_by_tokens_holds uc tiers _ _ toks1 toks2 H1 H2 Hsame).
Qed.

(* parentheses are not allowed everywhere: the bounds of a slice and declared widths are literals *)
Example parentheses_not_everywhere :
  parse_text test_uclass doc_tiers (bytes_of_string "t = x[(0)..4];") = None /\
  parse_text test_uclass doc_tiers (bytes_of_string "t = x[0..4];") <> None /\
  parse_text test_uclass doc_tiers (bytes_of_string "wire a : (4);") = None /\
  parse_text test_uclass doc_tiers (bytes_of_string "t = ((x .. y)) + ((x)[0..4]);") =
  parse_text test_uclass doc_tiers (bytes_of_string "t = (x .. y) + x[0..4];").
Proof. vm_compute. repeat split. discriminate. Qed.

Print Assumptions parse_ignores_positions_holds.
Print Assumptions text_meaning_by_tokens_holds.
Print Assumptions any_parenthesisation_holds.
Print Assumptions renderings_agree_holds.
Print Assumptions rendering_unambiguous_holds.
Print Assumptions printers_render_holds.
Print Assumptions trivia_irrelevant_holds.
Print Assumptions trivia_spans_holds.
Print Assumptions same_tokens_any_trivia_holds.
Print Assumptions same_meaning_any_trivia_holds.
Print Assumptions line_endings_holds.
Print Assumptions trivia_irrelevant_draft_refuted.
Print Assumptions trivia_irrelevant_separated_holds.
Print Assumptions canonical_spelling_holds.
