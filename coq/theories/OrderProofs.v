(* Proofs of the OrderSpec statements: acceptance, the compiled program and the simulation do not
   depend on the textual order of the statements.  No axioms. *)
From Coq Require Import Permutation Relations.
From HclV Require Import Base Expr ExprSpec ExprLemmas ExprProofs ExprRules ExprRulesProofs Machine
     Graph GraphSpec GraphProofs Build MachineSpec MachineProofs SchedSpec SchedProofs C12Lemmas
     BuildSpec Generated BuildProofs TableSpec TableProofs CompleteSpec CompleteProofs OrderSpec.
Open Scope string_scope.
Open Scope list_scope.
Open Scope N_scope.

(* ================================================================================== *)
(* Part 1: fault freedom does not depend on the order of the statements                *)
(* ================================================================================== *)
Section PermLists.
  Variables stmts stmts' : list stmt.
  Hypothesis HP : Permutation stmts stmts'.

  Lemma perm_const_names : Permutation (const_names stmts) (const_names stmts').
  Proof. apply Permutation_flat_map. exact HP. Qed.
  Lemma perm_wire_names : Permutation (wire_names stmts) (wire_names stmts').
  Proof. apply Permutation_flat_map. exact HP. Qed.
  Lemma perm_assigned_names : Permutation (assigned_names stmts) (assigned_names stmts').
  Proof. apply Permutation_flat_map. exact HP. Qed.
  Lemma perm_const_exprs : Permutation (const_exprs stmts) (const_exprs stmts').
  Proof. apply Permutation_flat_map. exact HP. Qed.
  Lemma perm_wire_decls : Permutation (wire_decls stmts) (wire_decls stmts').
  Proof. apply Permutation_flat_map. exact HP. Qed.
  Lemma perm_assign_exprs : Permutation (assign_exprs stmts) (assign_exprs stmts').
  Proof. apply Permutation_flat_map. exact HP. Qed.
  Lemma perm_bank_decls : Permutation (bank_decls stmts) (bank_decls stmts').
  Proof. apply Permutation_flat_map. exact HP. Qed.
  Lemma perm_bank_regs : Permutation (bank_regs stmts) (bank_regs stmts').
  Proof. apply Permutation_flat_map. exact perm_bank_decls. Qed.
  Lemma perm_bank_inputs : Permutation (bank_inputs stmts) (bank_inputs stmts').
  Proof. apply Permutation_map. exact perm_bank_regs. Qed.
  Lemma perm_bank_outputs : Permutation (bank_outputs stmts) (bank_outputs stmts').
  Proof. apply Permutation_map. exact perm_bank_regs. Qed.
  Lemma perm_bank_signal_names : Permutation (bank_signal_names stmts) (bank_signal_names stmts').
  Proof. apply Permutation_flat_map. exact perm_bank_regs. Qed.
  Lemma perm_bank_specials : Permutation (bank_specials stmts) (bank_specials stmts').
  Proof. apply Permutation_flat_map. exact perm_bank_decls. Qed.
  Lemma perm_bank_widths : Permutation (bank_widths stmts) (bank_widths stmts').
  Proof.
    unfold bank_widths. apply Permutation_app.
    - apply Permutation_flat_map. exact perm_bank_regs.
    - apply Permutation_map. exact perm_bank_specials.
  Qed.
  Lemma perm_declared_widths fixed cv :
    Permutation (declared_widths fixed cv stmts) (declared_widths fixed cv stmts').
  Proof.
    unfold declared_widths. apply Permutation_app_head. apply Permutation_app; [exact perm_wire_decls|].
    apply Permutation_app; [exact perm_bank_widths|]. unfold const_widths.
    apply Permutation_flat_map. exact perm_const_names.
  Qed.
End PermLists.

Lemma acyclic_ext (R R' : string -> string -> Prop) :
  (forall a b, R' a b -> R a b) -> acyclic R -> acyclic R'.
Proof. intros H Ha x Hx. apply (Ha x). apply (clos_trans_mono R' R x x H Hx). Qed.

Section FaultFreePerm.
  Variable f : features.
  Variable fixed : list fixed_fn.
  Variables is_lower is_upper : string -> bool.

  Lemma fault_free_with_perm cv G stmts stmts' :
    Permutation stmts stmts' ->
    fault_free_with f fixed is_lower is_upper cv G stmts ->
    fault_free_with f fixed is_lower is_upper cv G stmts'.
  Proof.
    intros HP FF. pose proof (Permutation_sym HP) as HP'.
    assert (Icn : forall n, In n (const_names stmts') -> In n (const_names stmts))
      by (intros n; apply Permutation_in, (perm_const_names _ _ HP')).
    assert (Iwn : forall n, In n (wire_names stmts') -> In n (wire_names stmts))
      by (intros n; apply Permutation_in, (perm_wire_names _ _ HP')).
    assert (Ian : forall n, In n (assigned_names stmts') -> In n (assigned_names stmts))
      by (intros n; apply Permutation_in, (perm_assigned_names _ _ HP')).
    assert (Ian' : forall n, In n (assigned_names stmts) -> In n (assigned_names stmts'))
      by (intros n; apply Permutation_in, (perm_assigned_names _ _ HP)).
    assert (Icn' : forall n, In n (const_names stmts) -> In n (const_names stmts'))
      by (intros n; apply Permutation_in, (perm_const_names _ _ HP)).
    assert (Ice : forall x, In x (const_exprs stmts') -> In x (const_exprs stmts))
      by (intros x; apply Permutation_in, (perm_const_exprs _ _ HP')).
    assert (Iae : forall x, In x (assign_exprs stmts') -> In x (assign_exprs stmts))
      by (intros x; apply Permutation_in, (perm_assign_exprs _ _ HP')).
    assert (Iae' : forall x, In x (assign_exprs stmts) -> In x (assign_exprs stmts'))
      by (intros x; apply Permutation_in, (perm_assign_exprs _ _ HP)).
    assert (Ibd : forall x, In x (bank_decls stmts') -> In x (bank_decls stmts))
      by (intros x; apply Permutation_in, (perm_bank_decls _ _ HP')).
    assert (Ibr : forall x, In x (bank_regs stmts') -> In x (bank_regs stmts))
      by (intros x; apply Permutation_in, (perm_bank_regs _ _ HP')).
    assert (Ibo : forall x, In x (bank_outputs stmts') -> In x (bank_outputs stmts))
      by (intros x; apply Permutation_in, (perm_bank_outputs _ _ HP')).
    assert (Ibo' : forall x, In x (bank_outputs stmts) -> In x (bank_outputs stmts'))
      by (intros x; apply Permutation_in, (perm_bank_outputs _ _ HP)).
    assert (Ibs : forall x, In x (bank_specials stmts') -> In x (bank_specials stmts))
      by (intros x; apply Permutation_in, (perm_bank_specials _ _ HP')).
    assert (Ibs' : forall x, In x (bank_specials stmts) -> In x (bank_specials stmts'))
      by (intros x; apply Permutation_in, (perm_bank_specials _ _ HP)).
    assert (Iia : forall c, inputs_assigned stmts c -> inputs_assigned stmts' c)
      by (intros c H i Hi; apply Ian', H, Hi).
    assert (Iia' : forall c, inputs_assigned stmts' c -> inputs_assigned stmts c)
      by (intros c H i Hi; apply Ian, H, Hi).
    assert (Idecl : forall n, In n (const_names stmts' ++ wire_names stmts') ->
                              In n (const_names stmts ++ wire_names stmts)).
    { intros n. apply Permutation_in. apply Permutation_app; [apply (perm_const_names _ _ HP') | apply (perm_wire_names _ _ HP')]. }
    constructor.
    - apply (Permutation_NoDup (Permutation_app (perm_const_names _ _ HP) (perm_wire_names _ _ HP))).
      apply (ff_declared_once _ _ _ _ _ _ _ FF).
    - intros n Hn. apply (ff_not_builtin _ _ _ _ _ _ _ FF n (Idecl n Hn)).
    - intros b Hb. apply (ff_bank_name _ _ _ _ _ _ _ FF b (Ibd b Hb)).
    - apply (Permutation_NoDup (perm_bank_signal_names _ _ HP)). apply (ff_bank_signals_distinct _ _ _ _ _ _ _ FF).
    - intros n Hn Hd. apply (ff_bank_signals_undeclared _ _ _ _ _ _ _ FF n); [|apply Idecl; exact Hd].
      revert Hn. apply Permutation_in.
      apply Permutation_app; [apply (perm_bank_signal_names _ _ HP') | apply (perm_bank_specials _ _ HP')].
    - intros n w. rewrite (ff_widths _ _ _ _ _ _ _ FF n w). split; apply Permutation_in.
      + apply (perm_declared_widths _ _ HP).
      + apply (perm_declared_widths _ _ HP').
    - intros n e r Hne Hr. apply Icn'. apply (ff_consts_closed _ _ _ _ _ _ _ FF n e r (Ice _ Hne) Hr).
    - apply (acyclic_ext (const_reads stmts)); [|apply (ff_consts_acyclic _ _ _ _ _ _ _ FF)].
      intros a b [e [H1 H2]]. exists e. split; [apply Ice; exact H1 | exact H2].
    - intros n. rewrite (ff_cv_domain _ _ _ _ _ _ _ FF n). split; [apply Icn' | apply Icn].
    - intros n e Hne. apply (ff_consts_eval _ _ _ _ _ _ _ FF n e (Ice _ Hne)).
    - intros n e Hne. apply (ff_consts_width _ _ _ _ _ _ _ FF n e (Ice _ Hne)).
    - intros x r Hx Hr. apply Icn'. apply (ff_init_closed _ _ _ _ _ _ _ FF x r (Ibr _ Hx) Hr).
    - intros x Hx. apply (ff_init_width _ _ _ _ _ _ _ FF x (Ibr _ Hx)).
    - intros x Hx. apply (ff_init_eval _ _ _ _ _ _ _ FF x (Ibr _ Hx)).
    - apply (Permutation_NoDup (perm_assigned_names _ _ HP)). apply (ff_assigned_once _ _ _ _ _ _ _ FF).
    - intros n Hn. destruct (ff_no_driver _ _ _ _ _ _ _ FF n (Ian n Hn)) as [H1 [H2 H3]].
      split; [exact H1|]. split; [intros H; apply H2, Icn, H | intros H; apply H3, Ibo, H].
    - intros n Hn. apply (ff_assigned_declared _ _ _ _ _ _ _ FF n (Ian n Hn)).
    - intros n Hn. apply Ian'. apply (ff_all_driven _ _ _ _ _ _ _ FF n). revert Hn. apply Permutation_in.
      apply Permutation_app; [apply (perm_wire_names _ _ HP') | apply (perm_bank_inputs _ _ HP')].
    - intros c Hc Hm. apply Iia. apply (ff_mandatory_driven _ _ _ _ _ _ _ FF c Hc Hm).
    - intros c i j Hc Hm Hi Hia Hj Hja.
      destruct (ff_partial_disabled _ _ _ _ _ _ _ FF c i j Hc Hm Hi (Ian _ Hia) Hj) as [en [e [v [E1 [E2 E3]]]]].
      { intros H. apply Hja, Ian', H. }
      exists en, e, v. split; [exact E1|]. split; [apply Iae'; exact E2 | exact E3].
    - intros y e x Hye Hx.
      destruct (ff_reads_driven _ _ _ _ _ _ _ FF y e x (Iae _ Hye) Hx) as [H|[H|[H|[H|[c [w [Hc [Ho Hia]]]]]]]].
      + left. apply Icn', H.
      + right. left. apply Ibo', H.
      + right. right. left. apply Ibs', H.
      + right. right. right. left. apply Ian', H.
      + right. right. right. right. exists c, w. split; [exact Hc|]. split; [exact Ho | apply Iia, Hia].
    - intros n e w Hne HG. apply (ff_assign_widths _ _ _ _ _ _ _ FF n e w (Iae _ Hne) HG).
    - apply (acyclic_ext (wire_reads fixed stmts)); [|apply (ff_acyclic _ _ _ _ _ _ _ FF)].
      intros a b [[e [H1 [H2 [H3 [H4 H5]]]]]|[c [w [Hc [Hia [Ho Hi]]]]]].
      + left. exists e. split; [apply Iae; exact H1|]. split; [exact H2|].
        split; [intros H; apply H3, Icn', H|]. split; [intros H; apply H4, Ibo', H|].
        intros [Hs Hna]. apply H5. split; [apply Ibs', Hs | intros H; apply Hna, Ian, H].
      + right. exists c, w. split; [exact Hc|]. split; [apply Iia', Hia|]. split; assumption.
  Qed.

  Lemma fault_free_perm stmts stmts' :
    Permutation stmts stmts' ->
    fault_free f fixed is_lower is_upper stmts -> fault_free f fixed is_lower is_upper stmts'.
  Proof. intros HP [cv [G FF]]. exists cv, G. apply (fault_free_with_perm cv G stmts stmts' HP FF). Qed.
End FaultFreePerm.

Theorem acceptance_order_free_holds f is_lower is_upper : stmt_acceptance_order_free f is_lower is_upper.
Proof.
  intros stmts stmts' HP. rewrite !(accepted_iff_fault_free_gen_holds f is_lower is_upper).
  split; apply fault_free_perm; [exact HP | apply Permutation_sym; exact HP].
Qed.

(* ================================================================================== *)
(* Part 2a: the register banks step 3 produces, exactly                                *)
(* ================================================================================== *)
Section BanksExact.
  Variable f : features.
  Variable is_lower is_upper : string -> bool.

  (* the defaults table of a bank, register by register *)
  Definition dfl_step (rho : string -> option wval) (o : string) (dfl : list (string * wval))
             (r : string * width * expr) : list (string * wval) :=
    match eval f rho (snd r) with
    | Ok v => upd dfl (o ++ "_" ++ fst (fst r))%string (as_width (snd (fst r)) v)
    | Err _ => dfl
    end.

  Definition bank_of (rho : string -> option wval) (b : string * list (string * width * expr)) : bank :=
    match bank_letters (fst b) with
    | Some (i, o) =>
        mkBank (fst b) (map (reg_sig i o) (snd b)) (fold_left (dfl_step rho o) (snd b) [])
               ("stall_" ++ o)%string ("bubble_" ++ o)%string
    | None => mkBank (fst b) [] [] "" ""
    end.

  Lemma dfl_step_ext rho rho' o : (forall n, rho n = rho' n) ->
    forall regs dfl, fold_left (dfl_step rho o) regs dfl = fold_left (dfl_step rho' o) regs dfl.
  Proof.
    intros H. induction regs as [|r regs IH]; intros dfl; cbn [fold_left]; [reflexivity|].
    unfold dfl_step at 2 4. rewrite (eval_ext f rho rho' (snd r)) by (intros n _; apply H). apply IH.
  Qed.

  Lemma bank_of_ext rho rho' b : (forall n, rho n = rho' n) -> bank_of rho b = bank_of rho' b.
  Proof.
    intros H. unfold bank_of. destruct (bank_letters (fst b)) as [[i o]|]; [|reflexivity].
    rewrite (dfl_step_ext rho rho' o H). reflexivity.
  Qed.

  Lemma step3_regs_exact s consts bn inp outp : forall regs t sigs dfl,
    NoDup (flat_map (reg_names inp outp) regs) ->
    (forall x, In x (flat_map (reg_names inp outp) regs) -> ~ In x (t_seen t) /\ ~ In x (s_decls s)) ->
    (forall x, In x (map fst dfl) -> In x (t_seen t)) ->
    (forall r, In r regs -> reg_cond f s consts outp r) ->
    exists t',
      fold_left (step3_register f s consts bn inp outp) regs (t, sigs, dfl) =
        (t', sigs ++ map (reg_sig inp outp) regs, fold_left (dfl_step (lookup consts) outp) regs dfl) /\
      t_banks t' = t_banks t /\
      (forall x, In x (t_seen t') <-> In x (t_seen t) \/ In x (flat_map (reg_names inp outp) regs)).
  Proof.
    induction regs as [|[[rname w] d] regs IH]; intros t sigs dfl Hnd Hfresh Hdfl Hregs; cbn [fold_left].
    - exists t. cbn [map flat_map]. rewrite app_nil_r. split; [reflexivity|]. split; [reflexivity|].
      intros x. cbn [In]. tauto.
    - cbn [flat_map reg_names fst snd app] in Hnd, Hfresh.
      set (in_name := (inp ++ "_" ++ rname)%string) in *.
      set (out_name := (outp ++ "_" ++ rname)%string) in *.
      apply NoDup_cons_iff in Hnd. destruct Hnd as [Ho Hnd]. apply NoDup_cons_iff in Hnd. destruct Hnd as [Hi Hnd].
      destruct (Hregs (rname, w, d) (or_introl eq_refl)) as [R1 [R2 [[wc Rck] [v [R3 R4]]]]]. cbn [fst snd] in R1, R2, Rck, R3, R4.
      fold out_name in R2.
      destruct (Hfresh out_name (or_introl eq_refl)) as [Fo1 Fo2].
      destruct (Hfresh in_name (or_intror (or_introl eq_refl))) as [Fi1 Fi2].
      destruct (step3_register_ok f s consts bn inp outp t sigs dfl rname w d v wc) as [t1 [E1 [E2 [E3 E4]]]];
        try assumption.
      { intros H. apply Fo1. apply Hdfl. exact H. }
      { intros H. apply Ho. left. exact H. }
      fold in_name in E1, E4. fold out_name in E1, E4. rewrite E1.
      destruct (IH t1 (sigs ++ [(in_name, out_name, w)]) (upd dfl out_name (as_width w v))) as [t' [F1 [F3 F4]]].
      + exact Hnd.
      + intros x Hx. destruct (Hfresh x (or_intror (or_intror Hx))) as [Fx1 Fx2]. split; [|exact Fx2].
        rewrite E4, !add_set_In. intros [[H|H]|H].
        * exact (Fx1 H).
        * subst x. apply Ho. right. exact Hx.
        * subst x. apply Hi. exact Hx.
      + intros x Hx. rewrite map_fst_upd in Hx. apply add_set_In in Hx. rewrite E4, !add_set_In.
        destruct Hx as [Hx|Hx]; [left; left; apply Hdfl; exact Hx | left; right; exact Hx].
      + intros r Hr. apply Hregs. right. exact Hr.
      + exists t'. split.
        * assert (Hd : dfl_step (lookup consts) outp dfl (rname, w, d) = upd dfl out_name (as_width w v)).
          { unfold dfl_step. cbn [fst snd]. rewrite R3. reflexivity. }
          rewrite Hd, F1, <- app_assoc. reflexivity.
        * split; [rewrite F3; exact E3|].
          intros x. rewrite F4, E4, !add_set_In. cbn [flat_map reg_names fst snd app In].
          fold in_name. fold out_name. split.
          -- intros [[[H|H]|H]|H]; auto.
          -- intros [H|[H|[H|H]]]; auto.
  Qed.

  Lemma step3_bank_exact s consts t b :
    bank_cond f is_lower is_upper s consts b ->
    NoDup (bank_names b) ->
    (forall x, In x (bank_names b) -> ~ In x (t_seen t) /\ ~ In x (s_decls s)) ->
    t_banks (step3_bank f is_lower is_upper s consts t b) = t_banks t ++ [bank_of (lookup consts) b].
  Proof.
    destruct b as [name regs]. intros [i [o [Hl [Hlo [Hup [Hst [Hbu Hregs]]]]]]] Hnd Hfresh.
    unfold bank_names in Hnd, Hfresh. unfold bank_of. cbn [fst snd] in *. rewrite Hl in Hnd, Hfresh |- *.
    unfold step3_bank. rewrite (bank_letters_inv name i o Hl). rewrite Hlo, Hup. cbn [negb orb].
    match goal with
    | |- context [fold_left _ regs (?T1, [], [])] => set (t1 := T1)
    end.
    destruct (step3_regs_exact s consts name i o regs t1 [] []) as [t' [F1 [F3 _]]].
    - exact Hnd.
    - exact Hfresh.
    - intros x [].
    - exact Hregs.
    - rewrite F1. cbn [app t_banks]. rewrite F3. reflexivity.
  Qed.

  Lemma step3_banks_exact s consts : forall banks t,
    (forall b, In b banks -> bank_cond f is_lower is_upper s consts b) ->
    NoDup (flat_map bank_names banks) ->
    (forall x, In x (flat_map bank_names banks) -> ~ In x (t_seen t) /\ ~ In x (s_decls s)) ->
    t_banks (fold_left (step3_bank f is_lower is_upper s consts) banks t) =
    t_banks t ++ map (bank_of (lookup consts)) banks.
  Proof.
    induction banks as [|b banks IH]; intros t Hc Hnd Hfresh; cbn [fold_left map].
    - rewrite app_nil_r. reflexivity.
    - cbn [flat_map] in Hnd, Hfresh.
      assert (Hc0 : bank_cond f is_lower is_upper s consts b) by (apply Hc; left; reflexivity).
      assert (Hnd0 : NoDup (bank_names b)) by (apply NoDup_app_l in Hnd; exact Hnd).
      assert (Hf0 : forall x, In x (bank_names b) -> ~ In x (t_seen t) /\ ~ In x (s_decls s)).
      { intros x Hx. apply Hfresh. apply in_or_app. left. exact Hx. }
      destruct (step3_bank_ok f is_lower is_upper s consts t b Hc0 Hnd0 Hf0) as [bk [_ [_ [_ B4]]]].
      rewrite IH.
      + rewrite (step3_bank_exact s consts t b Hc0 Hnd0 Hf0), <- app_assoc. reflexivity.
      + intros b0 Hb0. apply Hc. right. exact Hb0.
      + apply NoDup_app_r in Hnd. exact Hnd.
      + intros x Hx. destruct (Hfresh x (in_or_app _ _ _ (or_intror Hx))) as [F1 F2]. split; [|exact F2].
        rewrite B4. intros [H|H]; [exact (F1 H)|].
        apply (NoDup_app_disj _ _ x Hnd H Hx).
  Qed.
End BanksExact.

(* ================================================================================== *)
(* Part 2b: the wire kinds recorded by step 1 and step 3, as one list of updates        *)
(* ================================================================================== *)
Definition tops (x : stmt) : list (string * wtype) :=
  match x with
  | SConst d => map (fun ne => (fst ne, TConstant)) d
  | SWire d => map (fun nw => (fst nw, TNormal)) d
  | _ => []
  end.

Definition bank_tops (b : string * list (string * width * expr)) : list (string * wtype) :=
  match bank_letters (fst b) with
  | Some (i, o) =>
      [(("stall_" ++ o)%string, TRegisterBankSpecial); (("bubble_" ++ o)%string, TRegisterBankSpecial)] ++
      flat_map (fun r => [((i ++ "_" ++ fst (fst r))%string, TRegisterBankInput);
                          ((o ++ "_" ++ fst (fst r))%string, TRegisterBankOutput)]) (snd b)
  | None => []
  end.

Lemma s_types_step1 fixed s x : s_types (step1 fixed s x) = fold_left updp (tops x) (s_types s).
Proof.
  destruct x as [d|d|a|bn regs]; cbn [step1 tops fold_left].
  - rewrite <- (flat_map_single (fun ne : string * expr => (fst ne, TConstant)) d).
    apply (fold_proj s_types updp (step1_const fixed) (fun d0 => [(fst d0, TConstant)])).
    intros s0 [n e]. reflexivity.
  - rewrite <- (flat_map_single (fun nw : string * width => (fst nw, TNormal)) d).
    apply (fold_proj s_types updp (step1_wire fixed) (fun d0 => [(fst d0, TNormal)])).
    intros s0 [n e]. reflexivity.
  - apply (fold_same s_types). intros s0 a0. apply (fold_same s_types). intros s1 n. reflexivity.
  - reflexivity.
Qed.

Lemma S1_types fixed stmts :
  s_types (fold_left (step1 fixed) stmts (init1 fixed)) =
  fold_left updp (flat_map tops stmts) (s_types (init1 fixed)).
Proof. apply (fold_proj s_types updp (step1 fixed) tops (s_types_step1 fixed) stmts (init1 fixed)). Qed.

Section TypesExact.
  Variable f : features.
  Variable is_lower is_upper : string -> bool.

  Lemma step3_register_types s consts bn inp outp a r :
    t_types (r_t (step3_register f s consts bn inp outp a r)) =
    upd (upd (t_types (r_t a)) (inp ++ "_" ++ fst (fst r))%string TRegisterBankInput)
        (outp ++ "_" ++ fst (fst r))%string TRegisterBankOutput.
  Proof.
    destruct a as [[t sigs] defaults]. destruct r as [[rname w] dflt].
    unfold step3_register. cbv beta iota zeta.
    match goal with
    | |- context [match ?pre with [] => _ | _ :: _ => _ end] => destruct pre as [|e0 pre0]
    end; [|reflexivity].
    match goal with
    | |- context [check ?a ?b ?c ?d] => destruct (check a b c d) as [wc|esc]
    end; [|reflexivity].
    destruct (eval f (lookup consts) dflt) as [v|es]; reflexivity.
  Qed.

  Lemma step3_regs_types s consts bn inp outp : forall regs a,
    t_types (r_t (fold_left (step3_register f s consts bn inp outp) regs a)) =
    fold_left updp (flat_map (fun r => [((inp ++ "_" ++ fst (fst r))%string, TRegisterBankInput);
                                        ((outp ++ "_" ++ fst (fst r))%string, TRegisterBankOutput)]) regs)
              (t_types (r_t a)).
  Proof.
    induction regs as [|r regs IH]; intros a; cbn [fold_left flat_map app]; [reflexivity|].
    rewrite IH, step3_register_types. reflexivity.
  Qed.

  Lemma step3_bank_types s consts t b :
    bank_name_ok is_lower is_upper b ->
    t_types (step3_bank f is_lower is_upper s consts t b) = fold_left updp (bank_tops b) (t_types t).
  Proof.
    destruct b as [name regs]. intros [i [o [Hl [Hlo Hup]]]]. unfold bank_tops. cbn [fst snd] in *. rewrite Hl.
    unfold step3_bank. rewrite (bank_letters_inv name i o Hl). rewrite Hlo, Hup. cbn [negb orb].
    match goal with
    | |- context [fold_left ?F regs ?A] =>
        pose proof (step3_regs_types s consts name i o regs A) as Hk;
        destruct (fold_left F regs A) as [[t2 sigs] defaults]
    end.
    cbn [r_t fst t_types] in Hk. cbn [t_types]. rewrite Hk. rewrite fold_left_app. reflexivity.
  Qed.

  Lemma step3_banks_types s consts : forall banks t,
    (forall b, In b banks -> bank_name_ok is_lower is_upper b) ->
    t_types (fold_left (step3_bank f is_lower is_upper s consts) banks t) =
    fold_left updp (flat_map bank_tops banks) (t_types t).
  Proof.
    induction banks as [|b banks IH]; intros t Hok; cbn [fold_left flat_map]; [reflexivity|].
    rewrite IH by (intros b0 Hb0; apply Hok; right; exact Hb0).
    rewrite (step3_bank_types s consts t b (Hok b (or_introl eq_refl))), fold_left_app. reflexivity.
  Qed.

  (* ---- the defaulted control signals are listed once ---------------------------------------- *)
  Lemma step3_bank_defaulted_NoDup s consts t b :
    NoDup (t_defaulted t) -> NoDup (t_defaulted (step3_bank f is_lower is_upper s consts t b)).
  Proof.
    destruct b as [name regs]. intros Hnd. unfold step3_bank. cbv beta iota.
    destruct (utf8_chars name "") as [|inp [|outp [|x l]]]; try exact Hnd.
    destruct (negb (is_lower inp) || negb (is_upper outp)); [exact Hnd|].
    match goal with
    | |- context [fold_left ?F regs ?A] =>
        pose proof (step3_regs_keep f s consts name inp outp regs A) as Hk;
        destruct (fold_left F regs A) as [[t2 sigs] defaults]
    end.
    destruct Hk as [_ K2]. cbn [r_t fst t_defaulted] in K2. cbn [t_defaulted]. rewrite K2.
    apply fold_add_set_NoDup. exact Hnd.
  Qed.

  Lemma step3_banks_defaulted_NoDup s consts : forall banks t,
    NoDup (t_defaulted t) -> NoDup (t_defaulted (fold_left (step3_bank f is_lower is_upper s consts) banks t)).
  Proof.
    induction banks as [|b banks IH]; intros t H; cbn [fold_left]; [exact H|].
    apply IH. apply step3_bank_defaulted_NoDup. exact H.
  Qed.
End TypesExact.

(* ================================================================================== *)
(* Part 2c: preprocess_fixed decides by "is this input assigned" only                  *)
(* ================================================================================== *)
Section PreprocessExact.
  Variable f : features.

  Definition instb (assigns : list (string * expr)) (ff : fixed_fn) : bool :=
    forallb (fun n => has assigns n) (fixed_in_names ff).

  Lemma preprocess_one_exact consts assigns g by_out no_out ff :
    snd (preprocess_one f consts assigns (g, by_out, no_out, []) ff) = [] ->
    preprocess_one f consts assigns (g, by_out, no_out, []) ff =
    if instb assigns ff then
      match ff_out ff with
      | None => (g, by_out, no_out ++ [ff], [])
      | Some (o, _) =>
          (fold_left (fun g1 n => graph_insert g1 n o) (fixed_in_names ff) g, upd by_out o ff, no_out, [])
      end
    else (g, by_out, no_out, []).
  Proof.
    unfold preprocess_one, instb. cbv beta iota zeta.
    destruct (filter (fun n => negb (has assigns n)) (fixed_in_names ff)) as [|m ms] eqn:Em.
    - intros _.
      assert (Hall : forallb (fun n => has assigns n) (fixed_in_names ff) = true).
      { apply forallb_forall. intros x Hx. apply (filter_nil_inv _ _ Em) in Hx.
        apply negb_false_iff in Hx. exact Hx. }
      rewrite Hall. destruct (ff_out ff) as [[o w]|]; reflexivity.
    - assert (Hnot : forallb (fun n => has assigns n) (fixed_in_names ff) = false).
      { destruct (forallb (fun n => has assigns n) (fixed_in_names ff)) eqn:E; [|reflexivity].
        rewrite forallb_forall in E.
        assert (Hm : In m (filter (fun n => negb (has assigns n)) (fixed_in_names ff))) by (rewrite Em; left; reflexivity).
        apply filter_In in Hm. destruct Hm as [Hm1 Hm2]. rewrite (E m Hm1) in Hm2. discriminate Hm2. }
      rewrite Hnot. destruct (ff_mandatory ff).
      + destruct (ff_out ff) as [[o w]|]; cbn [snd map app]; intros He; discriminate He.
      + cbn [snd app]. intros He. rewrite He. reflexivity.
  Qed.

  Lemma instb_ext assigns assigns' ff :
    (forall n, has assigns n = has assigns' n) -> instb assigns ff = instb assigns' ff.
  Proof.
    intros H. unfold instb. induction (fixed_in_names ff) as [|n ns IHn]; cbn [forallb]; [reflexivity|].
    rewrite IHn, (H n). reflexivity.
  Qed.

  Definition same_nodes (g g' : graph string) : Prop := forall x, In x (g_nodes g) <-> In x (g_nodes g').

  Lemma insert_fold_same_nodes o : forall ins g g',
    same_nodes g g' ->
    same_nodes (fold_left (fun g1 n => graph_insert g1 n o) ins g)
               (fold_left (fun g1 n => graph_insert g1 n o) ins g').
  Proof.
    induction ins as [|i ins IH]; intros g g' H; cbn [fold_left]; [exact H|].
    apply IH. intros x. rewrite !graph_insert_nodes, (H x). reflexivity.
  Qed.

  (* two runs over the same table, for two assignment maps with the same keys *)
  Lemma preprocess_pair consts consts' assigns assigns' :
    (forall n, has assigns n = has assigns' n) ->
    forall l g1 g2 by_out no_out g1' by1 no1 g2' by2 no2,
      same_nodes g1 g2 ->
      fold_left (preprocess_one f consts assigns) l (g1, by_out, no_out, []) = (g1', by1, no1, []) ->
      fold_left (preprocess_one f consts' assigns') l (g2, by_out, no_out, []) = (g2', by2, no2, []) ->
      by1 = by2 /\ no1 = no2 /\ same_nodes g1' g2'.
  Proof.
    intros Hhas. induction l as [|ff l IH]; intros g1 g2 by_out no_out g1' by1 no1 g2' by2 no2 Hn H1 H2;
      cbn [fold_left] in H1, H2.
    - injection H1 as <- <- <-. injection H2 as <- <- <-. auto.
    - assert (He1 : snd (preprocess_one f consts assigns (g1, by_out, no_out, []) ff) = []).
      { apply (fold_errs_grow snd (preprocess_one f consts assigns) (preprocess_one_errs f consts assigns) l).
        rewrite H1. reflexivity. }
      assert (He2 : snd (preprocess_one f consts' assigns' (g2, by_out, no_out, []) ff) = []).
      { apply (fold_errs_grow snd (preprocess_one f consts' assigns') (preprocess_one_errs f consts' assigns') l).
        rewrite H2. reflexivity. }
      rewrite (preprocess_one_exact _ _ _ _ _ _ He1) in H1.
      rewrite (preprocess_one_exact _ _ _ _ _ _ He2) in H2.
      assert (Hi : instb assigns' ff = instb assigns ff).
      { apply instb_ext. intros n. symmetry. apply Hhas. }
      rewrite Hi in H2. destruct (instb assigns ff).
      + destruct (ff_out ff) as [[o w]|].
        * apply (IH _ _ _ _ _ _ _ _ _ _ (insert_fold_same_nodes o (fixed_in_names ff) g1 g2 Hn) H1 H2).
        * apply (IH _ _ _ _ _ _ _ _ _ _ Hn H1 H2).
      + apply (IH _ _ _ _ _ _ _ _ _ _ Hn H1 H2).
  Qed.
End PreprocessExact.

(* nodes of the assignment graph, exactly *)
Lemma assign_graph_nodes_iff assigns known x :
  NoDup (map fst assigns) ->
  (In x (g_nodes (assign_graph assigns known)) <->
   In x (map fst assigns) \/ exists y e, In (y, e) assigns /\ In x (refs e) /\ mem_str x known = false).
Proof.
  intros Hnd. destruct (assign_graph_facts assigns known Hnd) as [G1 [G2 G3]]. split.
  - apply assign_graph_nodes.
  - intros [H|[y [e [H1 [H2 H3]]]]]; [apply G3; exact H|].
    apply (gedge_source_node _ x y G1). apply G2. exists e. auto.
Qed.

(* ================================================================================== *)
(* Part 2d: what an accepted fault-free program looks like                             *)
(* ================================================================================== *)
Section One.
  Variable f : features.
  Variable fixed : list fixed_fn.
  Variable is_lower is_upper : string -> bool.
  Variable stmts : list stmt.
  Variable cv : string -> option wval.
  Variable G : string -> option width.
  Hypothesis FF : fault_free_with f fixed is_lower is_upper cv G stmts.
  Variable p : program.
  Hypothesis Hb : build_program f fixed is_lower is_upper stmts = Ok p.

  Notation sS := (fold_left (step1 fixed) stmts (init1 fixed)).
  Notation T3 consts := (fold_left (step3_bank f is_lower is_upper sS consts) (s_banks sS)
                                   (mkSt3 [] [] (s_types sS) [] [] [])).

  Lemma one_facts : exists consts acts,
    p = mkProgram consts acts (t_banks (T3 consts)) (t_defaulted (T3 consts)) (t_types (T3 consts)) /\
    (forall n, lookup consts n = cv n) /\ NoDup (map fst consts) /\ t_errs (T3 consts) = [] /\
    assignments_to_actions f fixed (widths_of sS (T3 consts) consts) consts (assign_exprs stmts)
      (bank_outputs stmts ++ t_defaulted (T3 consts) ++ map fst consts) (s_decls sS) = Ok acts.
  Proof.
    destruct (build_ok_inv f fixed is_lower is_upper stmts p Hb)
      as [He [Hca [Hcr [consts [Hrc [Hte [Hun [acts [Hacts Hp]]]]]]]]].
    exists consts, acts.
    assert (Hcv : forall n, lookup consts n = cv n).
    { destruct (ph_c f fixed is_lower is_upper stmts cv G FF) as [c1 [H1 H2]].
      rewrite (ph_a_consts f fixed is_lower is_upper stmts cv G FF) in Hrc. rewrite H1 in Hrc.
      injection Hrc as <-. exact H2. }
    split; [exact Hp|]. split; [exact Hcv|]. split; [apply (resolve_constants_keys f _ _ Hrc)|].
    split; [exact Hte|].
    destruct (ph_d f fixed is_lower is_upper stmts cv G FF consts Hcv) as [banks [_ [Hbk Hm]]].
    rewrite (ph_a_assigns f fixed is_lower is_upper stmts cv G FF) in Hacts.
    rewrite Hbk in Hacts. rewrite (banks_match_outs _ _ Hm), <- bank_outputs_eq in Hacts. exact Hacts.
  Qed.

  Section WithConsts.
    Variable consts : list (string * wval).
    Hypothesis Hcv : forall n, lookup consts n = cv n.
    Hypothesis Hte : t_errs (T3 consts) = [].

    Lemma one_bank_conds :
      (forall b, In b (bank_decls stmts) -> bank_cond f is_lower is_upper sS consts b) /\
      NoDup (flat_map bank_names (bank_decls stmts)) /\
      (forall x, In x (flat_map bank_names (bank_decls stmts)) -> ~ In x (s_decls sS)).
    Proof.
      destruct (step3_banks_noerr f is_lower is_upper sS consts (s_banks sS) _ Hte) as [_ [B1 [B2 B3]]].
      rewrite (ph_a_banks fixed stmts) in B1, B2, B3.
      split; [exact B1|]. split; [exact B2|]. intros x Hx. apply (B3 x Hx).
    Qed.

    Lemma one_banks : t_banks (T3 consts) = map (bank_of f cv) (bank_decls stmts).
    Proof.
      destruct one_bank_conds as [B1 [B2 B3]].
      rewrite (ph_a_banks fixed stmts).
      rewrite (step3_banks_exact f is_lower is_upper sS consts (bank_decls stmts)); [|exact B1|exact B2|].
      - cbn [t_banks app]. apply map_ext. intros b. apply bank_of_ext. exact Hcv.
      - intros x Hx. cbn [t_seen]. split; [intros [] | apply B3; exact Hx].
    Qed.

    Lemma one_names_ok b : In b (bank_decls stmts) -> bank_name_ok is_lower is_upper b.
    Proof. intros Hb0. apply (ff_bank_name _ _ _ _ _ _ _ FF b Hb0). Qed.

    Lemma one_types :
      t_types (T3 consts) =
      fold_left updp (flat_map tops stmts ++ flat_map bank_tops (bank_decls stmts)) (s_types (init1 fixed)).
    Proof.
      rewrite (ph_a_banks fixed stmts).
      rewrite (step3_banks_types f is_lower is_upper sS consts (bank_decls stmts)) by exact one_names_ok.
      cbn [t_types]. rewrite S1_types, fold_left_app. reflexivity.
    Qed.

    Lemma one_defaulted_NoDup : NoDup (t_defaulted (T3 consts)).
    Proof. apply step3_banks_defaulted_NoDup. constructor. Qed.

    Lemma one_defaulted x : In x (t_defaulted (T3 consts)) <-> defaulted stmts x.
    Proof. apply (ph_d_dfl f fixed is_lower is_upper stmts cv G FF consts x). Qed.
  End WithConsts.
End One.

(* ================================================================================== *)
(* Part 2e: helper facts for comparing two compiled programs                           *)
(* ================================================================================== *)
Lemma lookup_perm_gen {V} (l l' : list (string * V)) k :
  NoDup (map fst l) -> Permutation l l' -> lookup l k = lookup l' k.
Proof.
  intros Hnd HP.
  assert (Hnd' : NoDup (map fst l')) by (apply (Permutation_NoDup (Permutation_map fst HP)); exact Hnd).
  destruct (lookup l k) as [v|] eqn:E.
  - apply lookup_In in E. symmetry. apply (In_lookup l' k v Hnd'). apply (Permutation_in _ HP E).
  - symmetry. apply lookup_None. apply lookup_None in E. intros H. apply E.
    apply (Permutation_in _ (Permutation_sym (Permutation_map fst HP)) H).
Qed.

Lemma has_perm_gen {V} (l l' : list (string * V)) k :
  NoDup (map fst l) -> Permutation l l' -> has l k = has l' k.
Proof. intros Hnd HP. unfold has. rewrite (lookup_perm_gen l l' k Hnd HP). reflexivity. Qed.

Lemma lookup_eq_perm {V} (l l' : list (string * V)) :
  NoDup (map fst l) -> NoDup (map fst l') -> (forall k, lookup l k = lookup l' k) -> Permutation l l'.
Proof.
  intros Hnd Hnd' H. apply NoDup_Permutation.
  - apply (NoDup_map_inv fst). exact Hnd.
  - apply (NoDup_map_inv fst). exact Hnd'.
  - intros [k v]. split; intros Hin.
    + apply lookup_In. rewrite <- H. apply (In_lookup l k v Hnd Hin).
    + apply lookup_In. rewrite H. apply (In_lookup l' k v Hnd' Hin).
Qed.

(* a fold of updates read at one key: only the (consistent) bindings of that key matter *)
Lemma fold_updp_perm_lookup {V} (L L' : list (string * V)) :
  Permutation L L' ->
  (forall k v v', In (k, v) L -> In (k, v') L -> v' = v) ->
  forall m k, lookup (fold_left updp L m) k = lookup (fold_left updp L' m) k.
Proof.
  intros HP Hfun m k.
  destruct (in_dec string_dec k (map fst L)) as [Hin|Hnin].
  - apply in_map_iff in Hin. destruct Hin as [[k0 v] [Hk Hin]]. cbn [fst] in Hk. subst k0.
    rewrite (fold_upd_lookup_agree L m k v); [|intros v' Hv'; apply (Hfun k v v' Hin Hv') | right; exact Hin].
    symmetry. apply fold_upd_lookup_agree.
    + intros v' Hv'. apply (Hfun k v v' Hin). apply (Permutation_in _ (Permutation_sym HP) Hv').
    + right. apply (Permutation_in _ HP Hin).
  - rewrite (fold_upd_lookup_notin L m k Hnin). symmetry. apply fold_upd_lookup_notin.
    intros H. apply Hnin. apply (Permutation_in _ (Permutation_sym (Permutation_map fst HP)) H).
Qed.

Lemma Forall2_written_NoDup {A} (R : A -> action -> Prop) (key : A -> string) l acts :
  Forall2 R l acts -> (forall n a, R n a -> written a = Some (key n)) -> NoDup (map key l) -> NoDup acts.
Proof.
  intros HF HW Hnd. apply (NoDup_map_inv written).
  assert (E : map written acts = map (fun n => Some (key n)) l).
  { induction HF as [|n a l acts Hna HF IH]; [reflexivity|]. cbn [map]. rewrite (HW n a Hna), IH; [reflexivity|].
    cbn [map] in Hnd. apply NoDup_cons_iff in Hnd. apply Hnd. }
  rewrite E. rewrite <- (map_map key Some). apply FinFun.Injective_map_NoDup; [|exact Hnd].
  intros x y Hxy. injection Hxy as ->. reflexivity.
Qed.

(* the shape of bank signal names *)
Lemma bank_letters_charform name i o : bank_letters name = Some (i, o) -> charform i /\ charform o.
Proof.
  intros H. apply bank_letters_inv in H.
  pose proof (utf8_chars_charform name EmptyString (or_introl eq_refl)) as Hcf. rewrite H in Hcf.
  inversion Hcf as [|? ? Hi Hcf1]; subst. inversion Hcf1 as [|? ? Ho _]; subst. split; assumption.
Qed.

Lemma bank_signal_like stmts x : In x (CompleteSpec.bank_signal_names stmts) -> bank_like x = true.
Proof.
  unfold CompleteSpec.bank_signal_names, bank_regs. intros H. apply in_flat_map in H. destruct H as [r [Hr Hx]].
  apply in_flat_map in Hr. destruct Hr as [b [_ Hr]].
  destruct (bank_letters (fst b)) as [[i o]|] eqn:El; [|contradiction].
  destruct (bank_letters_charform _ _ _ El) as [Ci Co].
  apply in_map_iff in Hr. destruct Hr as [r0 [<- _]]. cbn [reg_out reg_in fst snd In] in Hx.
  destruct Hx as [<-|[<-|[]]]; apply bank_like_sig; assumption.
Qed.

Lemma bank_special_unlike stmts x : In x (bank_specials stmts) -> bank_like x = false.
Proof.
  unfold bank_specials. intros H. apply in_flat_map in H. destruct H as [b [_ Hx]].
  destruct (bank_letters (fst b)) as [[i o]|]; [|contradiction].
  destruct Hx as [<-|[<-|[]]]; [apply bank_like_stall | apply bank_like_bubble].
Qed.

Lemma In_type_ops stmts k t :
  In (k, t) (flat_map tops stmts ++ flat_map bank_tops (bank_decls stmts)) ->
  (t = TConstant /\ In k (const_names stmts)) \/ (t = TNormal /\ In k (wire_names stmts)) \/
  (t = TRegisterBankSpecial /\ In k (bank_specials stmts)) \/
  (t = TRegisterBankInput /\ In k (bank_inputs stmts)) \/
  (t = TRegisterBankOutput /\ In k (bank_outputs stmts)).
Proof.
  intros H. apply in_app_iff in H. destruct H as [H|H].
  - apply in_flat_map in H. destruct H as [x [Hx H]]. destruct x as [d|d|a|bn regs]; cbn [tops] in H; try contradiction.
    + apply in_map_iff in H. destruct H as [[n e] [Heq Hne]]. cbn [fst] in Heq. injection Heq as <- <-.
      left. split; [reflexivity|]. unfold const_names. apply in_flat_map. exists (SConst d). split; [exact Hx|].
      apply (in_map fst) in Hne. exact Hne.
    + apply in_map_iff in H. destruct H as [[n e] [Heq Hne]]. cbn [fst] in Heq. injection Heq as <- <-.
      right. left. split; [reflexivity|]. unfold wire_names. apply in_flat_map. exists (SWire d). split; [exact Hx|].
      apply (in_map fst) in Hne. exact Hne.
  - apply in_flat_map in H. destruct H as [b [Hb H]]. unfold bank_tops in H.
    destruct (bank_letters (fst b)) as [[i o]|] eqn:El; [|contradiction].
    apply in_app_iff in H. destruct H as [H|H].
    + right. right. left.
      assert (Hs : forall x, In x [("stall_" ++ o)%string; ("bubble_" ++ o)%string] -> In x (bank_specials stmts)).
      { intros x Hx. unfold bank_specials. apply in_flat_map. exists b. split; [exact Hb|]. rewrite El. exact Hx. }
      destruct H as [H|[H|[]]]; injection H as <- <-; (split; [reflexivity|]); apply Hs; cbn [In]; auto.
    + apply in_flat_map in H. destruct H as [r [Hr H]].
      assert (Hx : In ((i ++ "_" ++ fst (fst r))%string, (o ++ "_" ++ fst (fst r))%string, snd (fst r), snd r)
                      (bank_regs stmts)).
      { unfold bank_regs. apply in_flat_map. exists b. split; [exact Hb|]. rewrite El.
        apply in_map_iff. exists r. split; [reflexivity | exact Hr]. }
      destruct H as [H|[H|[]]]; injection H as <- <-.
      * right. right. right. left. split; [reflexivity|]. unfold bank_inputs. apply in_map_iff.
        eexists. split; [|exact Hx]. reflexivity.
      * right. right. right. right. split; [reflexivity|]. unfold bank_outputs. apply in_map_iff.
        eexists. split; [|exact Hx]. reflexivity.
Qed.

Lemma In_bank_inputs_sig stmts k : In k (bank_inputs stmts) -> In k (CompleteSpec.bank_signal_names stmts).
Proof.
  unfold bank_inputs, CompleteSpec.bank_signal_names. intros H. apply in_map_iff in H. destruct H as [x [<- Hx]].
  apply in_flat_map. exists x. split; [exact Hx | right; left; reflexivity].
Qed.
Lemma In_bank_outputs_sig stmts k : In k (bank_outputs stmts) -> In k (CompleteSpec.bank_signal_names stmts).
Proof.
  unfold bank_outputs, CompleteSpec.bank_signal_names. intros H. apply in_map_iff in H. destruct H as [x [<- Hx]].
  apply in_flat_map. exists x. split; [exact Hx | left; reflexivity].
Qed.

(* an input signal is not an output signal *)
Lemma bank_in_not_out stmts k :
  NoDup (CompleteSpec.bank_signal_names stmts) -> In k (bank_inputs stmts) -> In k (bank_outputs stmts) -> False.
Proof.
  unfold CompleteSpec.bank_signal_names, bank_inputs, bank_outputs.
  induction (bank_regs stmts) as [|x l IH]; cbn [flat_map map app In]; intros Hnd Hi Ho; [exact Hi|].
  apply NoDup_cons_iff in Hnd. destruct Hnd as [N1 Hnd]. apply NoDup_cons_iff in Hnd. destruct Hnd as [N2 Hnd].
  cbn [In] in N1.
  assert (Hin_l : forall y, In y (map reg_in l) -> In y (flat_map (fun x0 => [reg_out x0; reg_in x0]) l)).
  { intros y Hy. apply in_map_iff in Hy. destruct Hy as [z [<- Hz]]. apply in_flat_map. exists z.
    split; [exact Hz | right; left; reflexivity]. }
  assert (Hout_l : forall y, In y (map reg_out l) -> In y (flat_map (fun x0 => [reg_out x0; reg_in x0]) l)).
  { intros y Hy. apply in_map_iff in Hy. destruct Hy as [z [<- Hz]]. apply in_flat_map. exists z.
    split; [exact Hz | left; reflexivity]. }
  destruct Hi as [Hi|Hi], Ho as [Ho|Ho].
  - apply N1. left. congruence.
  - subst k. apply N2. apply Hout_l. exact Ho.
  - subst k. apply N1. right. apply Hin_l. exact Hi.
  - apply (IH Hnd Hi Ho).
Qed.

Lemma type_ops_functional f fixed is_lower is_upper cv G stmts :
  fault_free_with f fixed is_lower is_upper cv G stmts ->
  forall k t t', In (k, t) (flat_map tops stmts ++ flat_map bank_tops (bank_decls stmts)) ->
                 In (k, t') (flat_map tops stmts ++ flat_map bank_tops (bank_decls stmts)) -> t' = t.
Proof.
  intros FF k t t' H H'. apply In_type_ops in H. apply In_type_ops in H'.
  pose proof (ff_declared_once _ _ _ _ _ _ _ FF) as D1.
  pose proof (ff_bank_signals_undeclared _ _ _ _ _ _ _ FF) as D2.
  pose proof (ff_bank_signals_distinct _ _ _ _ _ _ _ FF) as D3.
  assert (Xcw : In k (const_names stmts) -> In k (wire_names stmts) -> False).
  { intros Hc Hw. apply (NoDup_app_disj _ _ k D1 Hc Hw). }
  assert (Xds : In k (const_names stmts) \/ In k (wire_names stmts) ->
                In k (CompleteSpec.bank_signal_names stmts) \/ In k (bank_specials stmts) -> False).
  { intros Hd Hs. apply (D2 k); apply in_or_app; assumption. }
  assert (Xss : In k (bank_specials stmts) -> In k (CompleteSpec.bank_signal_names stmts) -> False).
  { intros Hs Hg. apply bank_special_unlike in Hs. apply bank_signal_like in Hg. congruence. }
  pose proof (In_bank_inputs_sig stmts k) as Si. pose proof (In_bank_outputs_sig stmts k) as So.
  pose proof (bank_in_not_out stmts k D3) as Xio.
  destruct H as [[-> H]|[[-> H]|[[-> H]|[[-> H]|[-> H]]]]];
    destruct H' as [[-> H']|[[-> H']|[[-> H']|[[-> H']|[-> H']]]]]; try reflexivity; exfalso; tauto.
Qed.

(* ================================================================================== *)
(* Part 2f: two accepted programs whose statement lists are permutations                *)
(* ================================================================================== *)
Lemma emitted_ext f W W' c c' A A' by_out n a :
  (forall k, lookup A k = lookup A' k) -> (forall k, lookup W k = lookup W' k) ->
  (forall k, lookup c k = lookup c' k) ->
  emitted f W c A by_out n a -> emitted f W' c' A' by_out n a.
Proof.
  intros HA HW Hc [[e [w [we [H1 [H2 [H3 [H4 H5]]]]]]]|[H1 H2]].
  - left. exists e, w, we. rewrite <- HA, <- HW. split; [exact H1|]. split; [exact H2|]. split; [|split; assumption].
    rewrite <- H3. apply check_ext. intros k _. split; [symmetry; apply HW | symmetry; apply Hc].
  - right. rewrite <- HA. split; assumption.
Qed.

Section Pair.
  Variable f : features.
  Variable fixed : list fixed_fn.
  Variable is_lower is_upper : string -> bool.
  Hypothesis Hok : fixed_table_ok fixed = true.
  Hypothesis Hsok : fixed_sched_ok fixed = true.
  Hypothesis Htok : fixed_typed_ok fixed = true.
  Variables stmts stmts' : list stmt.
  Hypothesis HP : Permutation stmts stmts'.
  Variables p p' : program.
  Hypothesis Hb : build_program f fixed is_lower is_upper stmts = Ok p.
  Hypothesis Hb' : build_program f fixed is_lower is_upper stmts' = Ok p'.

  Notation S1 st := (fold_left (step1 fixed) st (init1 fixed)).

  Theorem program_order_free_general : same_program p p'.
  Proof.
    pose proof (fixed_sched_ok_distinct fixed Hsok) as TD.
    destruct (fixed_sched_ok_inv fixed Hsok) as [Tins [Touts _]].
    destruct (accepted_fault_free f fixed is_lower is_upper Hsok Htok stmts p Hb) as [cv [G FF]].
    pose proof (fault_free_with_perm f fixed is_lower is_upper cv G stmts stmts' HP FF) as FF'.
    destruct (one_facts f fixed is_lower is_upper stmts cv G FF p Hb)
      as [consts [acts [Hp [Hcv [Hcnd [Hte Hacts]]]]]].
    destruct (one_facts f fixed is_lower is_upper stmts' cv G FF' p' Hb')
      as [consts' [acts' [Hp' [Hcv' [Hcnd' [Hte' Hacts']]]]]].
    assert (Hcc : forall k, lookup consts k = lookup consts' k) by (intros k; rewrite Hcv, Hcv'; reflexivity).
    (* -- the two schedules -- *)
    assert (Hperm_acts : Permutation acts acts' /\ effect_part acts = effect_part acts').
    { set (A := assign_exprs stmts) in *. set (A' := assign_exprs stmts') in *.
      match type of Hacts with assignments_to_actions _ _ ?W _ _ ?K _ = _ => set (WW := W) in *; set (known := K) in * end.
      match type of Hacts' with assignments_to_actions _ _ ?W _ _ ?K _ = _ => set (WW' := W) in *; set (known' := K) in * end.
      destruct (a2a_inv f fixed _ _ _ _ _ _ Hacts) as [g [by_out [no_out [order [sacts [Hf [Ht [Hs ->]]]]]]]].
      destruct (a2a_inv f fixed _ _ _ _ _ _ Hacts') as [g' [by_out' [no_out' [order' [sacts' [Hf' [Ht' [Hs' ->]]]]]]]].
      assert (HA1 : NoDup (map fst A)).
      { unfold A. rewrite assign_exprs_names. apply (ff_assigned_once _ _ _ _ _ _ _ FF). }
      assert (HA1' : NoDup (map fst A')).
      { unfold A'. rewrite assign_exprs_names. apply (ff_assigned_once _ _ _ _ _ _ _ FF'). }
      assert (HPA : Permutation A A') by (apply perm_assign_exprs; exact HP).
      assert (HlA : forall k, lookup A k = lookup A' k) by (intros k; apply lookup_perm_gen; assumption).
      assert (HhA : forall k, has A k = has A' k) by (intros k; apply has_perm_gen; assumption).
      destruct (ph_d f fixed is_lower is_upper stmts cv G FF consts Hcv) as [banks [_ [Hbk Hm]]].
      destruct (ph_d f fixed is_lower is_upper stmts' cv G FF' consts' Hcv') as [banks' [_ [Hbk' Hm']]].
      assert (HW : forall k, lookup WW k = lookup WW' k).
      { intros k. unfold WW, WW'.
        rewrite (widths_lookup f fixed is_lower is_upper stmts cv G FF consts Hcv banks Hbk Hm Hcnd).
        rewrite (widths_lookup f fixed is_lower is_upper stmts' cv G FF' consts' Hcv' banks' Hbk' Hm' Hcnd').
        reflexivity. }
      assert (Hkn : forall x, mem_str x known = mem_str x known').
      { intros x.
        pose proof (known_false f fixed is_lower is_upper stmts cv G FF consts Hcv x) as K1.
        pose proof (known_false f fixed is_lower is_upper stmts' cv G FF' consts' Hcv' x) as K2.
        fold known in K1. fold known' in K2.
        assert (Heq : (~ In x (bank_outputs stmts) /\ ~ defaulted stmts x /\ ~ In x (const_names stmts)) <->
                      (~ In x (bank_outputs stmts') /\ ~ defaulted stmts' x /\ ~ In x (const_names stmts'))).
        { unfold defaulted.
          pose proof (perm_bank_outputs _ _ HP) as P1. pose proof (perm_bank_specials _ _ HP) as P2.
          pose proof (perm_assigned_names _ _ HP) as P3. pose proof (perm_const_names _ _ HP) as P4.
          assert (E1 : In x (bank_outputs stmts) <-> In x (bank_outputs stmts'))
            by (split; apply Permutation_in; [exact P1 | apply Permutation_sym; exact P1]).
          assert (E2 : In x (bank_specials stmts) <-> In x (bank_specials stmts'))
            by (split; apply Permutation_in; [exact P2 | apply Permutation_sym; exact P2]).
          assert (E3 : In x (assigned_names stmts) <-> In x (assigned_names stmts'))
            by (split; apply Permutation_in; [exact P3 | apply Permutation_sym; exact P3]).
          assert (E4 : In x (const_names stmts) <-> In x (const_names stmts'))
            by (split; apply Permutation_in; [exact P4 | apply Permutation_sym; exact P4]).
          tauto. }
        assert (Hiff : mem_str x known = false <-> mem_str x known' = false) by (rewrite K1, K2; exact Heq).
        clear K1 K2. destruct (mem_str x known); destruct (mem_str x known'); try reflexivity; exfalso.
        - destruct Hiff as [_ H]. specialize (H eq_refl). discriminate H.
        - destruct Hiff as [H _]. specialize (H eq_refl). discriminate H. }
      destruct (assign_graph_facts A known HA1) as [G1 [G2 _]].
      destruct (assign_graph_facts A' known' HA1') as [G1' [G2' _]].
      assert (Hn0 : same_nodes (assign_graph A known) (assign_graph A' known')).
      { intros x. rewrite (assign_graph_nodes_iff A known x HA1), (assign_graph_nodes_iff A' known' x HA1').
        assert (Hk : In x (map fst A) <-> In x (map fst A')).
        { split; apply Permutation_in; [apply (Permutation_map fst HPA) | apply Permutation_sym, (Permutation_map fst HPA)]. }
        rewrite Hk. split; (intros [H|[y [e [H1 [H2 H3]]]]]; [left; exact H | right; exists y, e]).
        - split; [apply (Permutation_in _ HPA H1)|]. split; [exact H2 | rewrite <- Hkn; exact H3].
        - split; [apply (Permutation_in _ (Permutation_sym HPA) H1)|]. split; [exact H2 | rewrite Hkn; exact H3]. }
      destruct (preprocess_pair f consts consts' A A' HhA fixed _ _ [] [] _ _ _ _ _ _ Hn0 Hf Hf')
        as [Eby [Eno Hn]].
      subst by_out' no_out'.
      assert (Hnotout : forall st cv0 G0, fault_free_with f fixed is_lower is_upper cv0 G0 st ->
                 forall K o, In o (fixed_out_names fixed) ->
                 forall x, ~ gedge (assign_graph (assign_exprs st) K) x o).
      { intros st cv0 G0 FF0 K o Ho x Hxo.
        assert (Hnd0 : NoDup (map fst (assign_exprs st))).
        { rewrite assign_exprs_names. apply (ff_assigned_once _ _ _ _ _ _ _ FF0). }
        apply (proj1 (proj2 (assign_graph_facts (assign_exprs st) K Hnd0))) in Hxo.
        destruct Hxo as [e [Hoe _]].
        destruct (ff_no_driver _ _ _ _ _ _ _ FF0 o) as [H _]; [|exact (H Ho)].
        rewrite <- assign_exprs_names. apply (in_map fst) in Hoe. exact Hoe. }
      destruct (preprocess_graph f _ _ _ _ _ _ _ _ _ G1 Touts Tins (Hnotout stmts cv G FF known) Hf) as [P1 _].
      destruct (preprocess_graph f _ _ _ _ _ _ _ _ _ G1' Touts Tins (Hnotout stmts' cv G FF' known') Hf') as [P1' _].
      destruct (order_valid string String.eqb String.eqb_eq g order P1 Ht) as [L1 [L2 _]].
      destruct (order_valid string String.eqb String.eqb_eq g' order' P1' Ht') as [L1' [L2' _]].
      assert (Hord : forall n, In n order <-> In n order').
      { intros n. rewrite L2, L2'. apply Hn. }
      destruct (schedule_ok f _ _ _ _ _ _ _ _ _ _ Hs) as [_ [_ [new [En HF]]]]. cbn [app] in En. subst sacts.
      destruct (schedule_ok f _ _ _ _ _ _ _ _ _ _ Hs') as [_ [_ [new' [En' HF']]]]. cbn [app] in En'. subst sacts'.
      destruct (preprocess_shape f _ _ _ _ _ _ _ _ _ Hf) as [Hby [extra [Hno [_ Hex]]]].
      cbn [app] in Hno. subst no_out.
      assert (Hby2 : forall n ff, lookup by_out n = Some ff -> In ff fixed /\ exists w, ff_out ff = Some (n, w)).
      { intros n ff Hl. destruct (Hby n ff Hl) as [Hx|[Hx [Hy _]]]; [discriminate Hx | split; assumption]. }
      assert (Hem : forall n a, emitted f WW consts A by_out n a <-> emitted f WW' consts' A' by_out n a).
      { intros n a. split; apply emitted_ext; try assumption; intros k; symmetry; auto. }
      assert (Hpure : forall n a, emitted f WW consts A by_out n a -> is_effect a = false /\ written a = Some n).
      { intros n a. apply (emitted_pure f fixed _ _ _ _ n a Hok Hby2). }
      assert (Hpure' : forall n a, emitted f WW' consts' A' by_out n a -> is_effect a = false /\ written a = Some n).
      { intros n a H. apply Hpure. apply Hem. exact H. }
      assert (Pnew : Permutation new new').
      { apply NoDup_Permutation.
        - apply (Forall2_written_NoDup _ (fun n => n) order new HF); [intros n a H; apply Hpure; exact H|].
          rewrite map_id. exact L1.
        - apply (Forall2_written_NoDup _ (fun n => n) order' new' HF'); [intros n a H; apply Hpure'; exact H|].
          rewrite map_id. exact L1'.
        - intros a. split; intros Ha.
          + destruct (Forall2_In_r _ _ _ _ HF Ha) as [n [Hn' Hna]]. apply Hord in Hn'.
            destruct (Forall2_In_l _ _ _ _ HF' Hn') as [a' [Ha' Hna']].
            assert (a' = a); [|subst a'; exact Ha'].
            apply Hem in Hna. destruct Hna as [[e [w [we [E1 [E2 [_ [_ ->]]]]]]]|[E1 [ff [E2 ->]]]];
              destruct Hna' as [[e' [w' [we' [E1' [E2' [_ [_ ->]]]]]]]|[E1' [ff' [E2' ->]]]]; try congruence.
          + destruct (Forall2_In_r _ _ _ _ HF' Ha) as [n [Hn' Hna]]. apply Hord in Hn'.
            destruct (Forall2_In_l _ _ _ _ HF Hn') as [a' [Ha' Hna']].
            assert (a' = a); [|subst a'; exact Ha'].
            apply Hem in Hna'. destruct Hna as [[e [w [we [E1 [E2 [_ [_ ->]]]]]]]|[E1 [ff [E2 ->]]]];
              destruct Hna' as [[e' [w' [we' [E1' [E2' [_ [_ ->]]]]]]]|[E1' [ff' [E2' ->]]]]; try congruence. }
      split; [apply Permutation_app_tail; exact Pnew|].
      assert (Heff : forall nw, (forall a, In a nw -> is_effect a = false) ->
                effect_part (nw ++ map ff_action extra) = map ff_action extra).
      { intros nw Hnw. unfold effect_part. rewrite filter_app.
        rewrite (filter_all_false is_effect nw Hnw). cbn [app].
        apply filter_all_true. intros a Ha. apply in_map_iff in Ha. destruct Ha as [ff [<- Hff]].
        destruct (Hex ff Hff) as [Hin [Ho _]].
        apply (fixed_fn_ok_noout ff (fixed_ok_In fixed ff Hok Hin) Ho). }
      rewrite (Heff new), (Heff new'); [reflexivity| |].
      - intros a Ha. destruct (Forall2_In_r _ _ _ _ HF' Ha) as [n [_ Hna]]. apply (Hpure' n a Hna).
      - intros a Ha. destruct (Forall2_In_r _ _ _ _ HF Ha) as [n [_ Hna]]. apply (Hpure n a Hna). }
    destruct Hperm_acts as [Pacts Eeff].
    rewrite Hp, Hp'. unfold same_program. cbn [p_consts p_banks p_actions p_defaulted]. unfold type_of. cbn [p_types].
    split; [exact Hcc|]. split; [apply lookup_eq_perm; assumption|]. split; [|split; [exact Pacts|split; [exact Eeff|split]]].
    - rewrite (one_banks f fixed is_lower is_upper stmts cv consts Hcv Hte).
      rewrite (one_banks f fixed is_lower is_upper stmts' cv consts' Hcv' Hte').
      apply Permutation_map. apply perm_bank_decls. exact HP.
    - apply NoDup_Permutation.
      + apply one_defaulted_NoDup.
      + apply one_defaulted_NoDup.
      + intros x. rewrite (one_defaulted f fixed is_lower is_upper stmts cv G FF consts x).
        rewrite (one_defaulted f fixed is_lower is_upper stmts' cv G FF' consts' x).
        unfold defaulted.
        pose proof (perm_bank_specials _ _ HP) as P2. pose proof (perm_assigned_names _ _ HP) as P3.
        assert (E2 : In x (bank_specials stmts) <-> In x (bank_specials stmts'))
          by (split; apply Permutation_in; [exact P2 | apply Permutation_sym; exact P2]).
        assert (E3 : In x (assigned_names stmts) <-> In x (assigned_names stmts'))
          by (split; apply Permutation_in; [exact P3 | apply Permutation_sym; exact P3]).
        tauto.
    - intros k.
      rewrite (one_types f fixed is_lower is_upper stmts cv G FF consts).
      rewrite (one_types f fixed is_lower is_upper stmts' cv G FF' consts').
      rewrite (fold_updp_perm_lookup _ (flat_map tops stmts' ++ flat_map bank_tops (bank_decls stmts'))); [reflexivity| |].
      + apply Permutation_app; [apply Permutation_flat_map; exact HP|].
        apply Permutation_flat_map. apply perm_bank_decls. exact HP.
      + intros k0 v v' H1 H2. apply (type_ops_functional f fixed is_lower is_upper cv G stmts FF k0 v v' H1 H2).
  Qed.
End Pair.

Theorem program_order_free_holds f is_lower is_upper : stmt_program_order_free f is_lower is_upper.
Proof.
  intros stmts stmts' p p' HP Hb Hb'.
  pose proof gen_fixed_ok2 as H. unfold fixed_table_ok2 in H. apply andb_true_iff in H. destruct H as [H1 H2].
  apply (program_order_free_general f gen_fixed is_lower is_upper gen_fixed_ok H1 H2 stmts stmts' HP p p' Hb Hb').
Qed.

(* ================================================================================== *)
(* Part 3a: one action, on two states that agree on what it reads                      *)
(* ================================================================================== *)
Lemma get_value_agree vals vals' n : lookup vals n = lookup vals' n -> get_value vals n = get_value vals' n.
Proof. intros H. unfold get_value. rewrite H. reflexivity. Qed.

Lemma enabled_agree vals vals' en :
  (forall n, In n (opt_list en) -> lookup vals n = lookup vals' n) -> enabled vals en = enabled vals' en.
Proof.
  destruct en as [w|]; cbn [enabled opt_list]; intros H; [|reflexivity].
  rewrite (get_value_agree vals vals' w (H w (or_introl eq_refl))). reflexivity.
Qed.

Definition action_rel (a : action) (s s' : mstate) (r r' : result (mstate * string)) : Prop :=
  match r, r' with
  | Ok (s1, _), Ok (s2, _) =>
      mem s1 = mem s2 /\ regs s1 = regs s2 /\
      (last_status s = last_status s' -> last_status s1 = last_status s2) /\
      (forall w, written a = Some w -> lookup (values s1) w = lookup (values s2) w)
  | Err e1, Err e2 => e1 = e2
  | _, _ => False
  end.

Lemma exec_action_agree f o o' a s s' :
  (forall n, In n (reads a) -> lookup (values s) n = lookup (values s') n) ->
  mem s = mem s' -> regs s = regs s' ->
  action_rel a s s' (exec_action f o a s) (exec_action f o' a s').
Proof.
  intros Hr Hm Hg. unfold action_rel.
  destruct a as [name e w|num outp|en addr outp nb isi|num inp|en addr inp nb|w]; cbn [exec_action reads written] in *.
  - rewrite (eval_ext f (lookup (values s)) (lookup (values s')) e Hr).
    destruct (eval f (lookup (values s')) e) as [r0|es]; cbn [bind]; [|reflexivity].
    cbn [set_values mem regs last_status values]. split; [first [reflexivity | exact Hm]|]. split; [first [reflexivity | exact Hg]|]. split; [auto|].
    intros w0 Hw. injection Hw as <-. rewrite !lookup_upd_same. reflexivity.
  - rewrite (get_value_agree _ _ num (Hr num (or_introl eq_refl))).
    destruct (get_value (values s') num) as [nv|es]; cbn [bind]; [|reflexivity].
    rewrite Hg. destruct (bits nv mod two64 <? N.of_nat (List.length (regs s')));
      cbn [set_values mem regs last_status values]; (split; [first [reflexivity | exact Hm]|]; split; [first [reflexivity | exact Hg]|]; split; [auto|]);
      intros w0 Hw; injection Hw as <-; rewrite !lookup_upd_same; reflexivity.
  - rewrite (enabled_agree (values s) (values s') en) by (intros n Hn; apply Hr; right; exact Hn).
    destruct (enabled (values s') en) as [dr|es]; cbn [bind]; [|reflexivity].
    destruct dr.
    + rewrite (get_value_agree _ _ addr (Hr addr (or_introl eq_refl))).
      destruct (get_value (values s') addr) as [av|es]; cbn [bind]; [|reflexivity].
      destruct (16 <? nb); [reflexivity|]. rewrite Hm.
      cbn [set_values mem regs last_status values]. split; [first [reflexivity | exact Hm]|]. split; [first [reflexivity | exact Hg]|]. split; [auto|].
      intros w0 Hw; injection Hw as <-; rewrite !lookup_upd_same; reflexivity.
    + cbn [set_values mem regs last_status values]. split; [first [reflexivity | exact Hm]|]. split; [first [reflexivity | exact Hg]|]. split; [auto|].
      intros w0 Hw; injection Hw as <-; rewrite !lookup_upd_same; reflexivity.
  - rewrite (get_value_agree _ _ num (Hr num (or_introl eq_refl))).
    destruct (get_value (values s') num) as [nv|es]; cbn [bind]; [|reflexivity].
    rewrite Hg.
    destruct ((bits nv mod two64 <? N.of_nat (List.length (regs s'))) && negb (bits nv mod two64 =? zero_register)).
    + rewrite (get_value_agree _ _ inp (Hr inp (or_intror (or_introl eq_refl)))).
      destruct (get_value (values s') inp) as [iv|es]; cbn [bind]; [|reflexivity].
      cbn [mem regs last_status values]. split; [first [reflexivity | exact Hm]|]. split; [first [reflexivity | exact Hg]|]. split; [auto|]. intros w0 Hw; discriminate Hw.
    + split; [first [reflexivity | exact Hm]|]. split; [first [reflexivity | exact Hg]|]. split; [auto|]. intros w0 Hw; discriminate Hw.
  - rewrite (enabled_agree (values s) (values s') en) by (intros n Hn; apply Hr; right; right; exact Hn).
    destruct (enabled (values s') en) as [dw|es]; cbn [bind]; [|reflexivity].
    destruct dw.
    + rewrite (get_value_agree _ _ addr (Hr addr (or_introl eq_refl))).
      destruct (get_value (values s') addr) as [av|es]; cbn [bind]; [|reflexivity].
      rewrite (get_value_agree _ _ inp (Hr inp (or_intror (or_introl eq_refl)))).
      destruct (get_value (values s') inp) as [iv|es]; cbn [bind]; [|reflexivity].
      destruct (16 <? nb); [reflexivity|]. rewrite Hm.
      cbn [mem regs last_status values]. split; [first [reflexivity | exact Hm]|]. split; [first [reflexivity | exact Hg]|]. split; [auto|]. intros w0 Hw; discriminate Hw.
    + split; [first [reflexivity | exact Hm]|]. split; [first [reflexivity | exact Hg]|]. split; [auto|]. intros w0 Hw; discriminate Hw.
  - rewrite (get_value_agree _ _ w (Hr w (or_introl eq_refl))).
    destruct (get_value (values s') w) as [v|es]; cbn [bind]; [|reflexivity].
    cbn [mem regs last_status values]. split; [first [reflexivity | exact Hm]|]. split; [first [reflexivity | exact Hg]|]. split; [reflexivity|]. intros w0 Hw; discriminate Hw.
Qed.

(* ================================================================================== *)
(* Part 3b: the same actions on two equivalent states                                  *)
(* ================================================================================== *)
Definition run_rel (r r' : result (mstate * string)) : Prop :=
  match r, r' with
  | Ok (s1, _), Ok (s2, _) => same_machine s1 s2
  | Err e1, Err e2 => e1 = e2
  | _, _ => False
  end.

Lemma same_machine_refl s : same_machine s s.
Proof. unfold same_machine. auto. Qed.
Lemma same_machine_sym s s' : same_machine s s' -> same_machine s' s.
Proof. unfold same_machine. intros (H1 & H2 & H3 & H4 & H5). repeat split; auto. Qed.
Lemma same_machine_trans a b c : same_machine a b -> same_machine b c -> same_machine a c.
Proof.
  unfold same_machine. intros (H1 & H2 & H3 & H4 & H5) (K1 & K2 & K3 & K4 & K5).
  split; [intros k; rewrite H1; apply K1|]. repeat split; congruence.
Qed.

Lemma exec_action_equiv f o o' a s s' :
  same_machine s s' ->
  run_rel (exec_action f o a s) (exec_action f o' a s').
Proof.
  intros (Hv & Hm & Hg & Hl & Hc).
  pose proof (exec_action_agree f o o' a s s' (fun n _ => Hv n) Hm Hg) as H. unfold action_rel in H. unfold run_rel.
  destruct (exec_action f o a s) as [[s1 t1]|e1] eqn:E1; destruct (exec_action f o' a s') as [[s2 t2]|e2] eqn:E2;
    try exact H.
  destruct H as (K1 & K2 & K3 & K4).
  destruct (state_frame_ok f o a s s1 t1 E1) as (C1 & _). destruct (state_frame_ok f o' a s' s2 t2 E2) as (C2 & _).
  split; [|split; [exact K1|split; [exact K2|split; [apply K3; exact Hl | congruence]]]].
  intros k. destruct (written a) as [w|] eqn:Ew.
  - destruct (String.eqb k w) eqn:Ek.
    + apply String.eqb_eq in Ek. subst k. apply K4. reflexivity.
    + apply String.eqb_neq in Ek.
      rewrite (values_frame_ok f o a s s1 t1 k E1) by (rewrite Ew; congruence).
      rewrite (values_frame_ok f o' a s' s2 t2 k E2) by (rewrite Ew; congruence). apply Hv.
  - rewrite (values_frame_ok f o a s s1 t1 k E1) by (rewrite Ew; discriminate).
    rewrite (values_frame_ok f o' a s' s2 t2 k E2) by (rewrite Ew; discriminate). apply Hv.
Qed.

Lemma exec_actions_equiv f o o' : forall acts s s',
  same_machine s s' -> run_rel (exec_actions f o acts s) (exec_actions f o' acts s').
Proof.
  induction acts as [|a r IH]; intros s s' Hs; cbn [exec_actions].
  - exact Hs.
  - pose proof (exec_action_equiv f o o' a s s' Hs) as H. unfold run_rel in H.
    destruct (exec_action f o a s) as [[s1 t1]|e1]; destruct (exec_action f o' a s') as [[s2 t2]|e2];
      cbn [bind fst snd]; try contradiction; [|exact H].
    specialize (IH s1 s2 H). unfold run_rel in IH |- *.
    destruct (exec_actions f o r s1) as [[s3 t3]|e3]; destruct (exec_actions f o' r s2) as [[s4 t4]|e4];
      cbn [bind fst snd]; exact IH.
Qed.

(* ================================================================================== *)
(* Part 3c: if one valid schedule of the actions runs through, so does any other        *)
(* ================================================================================== *)
Lemma run_action_state f o : forall acts known s s1 t,
  valid_schedule known acts = true -> exec_actions f o acts s = Ok (s1, t) ->
  forall a w, In a acts -> written a = Some w ->
  exists sa sa' ta,
    exec_action f o a sa = Ok (sa', ta) /\
    (forall n, In n (reads a) -> lookup (values sa) n = lookup (values s1) n) /\
    mem sa = mem s /\ regs sa = regs s /\ lookup (values sa') w = lookup (values s1) w.
Proof.
  induction acts as [|a0 r IH]; intros known s s1 t Hv H a w Ha Hw; [destruct Ha|].
  destruct (settles_gen f o (a0 :: r) known s s1 t Hv H) as (_ & HA & _).
  apply exec_actions_cons_inv in H. destruct H as (s' & t1 & t2 & H1 & H2).
  destruct (written a0) as [w0|] eqn:Ew0.
  - destruct (valid_cons_pure _ _ _ _ Hv Ew0) as (Hreads & Hnk & Hv').
    destruct (settles_gen f o r (w0 :: known) s' s1 t2 Hv' H2) as (_ & HA' & _).
    destruct Ha as [<-|Ha].
    + rewrite Ew0 in Hw. injection Hw as <-. exists s, s', t1. split; [exact H1|].
      split; [intros n Hn; symmetry; apply HA, Hreads, Hn|]. split; [reflexivity|]. split; [reflexivity|].
      symmetry. apply HA'. left. reflexivity.
    + destruct (IH _ _ _ _ Hv' H2 a w Ha Hw) as (sa & sa' & ta & E1 & E2 & E3 & E4 & E5).
      destruct (state_frame_ok f o a0 s s' t1 H1) as (_ & Hfr & _).
      destruct (Hfr (written_pure _ _ Ew0)) as (Hm & Hr & _).
      exists sa, sa', ta. split; [exact E1|]. split; [exact E2|]. split; [congruence|]. split; [congruence | exact E5].
  - destruct (valid_cons_effect _ _ _ Hv Ew0) as (_ & Heff & _).
    destruct Ha as [<-|Ha]; [congruence|].
    apply written_pure in Hw. rewrite (Heff a Ha) in Hw. discriminate Hw.
Qed.

(* the state-changing actions run last, on the settled wire values *)
Lemma acts_split f o : forall acts known s s1 t,
  valid_schedule known acts = true -> exec_actions f o acts s = Ok (s1, t) ->
  exists sP tE, exec_actions f o (effect_part acts) sP = Ok (s1, tE) /\ values sP = values s1 /\
                mem sP = mem s /\ regs sP = regs s /\ last_status sP = last_status s /\ cycle sP = cycle s.
Proof.
  induction acts as [|a r IH]; intros known s s1 t Hv H.
  - cbn [exec_actions] in H. injection H as <- _. exists s, "". cbn [effect_part filter exec_actions]. auto 6.
  - destruct (written a) as [w|] eqn:Ew.
    + destruct (valid_cons_pure _ _ _ _ Hv Ew) as (_ & _ & Hv').
      apply exec_actions_cons_inv in H. destruct H as (s' & t1 & t2 & H1 & H2).
      destruct (IH _ _ _ _ Hv' H2) as (sP & tE & E1 & E2 & E3 & E4 & E5 & E6).
      destruct (state_frame_ok f o a s s' t1 H1) as (Hc & Hfr & _).
      destruct (Hfr (written_pure _ _ Ew)) as (Hm & Hr & Hl).
      exists sP, tE. unfold effect_part. cbn [filter]. rewrite (written_pure _ _ Ew). fold (effect_part r).
      split; [exact E1|]. split; [exact E2|]. repeat split; congruence.
    + destruct (valid_cons_effect _ _ _ Hv Ew) as (_ & Heff & _).
      pose proof (proj1 (written_effect a) Ew) as Hae.
      assert (Hall : forall b, In b (a :: r) -> is_effect b = true).
      { intros b [<-|Hb]; [exact Hae | apply Heff; exact Hb]. }
      exists s, t. unfold effect_part. rewrite (filter_all_true is_effect (a :: r) Hall).
      split; [exact H|]. split; [symmetry; apply (effects_keep_values f o (a :: r) s s1 t Hall H)|]. auto.
Qed.

Lemma exec_transfer_gen f o acts known s s1 t :
  valid_schedule known acts = true -> exec_actions f o acts s = Ok (s1, t) ->
  forall acts' known' s',
    valid_schedule known' acts' = true ->
    (forall a, In a acts' -> is_effect a = false -> In a acts) ->
    effect_part acts' = effect_part acts ->
    (forall k, In k known' -> lookup (values s') k = lookup (values s1) k) ->
    (forall k, (forall a, In a acts -> written a <> Some k) -> lookup (values s') k = lookup (values s) k) ->
    (forall a w, In a acts -> written a = Some w -> In w known' \/ In a acts') ->
    mem s' = mem s -> regs s' = regs s -> last_status s' = last_status s -> cycle s' = cycle s ->
    exists s2 t2, exec_actions f o acts' s' = Ok (s2, t2).
Proof.
  intros Hv H. induction acts' as [|a r IH]; intros known' s' Hv' Hin Heff I1 I2 Iw Hm Hr Hl Hc.
  - exists s', "". reflexivity.
  - destruct (written a) as [w|] eqn:Ew.
    + destruct (valid_cons_pure _ _ _ _ Hv' Ew) as (Hreads & Hnk & Hv'').
      pose proof (written_pure _ _ Ew) as Hpure.
      assert (Ha : In a acts) by (apply Hin; [left; reflexivity | exact Hpure]).
      destruct (run_action_state f o acts known s s1 t Hv H a w Ha Ew) as (sa & sa' & ta & E1 & E2 & E3 & E4 & E5).
      pose proof (exec_action_agree f o o a sa s') as Hag. unfold action_rel in Hag. rewrite E1 in Hag.
      destruct (exec_action f o a s') as [[s'' t'']|e''] eqn:E''.
      2:{ exfalso. apply Hag; [|congruence|congruence]. intros n Hn. rewrite E2 by exact Hn. symmetry. apply I1, Hreads, Hn. }
      destruct Hag as (_ & _ & _ & K4); [|congruence|congruence|].
      { intros n Hn. rewrite E2 by exact Hn. symmetry. apply I1, Hreads, Hn. }
      destruct (state_frame_ok f o a s' s'' t'' E'') as (Hc' & Hfr & _).
      destruct (Hfr Hpure) as (Hm' & Hr' & Hl').
      destruct (IH (w :: known') s'') as (s2 & t2 & E2').
      * exact Hv''.
      * intros b Hb. apply Hin. right. exact Hb.
      * rewrite <- Heff. unfold effect_part. cbn [filter]. rewrite Hpure. reflexivity.
      * intros k [<-|Hk].
        -- rewrite <- (K4 w Ew). exact E5.
        -- rewrite (values_frame_ok f o a s' s'' t'' k E''); [apply I1; exact Hk|].
           rewrite Ew. intros Heq. injection Heq as ->. contradiction.
      * intros k Hk. rewrite (values_frame_ok f o a s' s'' t'' k E''); [apply I2; exact Hk | apply Hk; exact Ha].
      * intros a0 w0 Ha0 Hw0. destruct (Iw a0 w0 Ha0 Hw0) as [Hk|[<-|Hk]].
        -- left. right. exact Hk.
        -- left. left. congruence.
        -- right. exact Hk.
      * congruence.
      * congruence.
      * congruence.
      * congruence.
      * exists s2, (t'' ++ t2)%string. cbn [exec_actions]. rewrite E''. cbn [bind fst snd]. rewrite E2'. reflexivity.
    + destruct (valid_cons_effect _ _ _ Hv' Ew) as (_ & Heff' & _).
      pose proof (proj1 (written_effect a) Ew) as Hae.
      assert (Hall : forall b, In b (a :: r) -> is_effect b = true).
      { intros b [<-|Hb]; [exact Hae | apply Heff'; exact Hb]. }
      assert (Hsuf : a :: r = effect_part acts).
      { rewrite <- Heff. unfold effect_part. symmetry. apply filter_all_true. exact Hall. }
      destruct (acts_split f o acts known s s1 t Hv H) as (sP & tE & P1 & P2 & P3 & P4 & P5 & P6).
      destruct (actions_frame_ok f o acts s s1 t H) as (_ & Hfr & _).
      assert (Hsm : same_machine sP s').
      { split; [|repeat split; congruence]. intros k. rewrite P2.
        destruct (writes_wire_dec k acts) as [(a0 & Ha0 & Hw0)|Hno].
        - destruct (Iw a0 k Ha0 Hw0) as [Hk|Hk]; [symmetry; apply I1; exact Hk|].
          exfalso. apply written_pure in Hw0. rewrite (Hall a0 Hk) in Hw0. discriminate Hw0.
        - rewrite (Hfr k Hno). symmetry. apply I2. exact Hno. }
      pose proof (exec_actions_equiv f o o (effect_part acts) sP s' Hsm) as Hrel. unfold run_rel in Hrel.
      rewrite P1 in Hrel. rewrite Hsuf.
      destruct (exec_actions f o (effect_part acts) s') as [[s2 t2]|e2]; [|contradiction].
      exists s2, t2. reflexivity.
Qed.

Lemma exec_transfer f o known acts acts' s s1 t :
  valid_schedule known acts = true -> valid_schedule known acts' = true ->
  Permutation (pure_part acts) (pure_part acts') -> effect_part acts = effect_part acts' ->
  exec_actions f o acts s = Ok (s1, t) ->
  exists s2 t2, exec_actions f o acts' s = Ok (s2, t2) /\ same_machine s1 s2.
Proof.
  intros Hv Hv' HP He H.
  destruct (settles_gen f o acts known s s1 t Hv H) as (_ & HA & _).
  destruct (exec_transfer_gen f o acts known s s1 t Hv H acts' known s) as (s2 & t2 & E2); try reflexivity.
  - exact Hv'.
  - intros a Ha Hp. apply (in_pure_part a acts). apply (Permutation_in a (Permutation_sym HP)).
    apply in_pure_part. split; assumption.
  - symmetry. exact He.
  - intros k Hk. symmetry. apply HA. exact Hk.
  - intros a w Ha Hw. right. apply (in_pure_part a acts'). apply (Permutation_in a HP).
    apply in_pure_part. split; [exact Ha | apply (written_pure _ _ Hw)].
  - exists s2, t2. split; [exact E2|].
    destruct (order_independent_ok f o known acts acts' s s1 t s2 t2 Hv Hv' HP He H E2) as (K1 & K2 & K3 & K4 & K5).
    split; [exact K1|]. auto.
Qed.

(* ================================================================================== *)
(* Part 3d: register banks - the initial state and the clock edge do not depend on the  *)
(*          order of the banks                                                          *)
(* ================================================================================== *)
Definition allsig (banks : list bank) : list string := flat_map (fun b => flat_map sig_names (b_signals b)) banks.

Lemma init_signals_ins defaults : forall sigs vals vals',
  NoDup (flat_map sig_names sigs) -> init_signals vals defaults sigs = Ok vals' ->
  (forall i o w, In (i, o, w) sigs -> lookup vals' i = lookup defaults o) /\
  (forall k, ~ In k (flat_map sig_names sigs) -> lookup vals' k = lookup vals k).
Proof.
  induction sigs as [|[[i0 o0] w0] r IH]; intros vals vals' ND H.
  - cbn [init_signals] in H. injection H as ->. split; [intros i o w [] | intros; reflexivity].
  - cbn [init_signals] in H.
    destruct (lookup defaults o0) as [d|] eqn:Ed; [|unfold err1 in H; discriminate H].
    cbn [flat_map sig_names sg_out sg_in fst snd app] in ND |- *.
    apply NoDup_cons_iff in ND. destruct ND as [No ND]. apply NoDup_cons_iff in ND. destruct ND as [Ni ND].
    destruct (IH _ _ ND H) as [I1 I2]. split.
    + intros i o w [Hin|Hin].
      * injection Hin as <- <- <-. rewrite (I2 i0 Ni).
        rewrite lookup_upd_ne by (intros ->; apply No; left; reflexivity).
        rewrite lookup_upd_same. symmetry. exact Ed.
      * apply (I1 i o w Hin).
    + intros k Hk. rewrite I2 by (intros H0; apply Hk; right; right; exact H0).
      rewrite lookup_upd_ne by (intros ->; apply Hk; left; reflexivity).
      apply lookup_upd_ne. intros ->. apply Hk. right. left. reflexivity.
Qed.

Lemma init_banks_ins : forall banks vals vals',
  NoDup (allsig banks) ->
  (forall b, In b banks -> ~ In (b_stall b) (allsig banks) /\ ~ In (b_bubble b) (allsig banks)) ->
  init_banks vals banks = Ok vals' ->
  (forall b i o w, In b banks -> In (i, o, w) (b_signals b) -> lookup vals' i = lookup (b_defaults b) o) /\
  (forall k, ~ In k (allsig banks) -> (forall b, In b banks -> k <> b_stall b /\ k <> b_bubble b) ->
             lookup vals' k = lookup vals k).
Proof.
  induction banks as [|b r IH]; intros vals vals' ND Hsp H.
  - cbn [init_banks] in H. injection H as <-. split; [intros b i o w [] | intros; reflexivity].
  - cbn [init_banks] in H.
    destruct (init_signals vals (b_defaults b) (b_signals b)) as [v1|e] eqn:E1; cbn [bind] in H; [|discriminate H].
    unfold allsig in ND, Hsp |- *. cbn [flat_map] in ND, Hsp |- *. fold (allsig r) in ND, Hsp |- *.
    pose proof (NoDup_app_l _ _ ND) as ND1. pose proof (NoDup_app_r _ _ ND) as ND2.
    destruct (init_signals_ins _ _ _ _ ND1 E1) as [S1 S2].
    destruct (IH (upd (upd v1 (b_bubble b) false_value) (b_stall b) false_value) vals' ND2) as [I1 I2]; [|exact H|].
    { intros b0 Hb0. destruct (Hsp b0 (or_intror Hb0)) as [H1 H2].
      split; intros Hin; [apply H1 | apply H2]; apply in_or_app; right; exact Hin. }
    destruct (Hsp b (or_introl eq_refl)) as [Hst Hbu].
    split.
    + intros b' i o w [<-|Hb'] Hs; [|apply (I1 b' i o w Hb' Hs)].
      assert (Hi : In i (flat_map sig_names (b_signals b))).
      { apply in_flat_map. exists (i, o, w). split; [exact Hs | right; left; reflexivity]. }
      rewrite I2.
      * rewrite lookup_upd_ne by (intros ->; apply Hst; apply in_or_app; left; exact Hi).
        rewrite lookup_upd_ne by (intros ->; apply Hbu; apply in_or_app; left; exact Hi).
        apply (S1 i o w Hs).
      * apply (NoDup_app_disj _ _ i ND Hi).
      * intros b0 Hb0. destruct (Hsp b0 (or_intror Hb0)) as [H1 H2].
        split; intros ->; [apply H1 | apply H2]; apply in_or_app; left; exact Hi.
    + intros k Hk Hkb. destruct (Hkb b (or_introl eq_refl)) as [K1 K2].
      rewrite I2.
      * rewrite lookup_upd_ne by exact K1. rewrite lookup_upd_ne by exact K2.
        apply S2. intros Hin. apply Hk. apply in_or_app. left. exact Hin.
      * intros Hin. apply Hk. apply in_or_app. right. exact Hin.
      * intros b0 Hb0. apply Hkb. right. exact Hb0.
Qed.

Lemma allsig_perm banks banks' : Permutation banks banks' -> Permutation (allsig banks) (allsig banks').
Proof. apply Permutation_flat_map. Qed.

Lemma allsig_In banks k :
  In k (allsig banks) <-> exists b i o w, In b banks /\ In (i, o, w) (b_signals b) /\ (k = o \/ k = i).
Proof.
  unfold allsig. rewrite in_flat_map. split.
  - intros [b [Hb Hk]]. apply in_flat_map in Hk. destruct Hk as [[[i o] w] [Hs Hk]].
    exists b, i, o, w. split; [exact Hb|]. split; [exact Hs|].
    cbn [sig_names sg_out sg_in fst snd In] in Hk. destruct Hk as [<-|[<-|[]]]; auto.
  - intros [b [i [o [w [Hb [Hs Hk]]]]]]. exists b. split; [exact Hb|]. apply in_flat_map. exists (i, o, w).
    split; [exact Hs|]. cbn [sig_names sg_out sg_in fst snd In]. destruct Hk as [->| ->]; auto.
Qed.

(* what init_banks produces, read at any key *)
Lemma init_banks_lookup banks vals vals' :
  banks_wf banks -> NoDup (allsig banks) ->
  (forall b, In b banks -> ~ In (b_stall b) (allsig banks) /\ ~ In (b_bubble b) (allsig banks)) ->
  init_banks vals banks = Ok vals' ->
  forall k,
    (forall b i o w, In b banks -> In (i, o, w) (b_signals b) -> (k = o \/ k = i) ->
       lookup vals' k = lookup (b_defaults b) o) /\
    (forall b, In b banks -> (k = b_stall b \/ k = b_bubble b) -> lookup vals' k = Some false_value) /\
    (~ In k (allsig banks) -> (forall b, In b banks -> k <> b_stall b /\ k <> b_bubble b) ->
       lookup vals' k = lookup vals k).
Proof.
  intros WF ND Hsp H k.
  destruct (init_banks_spec banks vals vals' WF H) as (S1 & S2 & _ & _).
  destruct (init_banks_ins banks vals vals' ND Hsp H) as (I1 & I2).
  split; [|split].
  - intros b i o w Hb Hs [->| ->]; [apply (S1 b i o w Hb Hs) | apply (I1 b i o w Hb Hs)].
  - intros b Hb [->| ->]; apply (S2 b Hb).
  - apply I2.
Qed.

Lemma init_banks_perm banks banks' vals vals' v v' :
  banks_wf banks -> banks_wf banks' -> NoDup (allsig banks) ->
  (forall b, In b banks -> ~ In (b_stall b) (allsig banks) /\ ~ In (b_bubble b) (allsig banks)) ->
  Permutation banks banks' -> (forall k, lookup vals k = lookup vals' k) ->
  init_banks vals banks = Ok v -> init_banks vals' banks' = Ok v' ->
  forall k, lookup v k = lookup v' k.
Proof.
  intros WF WF' ND Hsp HP Hv H H' k.
  pose proof (allsig_perm _ _ HP) as HPs.
  assert (ND' : NoDup (allsig banks')) by (apply (Permutation_NoDup HPs); exact ND).
  assert (Hsp' : forall b, In b banks' -> ~ In (b_stall b) (allsig banks') /\ ~ In (b_bubble b) (allsig banks')).
  { intros b Hb. destruct (Hsp b (Permutation_in _ (Permutation_sym HP) Hb)) as [H1 H2].
    split; intros Hin; [apply H1 | apply H2]; apply (Permutation_in _ (Permutation_sym HPs) Hin). }
  destruct (init_banks_lookup banks vals v WF ND Hsp H k) as (A1 & A2 & A3).
  destruct (init_banks_lookup banks' vals' v' WF' ND' Hsp' H' k) as (B1 & B2 & B3).
  destruct (in_dec string_dec k (allsig banks)) as [Hin|Hnin].
  - apply allsig_In in Hin. destruct Hin as [b [i [o [w [Hb [Hs Hk]]]]]].
    rewrite (A1 b i o w Hb Hs Hk). symmetry. apply (B1 b i o w (Permutation_in _ HP Hb) Hs Hk).
  - destruct (in_dec string_dec k (flat_map (fun b => [b_stall b; b_bubble b]) banks)) as [Hsb|Hnsb].
    + apply in_flat_map in Hsb. destruct Hsb as [b [Hb Hk]].
      assert (Hk' : k = b_stall b \/ k = b_bubble b) by (destruct Hk as [<-|[<-|[]]]; auto).
      rewrite (A2 b Hb Hk'). symmetry. apply (B2 b (Permutation_in _ HP Hb) Hk').
    + assert (Hno : forall b, In b banks -> k <> b_stall b /\ k <> b_bubble b).
      { intros b Hb. split; intros ->; apply Hnsb; apply in_flat_map; exists b; (split; [exact Hb|]); cbn [In]; auto. }
      rewrite (A3 Hnin Hno). rewrite B3; [apply Hv| |].
      * intros Hin. apply Hnin. apply (Permutation_in _ (Permutation_sym HPs) Hin).
      * intros b Hb. apply Hno. apply (Permutation_in _ (Permutation_sym HP) Hb).
Qed.

(* the clock edge *)
Lemma process_banks_perm banks banks' vals vals' v1 v2 :
  banks_wf banks -> banks_wf banks' -> Permutation banks banks' ->
  (forall k, lookup vals k = lookup vals' k) ->
  process_banks vals banks = Ok v1 -> process_banks vals' banks' = Ok v2 ->
  forall k, lookup v1 k = lookup v2 k.
Proof.
  intros Hwf Hwf' HP Hv H1 H2 k.
  destruct (clock_edge_ok banks vals v1 Hwf H1) as [Ha1 Hb1].
  destruct (clock_edge_ok banks' vals' v2 Hwf' H2) as [Ha2 Hb2].
  assert (HPo : Permutation (all_outs banks) (all_outs banks')) by (apply Permutation_flat_map; exact HP).
  destruct (in_dec string_dec k (all_outs banks)) as [Hin|Hnin].
  - destruct (C12Lemmas.in_all_outs banks k Hin) as (b & i & w & Hb & Hsig).
    destruct (Ha1 b i k w Hb Hsig) as (st & bu & Est & Ebu & E1).
    destruct (Ha2 b i k w (Permutation_in _ HP Hb) Hsig) as (st' & bu' & Est' & Ebu' & E2).
    rewrite <- Hv in Est', Ebu'. rewrite Est in Est'. rewrite Ebu in Ebu'. injection Est' as <-. injection Ebu' as <-.
    rewrite E1, E2, !Hv. reflexivity.
  - rewrite (Hb1 k Hnin). rewrite (Hb2 k); [apply Hv|].
    intros Hin. apply Hnin. apply (Permutation_in _ (Permutation_sym HPo) Hin).
Qed.

(* its only failures are missing wires *)
Lemma get_value_err vals n es : get_value vals n = Err es -> es = [mkErr Panicked [n]].
Proof. unfold get_value. destruct (lookup vals n); unfold err1; intros H; [discriminate H | injection H as <-; reflexivity]. Qed.

Lemma set_defaults_err : forall defaults vals es, set_defaults vals defaults = Err es -> exists n, es = [mkErr Panicked [n]].
Proof.
  induction defaults as [|[k v] r IH]; intros vals es H; cbn [set_defaults] in H; [discriminate H|].
  destruct (has vals k); [apply (IH _ _ H)|]. unfold err1 in H. injection H as <-. exists k. reflexivity.
Qed.

Lemma copy_signals_err : forall sigs vals es, copy_signals vals sigs = Err es -> exists n, es = [mkErr Panicked [n]].
Proof.
  induction sigs as [|[[i o] w] r IH]; intros vals es H; cbn [copy_signals] in H; [discriminate H|].
  destruct (get_value vals i) as [nv|e] eqn:E; cbn [bind] in H.
  - destruct (has vals o); [apply (IH _ _ H)|]. unfold err1 in H. injection H as <-. exists o. reflexivity.
  - injection H as <-. exists i. apply (get_value_err _ _ _ E).
Qed.

Lemma process_banks_err : forall banks vals es,
  process_banks vals banks = Err es -> exists n, es = [mkErr Panicked [n]].
Proof.
  induction banks as [|b r IH]; intros vals es H; cbn [process_banks] in H; [discriminate H|].
  destruct (get_value vals (b_stall b)) as [st|e] eqn:Est; cbn [bind] in H;
    [|injection H as <-; exists (b_stall b); apply (get_value_err _ _ _ Est)].
  destruct (get_value vals (b_bubble b)) as [bu|e] eqn:Ebu; cbn [bind] in H;
    [|injection H as <-; exists (b_bubble b); apply (get_value_err _ _ _ Ebu)].
  match type of H with bind ?x _ = _ => destruct x as [v1|e] eqn:E1 end; cbn [bind] in H.
  - apply (IH _ _ H).
  - injection H as <-. destruct (is_true bu); [apply (set_defaults_err _ _ _ E1)|].
    destruct (negb (is_true st)); [apply (copy_signals_err _ _ _ E1) | discriminate E1].
Qed.

Lemma built_allsig f fixed is_lower is_upper stmts p :
  build_program f fixed is_lower is_upper stmts = Ok p ->
  NoDup (allsig (p_banks p)) /\
  forall b, In b (p_banks p) -> ~ In (b_stall b) (allsig (p_banks p)) /\ ~ In (b_bubble b) (allsig (p_banks p)).
Proof.
  intros Hb. destruct (build_ok_inv f fixed is_lower is_upper stmts p Hb)
    as [He [Hca [Hcr [consts [Hrc [Hte [Hun [acts [Hacts Hp]]]]]]]]].
  destruct (T3_facts f is_lower is_upper _ consts Hte) as [F1 [F2 F3]].
  rewrite Hp. cbn [p_banks]. set (banks := t_banks _) in *.
  assert (Eq : allsig banks = flat_map sig_names (sigs_of banks)).
  { unfold allsig, sigs_of. rewrite flat_map_flat_map. reflexivity. }
  rewrite Eq. split; [exact F1|].
  rewrite Forall_forall in F2, F3.
  assert (Hlike : forall x, In x (flat_map sig_names (sigs_of banks)) -> bank_like x = true).
  { intros x Hx. apply in_flat_map in Hx. destruct Hx as [sg [Hsg Hx]].
    destruct (F2 sg Hsg) as [_ [_ [_ [S4 [S5 _]]]]].
    unfold sig_names in Hx. cbn [In] in Hx. destruct Hx as [<-|[<-|[]]]; assumption. }
  intros b Hb0. destruct (F3 b Hb0) as [_ [[X [Hst Hbu]] _]]. split; intros Hin; apply Hlike in Hin.
  - rewrite Hst, bank_like_stall in Hin. discriminate Hin.
  - rewrite Hbu, bank_like_bubble in Hin. discriminate Hin.
Qed.

(* ================================================================================== *)
(* Part 3e: schedules and known wires up to order                                      *)
(* ================================================================================== *)
Lemma mem_str_ext k l l' : (forall x, In x l <-> In x l') -> mem_str k l = mem_str k l'.
Proof.
  intros H. destruct (mem_str k l) eqn:E1; destruct (mem_str k l') eqn:E2; try reflexivity; exfalso.
  - apply mem_str_In in E1. apply H in E1. apply mem_str_false in E2. contradiction.
  - apply mem_str_In in E2. apply H in E2. apply mem_str_false in E1. contradiction.
Qed.

Lemma forallb_mem_ext (l l' rs : list string) : (forall x, In x l <-> In x l') ->
  forallb (fun n => mem_str n l) rs = forallb (fun n => mem_str n l') rs.
Proof.
  intros H. induction rs as [|r rs IH]; cbn [forallb]; [reflexivity|].
  rewrite IH, (mem_str_ext r l l' H). reflexivity.
Qed.

Lemma valid_schedule_ext : forall acts known known',
  (forall x, In x known <-> In x known') -> valid_schedule known acts = valid_schedule known' acts.
Proof.
  induction acts as [|a r IH]; intros known known' H; cbn [valid_schedule]; [reflexivity|].
  rewrite (forallb_mem_ext known known' (reads a) H). f_equal.
  destruct (written a) as [w|].
  - rewrite (mem_str_ext w known known' H). f_equal. apply IH.
    intros x. cbn [In]. rewrite (H x). reflexivity.
  - clear IH. induction r as [|b r IHr]; cbn [forallb]; [reflexivity|].
    rewrite IHr, (forallb_mem_ext known known' (reads b) H). reflexivity.
Qed.

Lemma Permutation_filter_gen {A} (q : A -> bool) (l l' : list A) :
  Permutation l l' -> Permutation (filter q l) (filter q l').
Proof.
  induction 1 as [|x l l' _ IH|x y l|l l' l'' _ IH1 _ IH2]; cbn [filter].
  - constructor.
  - destruct (q x); [constructor|]; exact IH.
  - destruct (q x), (q y); try apply Permutation_refl. apply perm_swap.
  - apply (Permutation_trans IH1 IH2).
Qed.

Lemma known0_perm p p' :
  Permutation (p_consts p) (p_consts p') -> Permutation (p_banks p) (p_banks p') ->
  Permutation (p_actions p) (p_actions p') ->
  forall k, In k (known0 p) <-> In k (known0 p').
Proof.
  intros Hc Hbk Ha k. rewrite !known0_In.
  assert (Hs : Permutation (start_wires p) (start_wires p')).
  { unfold start_wires. apply Permutation_app; [apply Permutation_map; exact Hc|].
    apply Permutation_app; [apply Permutation_flat_map; exact Hbk|].
    apply Permutation_app; apply Permutation_flat_map; exact Hbk. }
  split; intros [H1 H2]; split.
  - apply (Permutation_in _ Hs H1).
  - intros a Hin. apply H2. apply (Permutation_in _ (Permutation_sym Ha) Hin).
  - apply (Permutation_in _ (Permutation_sym Hs) H1).
  - intros a Hin. apply H2. apply (Permutation_in _ Ha Hin).
Qed.

(* ================================================================================== *)
(* Part 3f: one cycle, any number of cycles                                            *)
(* ================================================================================== *)
Lemma exec_pair_gen f o o' K acts acts' s s' s1 t :
  valid_schedule K acts = true -> valid_schedule K acts' = true ->
  Permutation (pure_part acts) (pure_part acts') -> effect_part acts = effect_part acts' ->
  same_machine s s' -> exec_actions f o acts s = Ok (s1, t) ->
  exists s2 t2, exec_actions f o' acts' s' = Ok (s2, t2) /\ same_machine s1 s2.
Proof.
  intros Hv Hv' HP He Hs H.
  destruct (exec_transfer f o K acts acts' s s1 t Hv Hv' HP He H) as (s2a & t2a & E & Hsm).
  pose proof (exec_actions_equiv f o o' acts' s s' Hs) as Hrel. unfold run_rel in Hrel. rewrite E in Hrel.
  destruct (exec_actions f o' acts' s') as [[s2 t2]|e2]; [|contradiction].
  exists s2, t2. split; [reflexivity|]. apply (same_machine_trans _ _ _ Hsm Hrel).
Qed.

Definition step_rel (r r' : result (mstate * string)) : Prop :=
  match r, r' with
  | Ok (s1, _), Ok (s2, _) => same_machine s1 s2
  | Err e1, Err e2 => e1 = e2
  | _, _ => False
  end.

Section SimPair.
  Variable f : features.
  Variables G G' : string -> option width.
  Variables p p' : program.
  Hypothesis POK : program_ok f G p.
  Hypothesis POK' : program_ok f G' p'.
  Hypothesis SP : same_program p p'.

  Let Hvalid : valid_schedule (known0 p) (p_actions p) = true := proj1 (proj2 POK).
  Let Hvalid' : valid_schedule (known0 p') (p_actions p') = true := proj1 (proj2 POK').

  Lemma sp_known k : In k (known0 p) <-> In k (known0 p').
  Proof.
    destruct SP as (_ & Hc & Hbk & Ha & _). apply known0_perm; assumption.
  Qed.

  Lemma sp_valid' : valid_schedule (known0 p) (p_actions p') = true.
  Proof. rewrite (valid_schedule_ext (p_actions p') (known0 p) (known0 p') sp_known). exact Hvalid'. Qed.

  Lemma sp_valid : valid_schedule (known0 p') (p_actions p) = true.
  Proof.
    rewrite (valid_schedule_ext (p_actions p) (known0 p') (known0 p)); [exact Hvalid|].
    intros x. symmetry. apply sp_known.
  Qed.

  Lemma sp_pure : Permutation (pure_part (p_actions p)) (pure_part (p_actions p')).
  Proof. destruct SP as (_ & _ & _ & Ha & _). apply Permutation_filter_gen. exact Ha. Qed.

  Lemma sp_eff : effect_part (p_actions p) = effect_part (p_actions p').
  Proof. apply SP. Qed.

  Lemma sp_banks : Permutation (p_banks p) (p_banks p').
  Proof. apply SP. Qed.

  Lemma step_unfold o q s :
    step f o q s =
    do x <- exec_actions f o (p_actions q) s;
    do tbl <- (if o_show_wire_values o then dump_values o q (values (fst x)) else Ok "");
    do v2 <- process_banks (values (fst x)) (p_banks q);
    Ok (mkState v2 (mem (fst x)) (regs (fst x)) (last_status (fst x)) (cycle (fst x) + 1), (snd x ++ tbl)%string).
  Proof. reflexivity. Qed.

  (* a step whose actions ran through completes: the table always prints, and a bank failure
     would be a missing wire, which a well-typed program excludes *)
  Lemma step_completes o Gq q s s1 t :
    program_ok f Gq q -> state_ok Gq q s -> exec_actions f o (p_actions q) s = Ok (s1, t) ->
    exists v2 tbl, process_banks (values s1) (p_banks q) = Ok v2 /\
      step f o q s = Ok (mkState v2 (mem s1) (regs s1) (last_status s1) (cycle s1 + 1), (t ++ tbl)%string).
  Proof.
    intros Pq Sq E. pose proof (step_safe_ok f o Gq q s Pq Sq) as Hsafe.
    rewrite step_unfold in Hsafe |- *. rewrite E in Hsafe |- *. cbn [bind fst snd] in Hsafe |- *.
    assert (Ht : exists tbl, (if o_show_wire_values o then dump_values o q (values s1) else Ok "") = Ok tbl).
    { destruct (o_show_wire_values o); [apply dump_values_total | exists ""; reflexivity]. }
    destruct Ht as [tbl Ht]. rewrite Ht in Hsafe |- *. cbn [bind] in Hsafe |- *.
    destruct (process_banks (values s1) (p_banks q)) as [v2|es] eqn:Epb; cbn [bind] in Hsafe |- *.
    - exists v2, tbl. split; reflexivity.
    - exfalso. destruct (process_banks_err _ _ _ Epb) as [n ->]. unfold div_zero_only in Hsafe. discriminate Hsafe.
  Qed.

  Lemma step_fails o Gq q s es :
    program_ok f Gq q -> state_ok Gq q s -> exec_actions f o (p_actions q) s = Err es ->
    step f o q s = Err [mkErr DivisionByZero []].
  Proof.
    intros Pq Sq E. pose proof (step_safe_ok f o Gq q s Pq Sq) as Hsafe.
    rewrite step_unfold in Hsafe |- *. rewrite E in Hsafe |- *. cbn [bind] in Hsafe |- *.
    unfold div_zero_only in Hsafe. rewrite Hsafe. reflexivity.
  Qed.

  Lemma step_pair o o' s s' :
    state_ok G p s -> state_ok G' p' s' -> same_machine s s' ->
    step_rel (step f o p s) (step f o' p' s').
  Proof.
    intros Sk Sk' Hs. unfold step_rel.
    destruct (exec_actions f o (p_actions p) s) as [[s1 t1]|e1] eqn:E1.
    - destruct (exec_pair_gen f o o' (known0 p) (p_actions p) (p_actions p') s s' s1 t1
                  Hvalid sp_valid' sp_pure sp_eff Hs E1) as (s2 & t2 & E2 & Hsm).
      destruct (step_completes o G p s s1 t1 POK Sk E1) as (v2 & tbl & Epb & ->).
      destruct (step_completes o' G' p' s' s2 t2 POK' Sk' E2) as (v2' & tbl' & Epb' & ->).
      destruct Hsm as (Hv & Hm & Hr & Hl & Hc).
      split; [|cbn [mem regs last_status cycle]; repeat split; congruence]. cbn [values].
      apply (process_banks_perm (p_banks p) (p_banks p') (values s1) (values s2) v2 v2'
               (proj1 (proj2 (proj2 POK))) (proj1 (proj2 (proj2 POK'))) sp_banks Hv Epb Epb').
    - destruct (exec_actions f o' (p_actions p') s') as [[s2 t2]|e2] eqn:E2.
      + exfalso.
        destruct (exec_pair_gen f o' o (known0 p') (p_actions p') (p_actions p) s' s s2 t2
                    Hvalid' sp_valid (Permutation_sym sp_pure) (eq_sym sp_eff) (same_machine_sym _ _ Hs) E2)
          as (s1 & t1 & E1' & _).
        rewrite E1 in E1'. discriminate E1'.
      + rewrite (step_fails o G p s e1 POK Sk E1), (step_fails o' G' p' s' e2 POK' Sk' E2). reflexivity.
  Qed.

  Lemma iter_pair o o' : forall n s s',
    state_ok G p s -> state_ok G' p' s' -> same_machine s s' ->
    same_result (iter_step n f o p s) (iter_step n f o' p' s').
  Proof.
    induction n as [|n IH]; intros s s' Sk Sk' Hs; cbn [iter_step].
    - exact Hs.
    - pose proof (step_pair o o' s s' Sk Sk' Hs) as Hp. unfold step_rel in Hp.
      pose proof (step_safe_ok f o G p s POK Sk) as H1. pose proof (step_safe_ok f o' G' p' s' POK' Sk') as H2.
      destruct (step f o p s) as [[s1 t1]|e1]; destruct (step f o' p' s') as [[s2 t2]|e2];
        cbn [bind fst]; try contradiction.
      + apply IH; assumption.
      + exact Hp.
  Qed.
End SimPair.

(* ================================================================================== *)
(* Part 3g: the theorems about the simulation                                          *)
(* ================================================================================== *)
Section SimGen.
  Variable f : features.
  Variable is_lower is_upper : string -> bool.
  Notation build := (build_program f gen_fixed is_lower is_upper).

  Lemma init_pair stmts stmts' p p' G G' s0 s0' :
    Permutation stmts stmts' -> build stmts = Ok p -> build stmts' = Ok p' ->
    program_ok f G p -> program_ok f G' p' ->
    initial_state p = Ok s0 -> initial_state p' = Ok s0' -> same_machine s0 s0'.
  Proof.
    intros HP Hb Hb' POK POK' Hi Hi'.
    destruct (program_order_free_holds f is_lower is_upper stmts stmts' p p' HP Hb Hb') as (Hc & _ & Hbk & _).
    destruct (built_allsig f gen_fixed is_lower is_upper stmts p Hb) as [ND Hsp].
    unfold initial_state in Hi, Hi'.
    destruct (init_banks (p_consts p) (p_banks p)) as [v|e] eqn:E; cbn [bind] in Hi; [|discriminate Hi].
    destruct (init_banks (p_consts p') (p_banks p')) as [v'|e'] eqn:E'; cbn [bind] in Hi'; [|discriminate Hi'].
    injection Hi as <-. injection Hi' as <-. unfold same_machine. cbn [values mem regs last_status cycle].
    split; [|auto].
    apply (init_banks_perm (p_banks p) (p_banks p') (p_consts p) (p_consts p') v v'
             (proj1 (proj2 (proj2 POK))) (proj1 (proj2 (proj2 POK'))) ND Hsp Hbk Hc E E').
  Qed.

  Theorem simulation_order_free_holds : stmt_simulation_order_free f is_lower is_upper.
  Proof.
    intros stmts stmts' p p' Hwf HP Hb Hb' n o o'.
    assert (Hwf' : Forall wf_stmt stmts') by (apply (Permutation_Forall HP); exact Hwf).
    destruct (accept_program_ok_gen f is_lower is_upper gen_fixed_ok gen_fixed_widths_ok stmts p Hwf Hb) as [G POK].
    destruct (accept_program_ok_gen f is_lower is_upper gen_fixed_ok gen_fixed_widths_ok stmts' p' Hwf' Hb') as [G' POK'].
    destruct (initial_state_safe_ok f G p POK) as [s0 [Hi Sk]].
    destruct (initial_state_safe_ok f G' p' POK') as [s0' [Hi' Sk']].
    unfold run_cycles. rewrite Hi, Hi'. cbn [bind].
    apply (iter_pair f G G' p p' POK POK' (program_order_free_holds f is_lower is_upper stmts stmts' p p' HP Hb Hb')
             o o' n s0 s0' Sk Sk').
    apply (init_pair stmts stmts' p p' G G' s0 s0' HP Hb Hb' POK POK' Hi Hi').
  Qed.

  Lemma done_same o o' s s' : o_timeout o = o_timeout o' -> same_machine s s' -> done o s = done o' s'.
  Proof.
    intros Ht (Hv & _ & _ & _ & Hc). unfold done, timed_out, status_or_default. rewrite (Hv "Stat"), Hc, Ht. reflexivity.
  Qed.

  Lemma run_pair G G' p p' o o' :
    program_ok f G p -> program_ok f G' p' -> same_program p p' -> o_timeout o = o_timeout o' ->
    forall fuel s s', state_ok G p s -> state_ok G' p' s' -> same_machine s s' ->
      same_run (run fuel f o p s) (run fuel f o' p' s').
  Proof.
    intros POK POK' SP Ht. induction fuel as [|fuel IH]; intros s s' Sk Sk' Hs; cbn [run];
      rewrite (done_same o o' s s' Ht Hs); destruct (done o' s'); try exact Hs.
    - reflexivity.
    - assert (Hd : exists d, (if o_show_regs_mem o then dump_y86 o p s else Ok "") = Ok d).
      { destruct (o_show_regs_mem o); [apply (dump_y86_total o G p s Sk) | exists ""; reflexivity]. }
      assert (Hd' : exists d, (if o_show_regs_mem o' then dump_y86 o' p' s' else Ok "") = Ok d).
      { destruct (o_show_regs_mem o'); [apply (dump_y86_total o' G' p' s' Sk') | exists ""; reflexivity]. }
      destruct Hd as [d ->]. destruct Hd' as [d' ->]. cbn [bind].
      pose proof (step_pair f G G' p p' POK POK' SP o o' s s' Sk Sk' Hs) as Hp. unfold step_rel in Hp.
      pose proof (step_safe_ok f o G p s POK Sk) as H1. pose proof (step_safe_ok f o' G' p' s' POK' Sk') as H2.
      destruct (step f o p s) as [[s1 t1]|e1]; destruct (step f o' p' s') as [[s2 t2]|e2];
        cbn [bind fst snd]; try contradiction; [|exact Hp].
      specialize (IH s1 s2 H1 H2 Hp). unfold same_run in IH |- *.
      destruct (run fuel f o p s1) as [[s3 t3]|e3]; destruct (run fuel f o' p' s2) as [[s4 t4]|e4];
        cbn [bind fst snd]; exact IH.
  Qed.

  Theorem run_order_free_holds : stmt_run_order_free f is_lower is_upper.
  Proof.
    intros stmts stmts' p p' s0 s0' Hwf HP Hb Hb' Hi Hi' fuel o o' Ht.
    assert (Hwf' : Forall wf_stmt stmts') by (apply (Permutation_Forall HP); exact Hwf).
    destruct (accept_program_ok_gen f is_lower is_upper gen_fixed_ok gen_fixed_widths_ok stmts p Hwf Hb) as [G POK].
    destruct (accept_program_ok_gen f is_lower is_upper gen_fixed_ok gen_fixed_widths_ok stmts' p' Hwf' Hb') as [G' POK'].
    destruct (initial_state_safe_ok f G p POK) as [s1 [Hi1 Sk]].
    destruct (initial_state_safe_ok f G' p' POK') as [s1' [Hi1' Sk']].
    rewrite Hi in Hi1. injection Hi1 as <-. rewrite Hi' in Hi1'. injection Hi1' as <-.
    apply (run_pair G G' p p' o o' POK POK' (program_order_free_holds f is_lower is_upper stmts stmts' p p' HP Hb Hb') Ht
             fuel s0 s0' Sk Sk').
    apply (init_pair stmts stmts' p p' G G' s0 s0' HP Hb Hb' POK POK' Hi Hi').
  Qed.
End SimGen.

(* ================================================================================== *)
(* Part 3h: the printed state dump                                                     *)
(* ================================================================================== *)
Theorem dump_order_free_holds : stmt_dump_order_free.
Proof.
  intros o p p' s s' (Hv & Hm & Hr & Hl & Hc) Hlet.
  assert (Hst : forall d, status_or_default s d = status_or_default s' d).
  { intros d. unfold status_or_default. rewrite (Hv "Stat"). reflexivity. }
  assert (Hh : halted s = halted s') by (unfold halted; rewrite Hst; reflexivity).
  assert (Ht : timed_out o s = timed_out o s') by (unfold timed_out; rewrite Hc; reflexivity).
  assert (Hd : done o s = done o s') by (unfold done; rewrite !Hst, Ht; reflexivity).
  assert (Hn : name_status y86_statuses s = name_status y86_statuses s') by (unfold name_status; rewrite Hst; reflexivity).
  assert (Hb : dump_custom_registers (values s) (p_banks p) = dump_custom_registers (values s') (p_banks p')).
  { rewrite (bank_dump_order_free_holds (values s) (values s') (p_banks p) Hv).
    apply bank_dump_decl_order_free_holds. exact Hlet. }
  unfold dump_y86. rewrite Hh, Ht, Hd, Hn, Hb, Hc, Hr, Hm. reflexivity.
Qed.

Theorem dump_banks_same_lines_holds : stmt_dump_banks_same_lines.
Proof.
  intros p p' s s' t t' (Hv & _) HP Ht Ht'.
  destruct (bank_dump_lists_every_bank_ok_holds _ _ _ Ht) as (order & Hcan & Hperm & Hl).
  destruct (bank_dump_lists_every_bank_ok_holds _ _ _ Ht') as (order' & Hcan' & Hperm' & Hl').
  apply dump_bank_list_concat_holds in Hl. destruct Hl as (texts & HF & ->).
  apply dump_bank_list_concat_holds in Hl'. destruct Hl' as (texts' & HF' & ->).
  exists order, order', texts, texts'.
  split; [exact Hcan|]. split; [exact Hcan'|].
  split; [apply (Permutation_trans Hperm), (Permutation_trans HP), Permutation_sym; exact Hperm'|].
  split; [intros l; apply Permutation_filter_gen; exact HP|].
  split; [exact HF|]. split; [exact HF'|]. split; [reflexivity|]. split; [reflexivity|].
  intros b. apply dump_bank_ext. exact Hv.
Qed.

(* ================================================================================== *)
(* Part 4: rejected programs                                                           *)
(* ================================================================================== *)
Theorem rejection_order_free_holds : stmt_rejection_order_free.
Proof.
  intros f is_lower is_upper stmts stmts' es HP Hb.
  destruct (build_program f gen_fixed is_lower is_upper stmts') as [p'|es'] eqn:Hb'.
  - exfalso. destruct (proj2 (acceptance_order_free_holds f is_lower is_upper stmts stmts' HP)) as [p Hp].
    + exists p'. exact Hb'.
    + rewrite Hp in Hb. discriminate Hb.
  - exists es'. split; [reflexivity|]. apply (reject_has_diag_ok f gen_fixed is_lower is_upper stmts' es' Hb').
Qed.

Notation gdiags stmts :=
  (match build_program gen_features gen_fixed ascii_lower ascii_upper stmts with
   | Ok _ => [] | Err es => map diag_of es end).

(* (a) a name declared / assigned twice: the maps keep the LAST expression, so which expression is
   examined further depends on the order *)
Definition cex_last_wins : list stmt := hcl "const A = p; const A = q; pc = 0; Stat = 1;".
(* (b) two independent loops: which one the cycle search reports depends on the order (in the
   implementation: on the hash seed, even for one and the same text) *)
Definition cex_two_loops : list stmt := hcl "const A = A; const B = B; pc = 0; Stat = 1;".
(* (c) a register declared twice: the first occurrence is processed normally (its initial value is
   checked), later ones are skipped after the duplicate report *)
Definition cex_dup_register : list stmt :=
  hcl "register xY { a : 8 = 0; } register xY { a : 8 = nosuch; } x_a = Y_a; pc = 0; Stat = 1;".

Example cex_diagnostics :
  gdiags cex_last_wins = [(RedeclaredWire, ["A"]); (UndeclaredWireRead, ["q"])] /\
  gdiags (rev cex_last_wins) = [(RedeclaredWire, ["A"]); (UndeclaredWireRead, ["p"])] /\
  gdiags cex_two_loops = [(WireLoop, ["A"])] /\
  gdiags (rev cex_two_loops) = [(WireLoop, ["B"])] /\
  gdiags cex_dup_register = [(DoubleDeclaredRegisterOutWire, ["Y_a"]); (DoubleDeclaredRegisterOutWire, ["x_a"])] /\
  gdiags (rev cex_dup_register) = [(UndeclaredWireRead, ["nosuch"]); (DoubleDeclaredRegisterOutWire, ["Y_a"]);
                                   (DoubleDeclaredRegisterOutWire, ["x_a"])].
Proof. vm_compute. repeat split; reflexivity. Qed.

Theorem diagnostics_order_free_refuted : ~ stmt_diagnostics_order_free.
Proof.
  intros H.
  destruct (build_program gen_features gen_fixed ascii_lower ascii_upper cex_two_loops) as [p|es] eqn:E1;
    [vm_compute in E1; discriminate E1|].
  destruct (build_program gen_features gen_fixed ascii_lower ascii_upper (rev cex_two_loops)) as [p'|es'] eqn:E2;
    [vm_compute in E2; discriminate E2|].
  pose proof (H cex_two_loops (rev cex_two_loops) es es' (Permutation_rev _) E1 E2) as HP.
  vm_compute in E1. injection E1 as <-. vm_compute in E2. injection E2 as <-.
  apply Permutation_length_1_inv in HP. discriminate HP.
Qed.

(* the first pass is clean exactly when the declarations and assignments are fault free *)
Definition first_pass_clean (fixed : list fixed_fn) (stmts : list stmt) : Prop :=
  NoDup (decl_names stmts) /\ (forall n, In n (decl_names stmts) -> ~ In n (fixed_names fixed)) /\
  NoDup (assigned_names stmts) /\
  (forall n, In n (assigned_names stmts) -> ~ In n (fixed_out_names fixed) /\ ~ In n (const_names stmts)) /\
  (forall n e r, In (n, e) (const_exprs stmts) -> In r (refs e) -> In r (const_names stmts)).

Lemma first_pass_clean_iff fixed stmts : first_pass_errs fixed stmts = [] <-> first_pass_clean fixed stmts.
Proof.
  unfold first_pass_errs. cbv zeta. set (s := fold_left (step1 fixed) stmts (init1 fixed)). split.
  - intros H. apply app_eq_nil in H. destruct H as [He H]. apply app_eq_nil in H. destruct H as [Hca Hcr].
    destruct (S1_decls_fresh fixed ascii_lower ascii_upper stmts He) as [D1 D2]. destruct (S1_assigned_fresh fixed ascii_lower ascii_upper stmts He) as [A1 A2].
    split; [exact D1|]. split; [exact D2|]. split; [exact A1|]. split.
    + intros n Hn. split; [apply A2; exact Hn|]. intros Hc.
      apply (S1_consts_has fixed ascii_lower ascii_upper stmts n) in Hc. fold s in Hc.
      rewrite (const_assigned_errors_nil s Hca n) in Hc; [discriminate Hc|].
      apply (S1_assigned_In fixed ascii_lower ascii_upper stmts n). exact Hn.
    + intros n e r Hne Hr. apply (S1_consts_has fixed ascii_lower ascii_upper stmts r). fold s.
      apply (const_ref_errors_nil s Hcr n e r); [|exact Hr].
      apply (S1_consts_exact fixed ascii_lower ascii_upper stmts n e He Hne).
  - intros (D1 & D2 & A1 & A2 & C1).
    assert (He : s_errs s = []).
    { apply step1_errs_ok; [reflexivity | exact D1 | exact D2 | exact A1 | intros n Hn; apply A2; exact Hn]. }
    assert (Hcn : NoDup (const_names stmts)).
    { apply (Permutation_NoDup (decl_names_perm stmts)) in D1. apply NoDup_app_l in D1. exact D1. }
    rewrite He. cbn [app].
    assert (Happ : forall a b : list err, a = [] -> b = [] -> a ++ b = []) by (intros a b -> ->; reflexivity).
    apply Happ.
    + unfold const_assigned_errors. apply flat_map_all_nil. intros n Hn.
      apply (S1_assigned_In fixed ascii_lower ascii_upper stmts n) in Hn. destruct (has (s_consts s) n) eqn:E; [|reflexivity].
      apply (S1_consts_has fixed ascii_lower ascii_upper stmts n) in E. destruct (A2 n Hn) as [_ H]. contradiction.
    + unfold const_ref_errors. apply flat_map_all_nil. intros [n e] Hne. cbn [snd].
      apply flat_map_all_nil. intros r Hr. apply (proj1 (nodup_str_In r (refs e))) in Hr.
      unfold s in Hne. rewrite (S1_consts_exact2 fixed stmts Hcn) in Hne.
      assert (Hc : has (s_consts s) r = true) by (apply (S1_consts_has fixed ascii_lower ascii_upper stmts r); apply (C1 n e r Hne Hr)).
      rewrite Hc. cbn [negb]. rewrite andb_false_r. reflexivity.
Qed.

Lemma first_pass_clean_perm fixed stmts stmts' :
  Permutation stmts stmts' -> first_pass_clean fixed stmts -> first_pass_clean fixed stmts'.
Proof.
  intros HP (D1 & D2 & A1 & A2 & C1). pose proof (Permutation_sym HP) as HP'.
  assert (Pd : Permutation (decl_names stmts) (decl_names stmts')) by (apply Permutation_flat_map; exact HP).
  split; [apply (Permutation_NoDup Pd); exact D1|].
  split; [intros n Hn; apply D2; apply (Permutation_in _ (Permutation_sym Pd) Hn)|].
  split; [apply (Permutation_NoDup (perm_assigned_names _ _ HP)); exact A1|].
  split.
  - intros n Hn. destruct (A2 n (Permutation_in _ (perm_assigned_names _ _ HP') Hn)) as [H1 H2].
    split; [exact H1|]. intros Hc. apply H2. apply (Permutation_in _ (perm_const_names _ _ HP') Hc).
  - intros n e r Hne Hr. apply (Permutation_in _ (perm_const_names _ _ HP)).
    apply (C1 n e r); [apply (Permutation_in _ (perm_const_exprs _ _ HP') Hne) | exact Hr].
Qed.

Theorem first_pass_order_free_holds : stmt_first_pass_order_free.
Proof.
  intros fixed stmts stmts' HP. rewrite !first_pass_clean_iff.
  split; apply first_pass_clean_perm; [exact HP | apply Permutation_sym; exact HP].
Qed.

(* ================================================================================== *)
(* Part 5: non-vacuity examples for (1)-(3)                                            *)
(* ================================================================================== *)
(* the pipeline example of CompleteProofs.v, and its statements in reverse order *)
Example ex_order_perm : Permutation (hcl ex_pipeline) (rev (hcl ex_pipeline)).
Proof. apply Permutation_rev. Qed.

Example ex_order_accepted :
  is_ok (gbuild (hcl ex_pipeline)) = true /\ is_ok (gbuild (rev (hcl ex_pipeline))) = true /\
  gbuild (hcl ex_pipeline) <> gbuild (rev (hcl ex_pipeline)).
Proof. split; [vm_compute; reflexivity|]. split; [vm_compute; reflexivity|]. vm_compute. discriminate. Qed.

Example ex_order_wf : Forall wf_stmt (hcl ex_pipeline).
Proof.
  vm_compute. repeat (constructor; [repeat (constructor; try (split; [|split]); try (cbv; intros; discriminate);
                                             try exact I) |]). constructor.
Qed.

Example ex_order_simulation :
  forall p p', gbuild (hcl ex_pipeline) = Ok p -> gbuild (rev (hcl ex_pipeline)) = Ok p' ->
    same_program p p' /\
    forall n, same_result (run_cycles gen_features n default_options p)
                          (run_cycles gen_features n (set_debug default_options) p').
Proof.
  intros p p' Hb Hb'. split.
  - apply (program_order_free_holds gen_features ascii_lower ascii_upper _ _ p p' ex_order_perm Hb Hb').
  - intros n. apply (simulation_order_free_holds gen_features ascii_lower ascii_upper _ _ p p'
                       ex_order_wf ex_order_perm Hb Hb').
Qed.

(* two banks sharing the output letter Y: swapping their declarations swaps their lines in the
   dump (and nothing else: the machine states are the same by the theorem) *)
Definition ex_two_banks : list stmt :=
  hcl "register xY { a : 8 = 1; } register zY { b : 8 = 2; } x_a = Y_a + 1; z_b = Y_b + Y_a; pc = 0; Stat = [ Y_a == 3 : 2; 1 : 1 ];".

Definition dump_after (stmts : list stmt) (n : nat) : string :=
  match gbuild stmts with
  | Ok p => match run_cycles gen_features n default_options p with
            | Ok s => match dump_y86 default_options p s with Ok t => t | Err _ => "" end
            | Err _ => ""
            end
  | Err _ => ""
  end.

Example ex_dump_differs :
  dump_after ex_two_banks 2 <> dump_after (rev ex_two_banks) 2 /\ dump_after ex_two_banks 2 <> "".
Proof. vm_compute. split; discriminate. Qed.

Print Assumptions acceptance_order_free_holds.
Print Assumptions program_order_free_holds.
Print Assumptions simulation_order_free_holds.
Print Assumptions run_order_free_holds.
Print Assumptions dump_order_free_holds.
Print Assumptions dump_banks_same_lines_holds.
Print Assumptions rejection_order_free_holds.
Print Assumptions diagnostics_order_free_refuted.
Print Assumptions ex_order_simulation.
Print Assumptions first_pass_order_free_holds.
