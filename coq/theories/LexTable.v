(* The lexer's tables, regenerated from src/lexer.rs on every run (tools/translate.py:
   gen_lex_simple, gen_lex_special, gen_keywords in Generated.v), against the hand-written model
   Lexer.lex.  Everything here is about ASCII characters, for which the Unicode classification
   parameter is never consulted: the statements hold for every classification. *)
From HclV Require Import Base Expr Lexer LexParseSpec Generated.
Open Scope string_scope.
Open Scope list_scope.
Open Scope N_scope.

(* the name of the Rust variant Tok::X of a model token *)
Definition token_name (t : token) : string :=
  match t with
  | TAndAnd => "AndAnd" | TOrOr => "OrOr" | TEqual => "Equal" | TNotEqual => "NotEqual"
  | TGreaterEqual => "GreaterEqual" | TGreater => "Greater" | TLessEqual => "LessEqual" | TLess => "Less"
  | TAssign => "Assign" | TRightShift => "RightShift" | TLeftShift => "LeftShift"
  | TComma => "Comma" | TSemicolon => "Semicolon" | TPlus => "Plus" | TMinus => "Minus"
  | TAnd => "And" | TOr => "Or" | TXor => "Xor" | TTimes => "Times" | TDivide => "Divide" | TNot => "Not"
  | TLit _ => "Constant"
  | TOpenParen => "OpenParen" | TCloseParen => "CloseParen" | TOpenBrace => "OpenBrace"
  | TCloseBrace => "CloseBrace" | TOpenBracket => "OpenBracket" | TCloseBracket => "CloseBracket"
  | TColon => "Colon" | TComplement => "Complement" | TDotDot => "DotDot"
  | TWire => "Wire" | TConst => "Const" | TRegister => "Register" | TIn => "In"
  | TIdentifier _ => "Identifier"
  end.

Definition ascii_chars : list N := map N.of_nat (seq 0 128).

(* observable form of a lexing result: (start, variant name, end) of every token; the error as
   (kind number, offset) *)
Definition obs_tok (t : nat * token * nat) : N * string * N :=
  (N.of_nat (fst (fst t)), token_name (snd (fst t)), N.of_nat (snd t)).
Definition obs_err (e : lex_error) : N * N :=
  match e with
  | LexLexicalError l => (0, N.of_nat l)
  | LexUnterminatedComment l => (1, N.of_nat l)
  | LexInvalidConstant s _ => (2, N.of_nat s)
  end.
Definition obs (r : list (nat * token * nat) * option lex_error) : list (N * string * N) * option (N * N) :=
  (map obs_tok (fst r), option_map obs_err (snd r)).

Definition tok_eqb (a b : N * string * N) : bool :=
  (fst (fst a) =? fst (fst b)) && String.eqb (snd (fst a)) (snd (fst b)) && (snd a =? snd b).
Fixpoint toks_eqb (a b : list (N * string * N)) : bool :=
  match a, b with
  | [], [] => true
  | x :: r, y :: t => tok_eqb x y && toks_eqb r t
  | _, _ => false
  end.
Definition err_eqb (a b : option (N * N)) : bool :=
  match a, b with
  | None, None => true
  | Some (k, l), Some (k', l') => (k =? k') && (l =? l')
  | _, _ => false
  end.
Definition obs_eqb (a b : list (N * string * N) * option (N * N)) : bool :=
  toks_eqb (fst a) (fst b) && err_eqb (snd a) (snd b).

Section LexTable.
  Variable uc : N -> uclass.

  Definition first_is (bytes : list N) (t : N * string * N) : bool :=
    match fst (obs (lex uc bytes)) with
    | x :: _ => tok_eqb x t
    | [] => false
    end.

  (* one row "c => simple_token(T)" / "c => choose_token(T, [(d, T2) ...])" of lexer.rs:
     c alone is the token T; c followed by a listed d is the two-character token; c followed by any
     other ASCII character still begins with the one-character token T *)
  Definition entry_ok (e : N * string * list (N * string)) : bool :=
    let '(c, name, alts) := e in
    obs_eqb (obs (lex uc [c])) ([(0, name, 1)], None) &&
    forallb (fun d =>
               match find (fun a => fst a =? d) alts with
               | Some (_, name2) => obs_eqb (obs (lex uc [c; d])) ([(0, name2, 2)], None)
               | None => first_is [c; d] (0, name, 1)
               end) ascii_chars.

  (* an ASCII character that no row lists and that is not handled by code: blank -> nothing, letter
     or '_' -> an identifier, digit -> a constant, anything else -> the '_ =>' arm: LexicalError *)
  Definition other_ok (simple : list (N * string * list (N * string))) (special : list N) (c : N) : bool :=
    if existsb (fun e => fst (fst e) =? c) simple || existsb (N.eqb c) special then true
    else if ((9 <=? c) && (c <=? 13)) || (c =? 32) then obs_eqb (obs (lex uc [c])) ([], None)
    else if ((65 <=? c) && (c <=? 90)) || ((97 <=? c) && (c <=? 122)) || (c =? 95) then
      obs_eqb (obs (lex uc [c])) ([(0, "Identifier", 1)], None)
    else if (48 <=? c) && (c <=? 57) then obs_eqb (obs (lex uc [c])) ([(0, "Constant", 1)], None)
    else obs_eqb (obs (lex uc [c])) ([], Some (0, 0)).

  Definition keyword_ok (k : string * string) : bool :=
    let b := bytes_of_string (fst k) in
    obs_eqb (obs (lex uc b)) ([(0, snd k, N.of_nat (List.length b))], None).

  Definition lex_table_ok : bool :=
    match gen_lex_simple, gen_lex_special, gen_keywords with
    | Some simple, Some special, Some kws =>
        forallb entry_ok simple && forallb (other_ok simple special) ascii_chars &&
        (* the characters handled by code are exactly # / . *)
        toks_eqb (map (fun c => (c, "", 0)) special) [(35, "", 0); (47, "", 0); (46, "", 0)] &&
        forallb keyword_ok kws
    | _, _, _ => false
    end.
End LexTable.

(* ---- statements ---------------------------------------------------------------------------- *)
(* lexer.rs could be read, and the model lexer agrees with every row of its punctuation table, with
   its default arm, and with its keyword list *)
Definition stmt_lex_table_matches : Prop := forall uc, lex_table_ok uc = true.

(* there are no further keywords: any other name is an identifier *)
Definition stmt_no_other_keywords : Prop :=
  forall kws name,
    gen_keywords = Some kws ->
    ~ In name (map (fun k => bytes_of_string (fst k)) kws) ->
    resolve_identifier name = TIdentifier name.
