(* Proofs of the statements of LexLocSpec.v: the lexer characterised (every text is items and a
   final separator, or items, a separator and a faulty rest), the meaning of the error offsets,
   and where the rendered diagnostic points. *)
From HclV Require Import Base Expr Build Yo YoProofs Region RegionSpec RegionProofs RegionMultiSpec
                         RegionMultiProofs Generated.
From HclV Require Import Lexer Parser LexParseSpec LexParseProofs TriviaSpec TriviaProofs
                         FrontTotalSpec FrontTotalProofs LexLocSpec.
From Coq Require Import ZifyBool ZifyNat ZifyN.
Open Scope list_scope.
Open Scope N_scope.

Local Notation text_of := TriviaSpec.text_of.

Lemma ulen_blen cs : ulen cs = blen cs.
Proof. reflexivity. Qed.

(* ====================================================================================== *)
(* A. texts, without the lexer                                                            *)
(* ====================================================================================== *)

(* ---- maximal runs --------------------------------------------------------------------- *)
Lemma span_split (p : N -> bool) (l : list N) :
  exists body next, l = body ++ next /\ forallb p body = true /\ head_is p next = false.
Proof.
  induction l as [| c r IH].
  - exists [], []. repeat split.
  - destruct (p c) eqn:Hc.
    + destruct IH as (body & next & Hr & Hb & Hn).
      exists (c :: body), next. split; [rewrite Hr; reflexivity |]. split; [| exact Hn].
      cbn [forallb]. rewrite Hc, Hb. reflexivity.
    + exists [], (c :: r). split; [reflexivity |]. split; [reflexivity | exact Hc].
Qed.

Lemma head_is_next (p : N -> bool) (next : list N) :
  head_is p next = false -> match next with [] => True | x :: _ => p x = false end.
Proof. destruct next; [intros _; exact I | intros H; exact H]. Qed.

Lemma has_close_nil : has_close [] = false.
Proof. reflexivity. Qed.

Lemma has_close_split (l : list N) :
  has_close l = true -> exists body rest, l = body ++ [42; 47] ++ rest /\ has_close body = false.
Proof.
  induction l as [| a r IH]; intros H; [discriminate H |].
  rewrite has_close_cons_eq in H.
  destruct ((a =? 42) && hd47 r) eqn:Hhd.
  - apply andb_true_iff in Hhd. destruct Hhd as [Ha Hr]. apply N.eqb_eq in Ha. subst a.
    destruct r as [| b r']; [discriminate Hr |]. cbn [hd47] in Hr. apply N.eqb_eq in Hr. subst b.
    exists [], r'. split; reflexivity.
  - cbn [orb] in H. destruct (IH H) as (body & rest & Hr & Hb).
    exists (a :: body), rest. split; [rewrite Hr; reflexivity |].
    rewrite has_close_cons_eq, Hb, orb_false_r.
    destruct (a =? 42) eqn:Ha; [| reflexivity]. cbn [andb] in Hhd |- *.
    destruct body as [| b body']; [reflexivity |].
    rewrite Hr in Hhd. cbn [app hd47] in Hhd |- *. exact Hhd.
Qed.

(* ---- separators ----------------------------------------------------------------------- *)
Lemma trivia_app uc a : trivia uc a -> forall b, trivia uc b -> trivia uc (a ++ b).
Proof.
  induction 1 as [| c r Hc _ IH | body nl r Hbody Hnl _ IH | body nl r Hbody Hnl _ IH | body r Hbody _ IH];
    intros b Hb.
  - exact Hb.
  - cbn [app]. apply tv_white; [exact Hc | apply IH; exact Hb].
  - replace (([35] ++ body ++ [nl] ++ r) ++ b) with ([35] ++ body ++ [nl] ++ (r ++ b))
      by (rewrite <- !app_assoc; reflexivity).
    apply tv_hash; [exact Hbody | exact Hnl | apply IH; exact Hb].
  - replace (([47; 47] ++ body ++ [nl] ++ r) ++ b) with ([47; 47] ++ body ++ [nl] ++ (r ++ b))
      by (rewrite <- !app_assoc; reflexivity).
    apply tv_slashes; [exact Hbody | exact Hnl | apply IH; exact Hb].
  - replace (([47; 42] ++ body ++ [42; 47] ++ r) ++ b) with ([47; 42] ++ body ++ [42; 47] ++ (r ++ b))
      by (rewrite <- !app_assoc; reflexivity).
    apply tv_block; [exact Hbody | apply IH; exact Hb].
Qed.

Lemma trivia_app_final uc a b : trivia uc a -> trivia_final uc b -> trivia_final uc (a ++ b).
Proof.
  intros Ha [s Hs | s body Hs Hbody | s body Hs Hbody].
  - apply tf_closed. apply trivia_app; assumption.
  - rewrite app_assoc. apply tf_hash; [apply trivia_app; assumption | exact Hbody].
  - rewrite app_assoc. apply tf_slashes; [apply trivia_app; assumption | exact Hbody].
Qed.

Lemma not_newline_cases nl : not_newline nl = false -> nl = 10 \/ nl = 13.
Proof. unfold not_newline. lia. Qed.

(* ---- the first item of a text ----------------------------------------------------------- *)
Inductive first_item (uc : N -> uclass) (T : list N) : Prop :=
| fi_end : trivia_final uc T -> first_item uc T
| fi_tok sep t s next :
    T = sep ++ s ++ next -> trivia uc sep -> lspells uc t s -> may_follow uc t s next ->
    (List.length next < List.length T)%nat -> first_item uc T
| fi_err sep bad e : T = sep ++ bad -> trivia uc sep -> lex_fault uc e bad -> first_item uc T.

Lemma first_item_skip uc a T : trivia uc a -> first_item uc T -> first_item uc (a ++ T).
Proof.
  intros Ha [Hf | sep t s next HT Hsep Hsp Hmf Hlen | sep bad e HT Hsep Hbad].
  - apply fi_end. apply trivia_app_final; assumption.
  - apply (fi_tok uc _ (a ++ sep) t s next).
    + rewrite HT, <- app_assoc. reflexivity.
    + apply trivia_app; assumption.
    + exact Hsp.
    + exact Hmf.
    + rewrite app_length. lia.
  - apply (fi_err uc _ (a ++ sep) bad e).
    + rewrite HT, <- app_assoc. reflexivity.
    + apply trivia_app; assumption.
    + exact Hbad.
Qed.

(* a token with a fixed spelling *)
Lemma fixed_item uc T t (str : string) next :
  fixed_spelling t = Some str -> T = bytes_of_string str ++ next ->
  may_follow uc t (bytes_of_string str) next -> str <> EmptyString -> first_item uc T.
Proof.
  intros Hfix HT Hmf Hne.
  apply (fi_tok uc T [] t (bytes_of_string str) next).
  - exact HT.
  - apply tv_nil.
  - apply ls_std. apply sp_fixed. exact Hfix.
  - exact Hmf.
  - rewrite HT, app_length. destruct str; [congruence |]. cbn [bytes_of_string List.length]. lia.
Qed.

Lemma utf8_char_head_big c : 128 <= c -> exists b r, utf8_char c = b :: r /\ 192 <= b.
Proof.
  intros Hc. unfold utf8_char.
  destruct (N.ltb_spec c 128); [lia |].
  destruct (c <? 2048); [eexists; eexists; split; [reflexivity | lia] |].
  destruct (c <? 65536); eexists; eexists; (split; [reflexivity | lia]).
Qed.

Lemma utf8_eq_ascii (cs : list N) : forall l,
  utf8 cs = l -> forallb (fun b => b <? 128) l = true -> cs = l.
Proof.
  induction cs as [| c cs IH]; intros l Hu Hl.
  - cbn in Hu. exact Hu.
  - cbn [utf8 flat_map] in Hu. destruct (N.ltb_spec c 128) as [Hc | Hc].
    + unfold utf8_char in Hu. apply N.ltb_lt in Hc. rewrite Hc in Hu. cbn [app] in Hu.
      destruct l as [| b l']; [discriminate Hu |]. injection Hu as Hb Hr. subst b.
      apply forallb_cons_true in Hl. f_equal. apply IH; [exact Hr | apply Hl].
    + destruct (utf8_char_head_big c Hc) as (b & r & Hb & Hbig). rewrite Hb in Hu.
      cbn [app] in Hu. destruct l as [| b' l']; [discriminate Hu |]. injection Hu as Hb' _. subst b'.
      apply forallb_cons_true in Hl. destruct Hl as [Hlt _]. lia.
Qed.

Lemma word_item uc c cs next T :
  T = (c :: cs) ++ next -> is_start_identifier_char uc c = true ->
  forallb (is_identifier_char uc) cs = true -> head_is (is_identifier_char uc) next = false ->
  first_item uc T.
Proof.
  intros HT Hc Hcs Hnext.
  assert (Hmf : forall t, (match t with TIdentifier _ | TWire | TConst | TRegister | TIn => True | _ => False end) ->
                          forall s, may_follow uc t s next).
  { intros t Ht s. destruct next as [| x next']; [exact I |]. cbn [head_is] in Hnext.
    destruct t; try contradiction; exact Hnext. }
  assert (Hlen : (List.length next < List.length T)%nat).
  { rewrite HT, app_length. cbn [List.length]. lia. }
  destruct (in_dec (list_eq_dec N.eq_dec) (utf8 (c :: cs)) keywords) as [Hin | Hnin].
  - assert (Hkw : forall (str : string) t, utf8 (c :: cs) = bytes_of_string str ->
               forallb (fun b => b <? 128) (bytes_of_string str) = true ->
               fixed_spelling t = Some str ->
               (match t with TIdentifier _ | TWire | TConst | TRegister | TIn => True | _ => False end) ->
               first_item uc T).
    { intros str t Hu Hasc Hfix Ht.
      apply (fi_tok uc T [] t (c :: cs) next); try assumption.
      - apply tv_nil.
      - apply ls_std. rewrite (utf8_eq_ascii _ _ Hu Hasc). apply sp_fixed. exact Hfix.
      - apply Hmf. exact Ht. }
    unfold keywords in Hin. cbn [map In] in Hin.
    destruct Hin as [H | [H | [H | [H | []]]]]; symmetry in H.
    + apply (Hkw "wire"%string TWire H); [reflexivity | reflexivity | exact I].
    + apply (Hkw "const"%string TConst H); [reflexivity | reflexivity | exact I].
    + apply (Hkw "register"%string TRegister H); [reflexivity | reflexivity | exact I].
    + apply (Hkw "in"%string TIn H); [reflexivity | reflexivity | exact I].
  - apply (fi_tok uc T [] (TIdentifier (utf8 (c :: cs))) (c :: cs) next); try assumption.
    + apply tv_nil.
    + apply ls_std. apply sp_ident; assumption.
    + apply Hmf. exact I.
Qed.

(* ---- literals --------------------------------------------------------------------------- *)
Lemma span_nonempty (p : N -> bool) h r body next :
  h :: r = body ++ next -> p h = true -> head_is p next = false -> body <> [].
Proof.
  intros H Hh Hn Hb. subst body. cbn [app] in H. subst next. cbn [head_is] in Hn. congruence.
Qed.

Lemma number_item uc d r T : T = d :: r -> dec_digit d = true -> first_item uc T.
Proof.
  intros HT Hd.
  assert (Hlen : forall (s next : list N), T = s ++ next -> s <> [] -> (List.length next < List.length T)%nat).
  { intros s next E Hs. rewrite E, app_length. destruct s; [congruence | cbn [List.length]; lia]. }
  destruct r as [| x r2].
  { (* a single digit at the end of the text *)
    apply (fi_tok uc T [] (TLit (mkV (positional 10 [d]) Unl)) [d] []).
    - exact HT.
    - apply tv_nil.
    - apply ls_std. apply sp_decimal; [discriminate | cbn [forallb]; rewrite Hd; reflexivity |].
      cbn [positional List.length]. unfold dec_digit in Hd. unfold digit_value, two128.
      destruct (N.leb_spec d 57); lia.
    - exact I.
    - subst T. cbn [List.length]. lia. }
  destruct (N.eq_dec x 120) as [Hx | Hx120].
  { subst x. destruct r2 as [| h r3].
    { apply (fi_err uc T [] [d; 120] (LexLexicalError 2)); [exact HT | apply tv_nil |].
      apply lf_prefix_end; [exact Hd | left; reflexivity]. }
    destruct (hex_digit h) eqn:Hh.
    2: { apply (fi_err uc T [] (d :: 120 :: h :: r3) (LexLexicalError 2)); [exact HT | apply tv_nil |].
         apply lf_prefix_hex; assumption. }
    destruct (span_split hex_digit (h :: r3)) as (ds & next & Hsp & Hds & Hnext).
    pose proof (span_nonempty hex_digit h r3 ds next Hsp Hh Hnext) as Hne.
    assert (HT' : T = ([d; 120] ++ ds) ++ next).
    { rewrite HT, Hsp. rewrite <- app_assoc. reflexivity. }
    destruct (N.ltb_spec (positional 16 ds) two128) as [Hv | Hv].
    - apply (fi_tok uc T [] (TLit (mkV (positional 16 ds) Unl)) ([d; 120] ++ ds) next).
      + exact HT'.
      + apply tv_nil.
      + apply ls_hex; assumption.
      + destruct next as [| c' next']; [exact I |]. cbn [head_is] in Hnext.
        cbn [may_follow clash app]. destruct ds as [| h' ds']; [congruence |].
        cbn [app]. exact Hnext.
      + apply (Hlen _ _ HT'). discriminate.
    - apply (fi_err uc T [] ([d; 120] ++ ds ++ next) (LexInvalidConstant 0 (2 + List.length ds)));
        [rewrite HT, Hsp; reflexivity | apply tv_nil |].
      apply lf_hex; assumption. }
  destruct (N.eq_dec x 98) as [Hx | Hx98].
  { subst x. destruct r2 as [| h r3].
    { apply (fi_err uc T [] [d; 98] (LexLexicalError 2)); [exact HT | apply tv_nil |].
      apply lf_prefix_end; [exact Hd | right; reflexivity]. }
    destruct (bin_digit h) eqn:Hh.
    2: { apply (fi_err uc T [] (d :: 98 :: h :: r3) (LexLexicalError 2)); [exact HT | apply tv_nil |].
         apply lf_prefix_bin; assumption. }
    destruct (span_split bin_digit (h :: r3)) as (ds & next & Hsp & Hds & Hnext).
    pose proof (span_nonempty bin_digit h r3 ds next Hsp Hh Hnext) as Hne.
    assert (HT' : T = ([d; 98] ++ ds) ++ next).
    { rewrite HT, Hsp. rewrite <- app_assoc. reflexivity. }
    destruct (head_is dec_digit next) eqn:Hdec.
    - destruct next as [| c r']; [discriminate Hdec |]. cbn [head_is] in Hdec, Hnext.
      apply (fi_err uc T [] ([d; 98] ++ ds ++ c :: r') (LexLexicalError (2 + List.length ds)));
        [rewrite HT, Hsp; reflexivity | apply tv_nil |].
      apply lf_bin_then_dec; assumption.
    - destruct (le_lt_dec (List.length ds) 128) as [Hn | Hn].
      + apply (fi_tok uc T [] (TLit (mkV (positional 2 ds) (Bits (N.of_nat (List.length ds)))))
                      ([d; 98] ++ ds) next).
        * exact HT'.
        * apply tv_nil.
        * apply ls_bin; assumption.
        * destruct next as [| c' next']; [exact I |]. cbn [head_is] in Hdec.
          cbn [may_follow clash app]. destruct ds as [| h' ds']; [congruence |].
          cbn [app]. exact Hdec.
        * apply (Hlen _ _ HT'). discriminate.
      + apply (fi_err uc T [] ([d; 98] ++ ds ++ next) (LexInvalidConstant 0 (2 + List.length ds)));
          [rewrite HT, Hsp; reflexivity | apply tv_nil |].
        apply lf_bin; assumption. }
  (* decimal digits *)
  destruct (span_split dec_digit (d :: x :: r2)) as (ds & next & Hsp & Hds & Hnext).
  pose proof (span_nonempty dec_digit d (x :: r2) ds next Hsp Hd Hnext) as Hne.
  assert (HT' : T = ds ++ next) by (rewrite HT; exact Hsp).
  destruct (N.ltb_spec (positional 10 ds) two128) as [Hv | Hv].
  - apply (fi_tok uc T [] (TLit (mkV (positional 10 ds) Unl)) ds next).
    + exact HT'.
    + apply tv_nil.
    + apply ls_std. apply sp_decimal; assumption.
    + destruct next as [| c' next']; [exact I |]. cbn [head_is] in Hnext.
      cbn [may_follow clash].
      destruct ds as [| d1 [| d2 ds']]; [congruence | |].
      * cbn [app] in Hsp. assert (Hc' : c' = x) by congruence. subst c'.
        rewrite Hnext. cbn [orb]. apply orb_false_iff. split; apply N.eqb_neq; assumption.
      * apply forallb_cons_true in Hds. destruct Hds as [_ Hds].
        apply forallb_cons_true in Hds. destruct Hds as [Hd2 _].
        assert (H2 : (d2 =? 120) = false) by (unfold dec_digit in Hd2; lia).
        rewrite H2. exact Hnext.
    + apply (Hlen _ _ HT'). exact Hne.
  - apply (fi_err uc T [] (ds ++ next) (LexInvalidConstant 0 (List.length ds)));
      [exact HT' | apply tv_nil |].
    apply lf_dec; assumption.
Qed.

(* ---- operators and punctuation ------------------------------------------------------------ *)
Lemma simple_item uc T c r t (st : string) :
  T = c :: r -> fixed_spelling t = Some st -> bytes_of_string st = [c] ->
  (forall s x, clash uc t s x = false) -> first_item uc T.
Proof.
  intros HT Hfix Hst Hcl.
  apply (fixed_item uc T t st r Hfix).
  - rewrite Hst. exact HT.
  - destruct r as [| x r']; [exact I | apply Hcl].
  - intros E. subst st. discriminate Hst.
Qed.

Lemma two_item uc T c r t (st : string) o1 t1 (st1 : string) o2 t2 (st2 : string) :
  T = c :: r ->
  fixed_spelling t = Some st -> bytes_of_string st = [c] ->
  fixed_spelling t1 = Some st1 -> bytes_of_string st1 = [c; o1] ->
  fixed_spelling t2 = Some st2 -> bytes_of_string st2 = [c; o2] ->
  (forall s x, clash uc t1 s x = false) -> (forall s x, clash uc t2 s x = false) ->
  (forall s x, x <> o1 -> x <> o2 -> clash uc t s x = false) -> first_item uc T.
Proof.
  intros HT Hfix Hst Hfix1 Hst1 Hfix2 Hst2 Hcl1 Hcl2 Hcl.
  destruct r as [| x r'].
  - apply (fixed_item uc T t st [] Hfix); [rewrite Hst; exact HT | exact I |].
    intros E. subst st. discriminate Hst.
  - destruct (N.eq_dec x o1) as [-> | H1].
    { apply (fixed_item uc T t1 st1 r' Hfix1); [rewrite Hst1; exact HT | |].
      - destruct r'; [exact I | apply Hcl1].
      - intros E. subst st1. discriminate Hst1. }
    destruct (N.eq_dec x o2) as [-> | H2].
    { apply (fixed_item uc T t2 st2 r' Hfix2); [rewrite Hst2; exact HT | |].
      - destruct r'; [exact I | apply Hcl2].
      - intros E. subst st2. discriminate Hst2. }
    apply (fixed_item uc T t st (x :: r') Hfix); [rewrite Hst; exact HT | |].
    + apply Hcl; assumption.
    + intros E. subst st. discriminate Hst.
Qed.

Lemma eqb_ne x o : x <> o -> (x =? o) = false.
Proof. intros H. apply N.eqb_neq. exact H. Qed.

(* ---- comments ----------------------------------------------------------------------------- *)
Lemma line_comment_item uc T (opener : list N) r :
  T = opener ++ r -> (opener = [35] \/ opener = [47; 47]) ->
  (forall T', (List.length T' < List.length T)%nat -> first_item uc T') -> first_item uc T.
Proof.
  intros HT Hop IH.
  destruct (span_split not_newline r) as (body & next & Hr & Hbody & Hnext).
  destruct next as [| nl next'].
  - rewrite app_nil_r in Hr. subst r. apply fi_end. rewrite HT.
    destruct Hop as [-> | ->].
    + apply (tf_hash uc [] body); [apply tv_nil | exact Hbody].
    + apply (tf_slashes uc [] body); [apply tv_nil | exact Hbody].
  - cbn [head_is] in Hnext. apply not_newline_cases in Hnext.
    assert (Hlen : (List.length next' < List.length T)%nat).
    { rewrite HT, Hr, !app_length. cbn [List.length]. lia. }
    assert (HT' : T = (opener ++ body ++ [nl] ++ []) ++ next').
    { rewrite HT, Hr. rewrite <- !app_assoc. reflexivity. }
    rewrite HT'. apply first_item_skip; [| apply IH; exact Hlen].
    destruct Hop as [-> | ->].
    + apply tv_hash; [exact Hbody | exact Hnext | apply tv_nil].
    + apply tv_slashes; [exact Hbody | exact Hnext | apply tv_nil].
Qed.

Lemma slash_item uc T r :
  T = 47 :: r ->
  (forall T', (List.length T' < List.length T)%nat -> first_item uc T') -> first_item uc T.
Proof.
  intros HT IH.
  destruct r as [| x r'].
  { apply (fixed_item uc T TDivide "/"%string []); [reflexivity | exact HT | exact I | discriminate]. }
  destruct (N.eq_dec x 47) as [-> | H47].
  { apply (line_comment_item uc T [47; 47] r'); [exact HT | right; reflexivity | exact IH]. }
  destruct (N.eq_dec x 42) as [-> | H42].
  { destruct (has_close r') eqn:Hc.
    - destruct (has_close_split r' Hc) as (body & rest & Hr & Hb).
      assert (HT' : T = ([47; 42] ++ body ++ [42; 47] ++ []) ++ rest).
      { rewrite HT, Hr. rewrite <- !app_assoc. reflexivity. }
      rewrite HT'. apply first_item_skip.
      + apply tv_block; [exact Hb | apply tv_nil].
      + apply IH. rewrite HT, Hr. cbn [List.length]. rewrite !app_length. cbn [List.length]. lia.
    - apply (fi_err uc T [] ([47; 42] ++ r') (LexUnterminatedComment 0)); [exact HT | apply tv_nil |].
      apply lf_comment. exact Hc. }
  apply (fixed_item uc T TDivide "/"%string (x :: r')); [reflexivity | exact HT | | discriminate].
  cbn [may_follow clash]. rewrite (eqb_ne _ _ H47), (eqb_ne _ _ H42). reflexivity.
Qed.

(* ---- every text begins with a separator and then ends, or has a token, or a fault ---------- *)
Lemma punct_item uc T c r :
  T = c :: r -> In c punct_chars ->
  (forall T', (List.length T' < List.length T)%nat -> first_item uc T') -> first_item uc T.
Proof.
  intros HT Hin IH. unfold punct_chars in Hin. cbn [In] in Hin.
  repeat (destruct Hin as [Hin | Hin]; [symmetry in Hin; subst c | ]); [.. | contradiction].
  - (* # *) apply (line_comment_item uc T [35] r); [exact HT | left; reflexivity | exact IH].
  - (* / *) apply (slash_item uc T r HT IH).
  - (* & *)
    apply (two_item uc T 38 r TAnd "&"%string 38 TAndAnd "&&"%string 38 TAndAnd "&&"%string HT);
      try reflexivity.
    intros s x H1 _. cbn [clash]. apply eqb_ne. exact H1.
  - (* | *)
    apply (two_item uc T 124 r TOr "|"%string 124 TOrOr "||"%string 124 TOrOr "||"%string HT);
      try reflexivity.
    intros s x H1 _. cbn [clash]. apply eqb_ne. exact H1.
  - (* = *)
    apply (two_item uc T 61 r TAssign "="%string 61 TEqual "=="%string 61 TEqual "=="%string HT);
      try reflexivity.
    intros s x H1 _. cbn [clash]. apply eqb_ne. exact H1.
  - (* > *)
    apply (two_item uc T 62 r TGreater ">"%string 62 TRightShift ">>"%string 61 TGreaterEqual ">="%string HT);
      try reflexivity.
    intros s x H1 H2. cbn [clash]. rewrite (eqb_ne _ _ H1), (eqb_ne _ _ H2). reflexivity.
  - (* < *)
    apply (two_item uc T 60 r TLess "<"%string 60 TLeftShift "<<"%string 61 TLessEqual "<="%string HT);
      try reflexivity.
    intros s x H1 H2. cbn [clash]. rewrite (eqb_ne _ _ H1), (eqb_ne _ _ H2). reflexivity.
  - (* ! *)
    apply (two_item uc T 33 r TNot "!"%string 61 TNotEqual "!="%string 61 TNotEqual "!="%string HT);
      try reflexivity.
    intros s x H1 _. cbn [clash]. apply eqb_ne. exact H1.
  - apply (simple_item uc T 58 r TColon ":"%string HT); reflexivity.
  - apply (simple_item uc T 126 r TComplement "~"%string HT); reflexivity.
  - apply (simple_item uc T 44 r TComma ","%string HT); reflexivity.
  - apply (simple_item uc T 59 r TSemicolon ";"%string HT); reflexivity.
  - (* . *)
    destruct (head_is (N.eqb 46) r) eqn:Hd.
    + destruct r as [| x r']; [discriminate Hd |]. cbn [head_is] in Hd. apply N.eqb_eq in Hd. subst x.
      apply (fixed_item uc T TDotDot ".."%string r'); [reflexivity | exact HT | | discriminate].
      destruct r'; [exact I | reflexivity].
    + apply (fi_err uc T [] (46 :: r) (LexLexicalError 0)); [exact HT | apply tv_nil |].
      apply lf_dot. exact Hd.
  - apply (simple_item uc T 43 r TPlus "+"%string HT); reflexivity.
  - apply (simple_item uc T 45 r TMinus "-"%string HT); reflexivity.
  - apply (simple_item uc T 94 r TXor "^"%string HT); reflexivity.
  - apply (simple_item uc T 42 r TTimes "*"%string HT); reflexivity.
  - apply (simple_item uc T 40 r TOpenParen "("%string HT); reflexivity.
  - apply (simple_item uc T 41 r TCloseParen ")"%string HT); reflexivity.
  - apply (simple_item uc T 91 r TOpenBracket "["%string HT); reflexivity.
  - apply (simple_item uc T 93 r TCloseBracket "]"%string HT); reflexivity.
  - apply (simple_item uc T 123 r TOpenBrace "{"%string HT); reflexivity.
  - apply (simple_item uc T 125 r TCloseBrace "}"%string HT); reflexivity.
Qed.

Lemma first_item_exists uc : forall n T, (List.length T <= n)%nat -> first_item uc T.
Proof.
  induction n as [| n IHn]; intros T Hn.
  - destruct T; [| cbn [List.length] in Hn; lia]. apply fi_end. apply tf_closed. apply tv_nil.
  - destruct T as [| c r]; [apply fi_end; apply tf_closed; apply tv_nil |].
    cbn [List.length] in Hn.
    assert (IH : forall T', (List.length T' < List.length (c :: r))%nat -> first_item uc T').
    { intros T' H. apply IHn. cbn [List.length] in H. lia. }
    destruct (is_whitespace uc c) eqn:Hw.
    { change (c :: r) with ([c] ++ r). apply first_item_skip.
      - apply tv_white; [exact Hw | apply tv_nil].
      - apply IHn. lia. }
    destruct (is_start_identifier_char uc c) eqn:Hs.
    { destruct (span_split (is_identifier_char uc) r) as (cs & next & Hr & Hcs & Hnext).
      apply (word_item uc c cs next); [rewrite Hr; reflexivity | assumption ..]. }
    destruct (dec_digit c) eqn:Hd.
    { apply (number_item uc c r); [reflexivity | exact Hd]. }
    destruct (existsb (N.eqb c) punct_chars) eqn:Hp.
    { apply existsb_exists in Hp. destruct Hp as (x & Hin & Hx). apply N.eqb_eq in Hx. subst x.
      apply (punct_item uc (c :: r) c r eq_refl Hin IH). }
    apply (fi_err uc (c :: r) [] (c :: r) (LexLexicalError 0)); [reflexivity | apply tv_nil |].
    apply lf_char. unfold starts_no_token. rewrite Hw, Hs, Hd, Hp. reflexivity.
Qed.

(* ---- every text decomposes into items and an end ------------------------------------------ *)
Definition ends_well uc (T : list N) : Prop :=
  exists items last, T = text_of items last /\ ladmissible uc items last /\ trivia_final uc last.
Definition ends_badly uc (T : list N) : Prop :=
  exists items sep bad e, T = text_of items (sep ++ bad) /\ ladmissible uc items (sep ++ bad) /\
                          trivia uc sep /\ lex_fault uc e bad.

Lemma decompose uc : forall n T, (List.length T <= n)%nat -> ends_well uc T \/ ends_badly uc T.
Proof.
  induction n as [| n IH]; intros T Hn;
    destruct (first_item_exists uc (List.length T) T (le_n _))
      as [Hf | sep t s next HT Hsep Hsp Hmf Hlen | sep bad e HT Hsep Hbad].
  - left. exists [], T. repeat split. exact Hf.
  - lia.
  - right. exists [], sep, bad, e. repeat split; assumption.
  - left. exists [], T. repeat split. exact Hf.
  - assert (Hn' : (List.length next <= n)%nat) by lia.
    destruct (IH next Hn') as [(items & last & Hnext & Hadm & Hlast) | (items & sep' & bad & e & Hnext & Hadm & Hsep' & Hbad)].
    + left. exists ((sep, t, s) :: items), last. cbn [text_of ladmissible]. rewrite <- Hnext.
      repeat split; assumption.
    + right. exists ((sep, t, s) :: items), sep', bad, e. cbn [text_of ladmissible]. rewrite <- Hnext.
      repeat split; assumption.
  - right. exists [], sep, bad, e. repeat split; assumption.
Qed.

(* ====================================================================================== *)
(* B. the lexer on such texts                                                             *)
(* ====================================================================================== *)
Section Forward.
  Variable uc : N -> uclass.
  Local Notation LN := (lex_next uc).

  Lemma ascii_piece (s : list N) :
    forallb (fun b => b <? 128) s = true -> utf8 s = s /\ blen s = List.length s.
  Proof. intros H. split; [apply utf8_ascii | apply blen_ascii]; exact H. Qed.

  Lemma constant_of_big bytes radix ts te s e w ds :
    slice bytes ts te = ds -> two128 <= positional radix ds ->
    constant_of bytes radix ts te s e w = inr (LexInvalidConstant s e).
  Proof.
    intros Hs Hv. unfold constant_of. rewrite Hs, digits_value_0.
    destruct (N.ltb_spec (positional radix ds) two128); [lia | reflexivity].
  Qed.

  (* digit x hexdigits *)
  Lemma fw_hex pre d h hs next f :
    dec_digit d = true -> forallb hex_digit (h :: hs) = true -> head_is hex_digit next = false ->
    LN (S f) (pre ++ utf8 (([d; 120] ++ h :: hs) ++ next))
       (List.length (pre ++ utf8 (([d; 120] ++ h :: hs) ++ next)))
       (cidx (List.length pre) (([d; 120] ++ h :: hs) ++ next)) =
    if positional 16 (h :: hs) <? two128
    then LexTok (List.length pre, TLit (mkV (positional 16 (h :: hs)) Unl),
                 (List.length pre + blen ([d; 120%N] ++ h :: hs))%nat)
                (cidx (List.length pre + blen ([d; 120%N] ++ h :: hs)) next)
    else LexErr (LexInvalidConstant (List.length pre) (List.length pre + blen ([d; 120%N] ++ h :: hs)))
                (cidx (List.length pre + blen ([d; 120%N] ++ h :: hs)) next).
  Proof.
    intros Hd Hall Hnext0. pose proof (head_is_next _ _ Hnext0) as Hnext.
    set (s := [d; 120] ++ h :: hs).
    set (bytes := pre ++ utf8 (s ++ next)). set (len := List.length bytes). set (p := List.length pre).
    assert (Hlen : len = (p + blen s + blen next)%nat) by apply bytes_length.
    pose proof (digits_ascii _ _ hex_lt128 Hall) as Hasc0.
    pose proof (dec_lt128 d Hd) as Hd128.
    assert (Hasc : forallb (fun b => b <? 128) s = true).
    { unfold s. cbn [app forallb] in *. rewrite Hd128. exact Hasc0. }
    destruct (ascii_piece s Hasc) as [Hu Hb].
    destruct (forallb_cons_true _ _ _ Hall) as [Hh Hhs].
    destruct (forallb_cons_true _ _ _ Hasc0) as [Hh128 Hhs128]. apply N.ltb_lt in Hh128, Hd128.
    assert (Hblen : blen s = S (S (S (List.length hs)))) by (rewrite Hb; reflexivity).
    assert (Hslice : slice bytes (p + 2) (p + blen s) = h :: hs).
    { assert (Hbytes : bytes = (pre ++ [d; 120]) ++ (h :: hs) ++ utf8 next).
      { unfold bytes. rewrite utf8_app, Hu. unfold s. rewrite <- !app_assoc. reflexivity. }
      rewrite Hbytes. apply slice_mid.
      - rewrite app_length. reflexivity.
      - rewrite app_length, Hblen. cbn [List.length]. unfold p. lia. }
    change (s ++ next) with (d :: 120 :: h :: (hs ++ next)).
    rewrite (cidx_ascii p d), (cidx_ascii (p + 1) 120), (cidx_ascii (p + 1 + 1) h) by (assumption || lia).
    rewrite lex_next_digit by exact Hd.
    rewrite hc_hex_step. change (is_hexadecimal_char h) with (hex_digit h). rewrite Hh.
    rewrite (get_while_span is_hexadecimal_char hs _ next _ Hhs Hnext).
    rewrite (blen_ascii _ Hhs128).
    assert (Hlast : match next with [] => len | _ :: _ => (p + 1 + 1 + 1 + List.length hs)%nat end
                    = (p + blen s)%nat).
    { rewrite Hblen. destruct next; [rewrite Hlen, Hblen, blen_nil |]; lia. }
    rewrite Hlast.
    replace (p + 1 + 1 + 1 + List.length hs)%nat with (p + blen s)%nat by lia.
    destruct (N.ltb_spec (positional 16 (h :: hs)) two128) as [Hv | Hv].
    - rewrite (TriviaProofs.constant_of_ok _ _ _ _ _ _ _ _ Hslice Hv). reflexivity.
    - rewrite (constant_of_big _ _ _ _ _ _ _ _ Hslice Hv). reflexivity.
  Qed.

  (* digit b bindigits *)
  Lemma fw_bin pre d b bs next f :
    dec_digit d = true -> forallb bin_digit (b :: bs) = true -> head_is bin_digit next = false ->
    LN (S f) (pre ++ utf8 (([d; 98] ++ b :: bs) ++ next))
       (List.length (pre ++ utf8 (([d; 98] ++ b :: bs) ++ next)))
       (cidx (List.length pre) (([d; 98] ++ b :: bs) ++ next)) =
    let e := (List.length pre + blen ([d; 98%N] ++ b :: bs))%nat in
    if head_is dec_digit next then LexErr (LexLexicalError e) (tl (cidx e next))
    else if (List.length (b :: bs) <=? 128)%nat
         then LexTok (List.length pre,
                      TLit (mkV (positional 2 (b :: bs)) (Bits (N.of_nat (List.length (b :: bs))))), e)
                     (cidx e next)
         else LexErr (LexInvalidConstant (List.length pre) e) (cidx e next).
  Proof.
    intros Hd Hall Hnb0. pose proof (head_is_next _ _ Hnb0) as Hnb. cbv zeta.
    set (s := [d; 98] ++ b :: bs).
    set (bytes := pre ++ utf8 (s ++ next)). set (len := List.length bytes). set (p := List.length pre).
    assert (Hlen : len = (p + blen s + blen next)%nat) by apply bytes_length.
    pose proof (digits_ascii _ _ bin_lt128 Hall) as Hasc0.
    pose proof (dec_lt128 d Hd) as Hd128.
    assert (Hasc : forallb (fun b => b <? 128) s = true).
    { unfold s. cbn [app forallb] in *. rewrite Hd128. exact Hasc0. }
    destruct (ascii_piece s Hasc) as [Hu Hb].
    destruct (forallb_cons_true _ _ _ Hall) as [Hb0 Hbs].
    destruct (forallb_cons_true _ _ _ Hasc0) as [Hb128 Hbs128]. apply N.ltb_lt in Hb128, Hd128.
    assert (Hblen : blen s = S (S (S (List.length bs)))) by (rewrite Hb; reflexivity).
    assert (Hslice : slice bytes (p + 2) (p + blen s) = b :: bs).
    { assert (Hbytes : bytes = (pre ++ [d; 98]) ++ (b :: bs) ++ utf8 next).
      { unfold bytes. rewrite utf8_app, Hu. unfold s. rewrite <- !app_assoc. reflexivity. }
      rewrite Hbytes. apply slice_mid.
      - rewrite app_length. reflexivity.
      - rewrite app_length, Hblen. cbn [List.length]. unfold p. lia. }
    change (s ++ next) with (d :: 98 :: b :: (bs ++ next)).
    rewrite (cidx_ascii p d), (cidx_ascii (p + 1) 98), (cidx_ascii (p + 1 + 1) b) by (assumption || lia).
    rewrite lex_next_digit by exact Hd.
    rewrite hc_bin_step. change (is_binary_char b) with (bin_digit b). rewrite Hb0.
    rewrite (get_while_span is_binary_char bs _ next _ Hbs Hnb).
    rewrite (blen_ascii _ Hbs128).
    assert (Hlast : match next with [] => len | _ :: _ => (p + 1 + 1 + 1 + List.length bs)%nat end
                    = (p + blen s)%nat).
    { rewrite Hblen. destruct next; [rewrite Hlen, Hblen, blen_nil |]; lia. }
    rewrite Hlast.
    replace (p + 1 + 1 + 1 + List.length bs)%nat with (p + blen s)%nat by lia.
    replace (N.of_nat (p + blen s - (p + 2))) with (N.of_nat (List.length (b :: bs)))
      by (rewrite Hblen; cbn [List.length]; lia).
    assert (Hconst : constant_of bytes 2 (p + 2) (p + blen s) p (p + blen s)
                       (Some (N.of_nat (List.length (b :: bs)))) =
                     if (List.length (b :: bs) <=? 128)%nat
                     then inl (p, TLit (mkV (positional 2 (b :: bs)) (Bits (N.of_nat (List.length (b :: bs))))),
                               (p + blen s)%nat)
                     else inr (LexInvalidConstant p (p + blen s))).
    { destruct (Nat.leb_spec (List.length (b :: bs)) 128) as [Hn | Hn].
      - assert (Hv : positional 2 (b :: bs) < two128).
        { eapply N.lt_le_trans; [apply bin_positional_bound; exact Hall |].
          unfold two128. apply N.pow_le_mono_r; lia. }
        rewrite (TriviaProofs.constant_of_ok _ _ _ _ _ _ _ _ Hslice Hv).
        assert (Hw : (N.of_nat (List.length (b :: bs)) <=? 128) = true) by (apply N.leb_le; lia).
        rewrite Hw. reflexivity.
      - unfold constant_of. rewrite Hslice, digits_value_0.
        destruct (positional 2 (b :: bs) <? two128); [| reflexivity].
        assert (Hw : (N.of_nat (List.length (b :: bs)) <=? 128) = false) by (apply N.leb_gt; lia).
        rewrite Hw. reflexivity. }
    destruct next as [| x next'].
    - cbn [head_is cidx]. rewrite Hconst. destruct (List.length (b :: bs) <=? 128)%nat; reflexivity.
    - rewrite cidx_cons. cbn [head_is tl]. change (is_decimal_char x) with (dec_digit x).
      destruct (dec_digit x); [reflexivity |].
      rewrite Hconst. destruct (List.length (b :: bs) <=? 128)%nat; reflexivity.
  Qed.
End Forward.

Section Forward2.
  Variable uc : N -> uclass.
  Local Notation LN := (lex_next uc).

  (* a token *)
  Lemma llex_token_step pre t s next f :
    lspells uc t s -> may_follow uc t s next ->
    LN (S f) (pre ++ utf8 (s ++ next)) (List.length (pre ++ utf8 (s ++ next)))
       (cidx (List.length pre) (s ++ next)) =
    LexTok (List.length pre, t, (List.length pre + blen s)%nat) (cidx (List.length pre + blen s) next).
  Proof.
    intros Hsp Hmf. destruct Hsp as [t s Hstd | d ds Hd Hne Hall Hv | d ds Hd Hne Hall Hn].
    - apply lex_token_step; assumption.
    - destruct ds as [| h hs]; [congruence |].
      assert (Hnext : head_is hex_digit next = false).
      { destruct next as [| x next']; [reflexivity |]. exact Hmf. }
      rewrite (fw_hex uc pre d h hs next f Hd Hall Hnext).
      apply N.ltb_lt in Hv. rewrite Hv. reflexivity.
    - destruct ds as [| b bs]; [congruence |].
      assert (Hdec : head_is dec_digit next = false).
      { destruct next as [| x next']; [reflexivity |]. exact Hmf. }
      assert (Hnext : head_is bin_digit next = false).
      { destruct next as [| x next']; [reflexivity |]. cbn [head_is] in *.
        unfold dec_digit in Hdec. unfold bin_digit. lia. }
      rewrite (fw_bin uc pre d b bs next f Hd Hall Hnext). cbv zeta. rewrite Hdec.
      apply Nat.leb_le in Hn. rewrite Hn. reflexivity.
  Qed.

  (* decimal digits whose value is too large *)
  Lemma dec_single_small d : dec_digit d = true -> positional 10 [d] < two128.
  Proof.
    intros Hd. cbn [positional List.length]. unfold dec_digit in Hd. unfold digit_value, two128.
    destruct (N.leb_spec d 57); lia.
  Qed.

  Lemma fw_dec_big pre ds next f :
    forallb dec_digit ds = true -> head_is dec_digit next = false -> two128 <= positional 10 ds ->
    exists rest,
      LN (S f) (pre ++ utf8 (ds ++ next)) (List.length (pre ++ utf8 (ds ++ next)))
         (cidx (List.length pre) (ds ++ next)) =
      LexErr (LexInvalidConstant (List.length pre) (List.length pre + List.length ds)) rest.
  Proof.
    intros Hall Hnext0 Hv. pose proof (head_is_next _ _ Hnext0) as Hnext.
    destruct ds as [| d [| c2 ds']].
    { cbn [positional] in Hv. unfold two128 in Hv. lia. }
    { apply forallb_cons_true in Hall. destruct Hall as [Hd _].
      pose proof (dec_single_small d Hd). lia. }
    set (ds := d :: c2 :: ds') in *.
    set (bytes := pre ++ utf8 (ds ++ next)). set (len := List.length bytes). set (p := List.length pre).
    assert (Hlen : len = (p + blen ds + blen next)%nat) by apply bytes_length.
    pose proof (digits_ascii _ _ dec_lt128 Hall) as Hasc.
    pose proof (blen_ascii _ Hasc) as Hb. pose proof (utf8_ascii _ Hasc) as Hu.
    destruct (forallb_cons_true _ _ _ Hall) as [Hd Hds].
    destruct (forallb_cons_true _ _ _ Hasc) as [Hd128 Hds128]. apply N.ltb_lt in Hd128.
    destruct (forallb_cons_true _ _ _ Hds) as [Hc2 Hds'].
    destruct (forallb_cons_true _ _ _ Hds128) as [Hc128 Hds'128]. apply N.ltb_lt in Hc128.
    assert (Hslice : slice bytes p (p + blen ds) = ds).
    { unfold bytes, p. rewrite slice_piece by reflexivity. exact Hu. }
    change (ds ++ next) with (d :: c2 :: (ds' ++ next)).
    rewrite (cidx_ascii p d), (cidx_ascii (p + 1) c2) by assumption.
    rewrite lex_next_digit by exact Hd.
    rewrite hc_dec_step by exact Hc2.
    rewrite (get_while_span is_decimal_char ds' _ next _ Hds' Hnext).
    rewrite (blen_ascii _ Hds'128).
    assert (Hlast : match next with [] => len | _ :: _ => (p + 1 + 1 + List.length ds')%nat end
                    = (p + List.length ds)%nat).
    { unfold ds. cbn [List.length]. destruct next; [rewrite Hlen, Hb, blen_nil; unfold ds; cbn [List.length] |]; lia. }
    rewrite Hlast. rewrite Hb in Hslice.
    rewrite (constant_of_big uc _ _ _ _ _ _ _ _ Hslice Hv). eexists. reflexivity.
  Qed.

  (* a character that starts nothing *)
  Lemma ln_other f bytes len i c r :
    starts_no_token uc c = true -> LN (S f) bytes len ((i, c) :: r) = LexErr (LexLexicalError i) r.
  Proof.
    unfold starts_no_token. intros H.
    apply andb_true_iff in H. destruct H as [H Hp].
    apply andb_true_iff in H. destruct H as [H Hd].
    apply andb_true_iff in H. destruct H as [Hw Hs].
    apply negb_true_iff in Hw, Hs, Hd, Hp.
    cbn [lex_next]. rewrite Hw, Hs. change (is_decimal_char c) with (dec_digit c). rewrite Hd.
    case_char c; try reflexivity; exfalso; vm_compute in Hp; discriminate Hp.
  Qed.

  Lemma ln_dot_other f bytes len i j c r :
    c <> 46 -> LN (S f) bytes len ((i, 46) :: (j, c) :: r) = LexErr (LexLexicalError i) ((j, c) :: r).
  Proof. intros H. case_char c; try reflexivity; congruence. Qed.

  Lemma ln_dot_end f bytes len i : LN (S f) bytes len [(i, 46)] = LexErr (LexLexicalError i) [].
  Proof. reflexivity. Qed.

  (* a comment that is never closed *)
  Lemma skip_block_open body : forall f pos len,
    has_close body = false -> skip_block_comment f (cidx pos body) len = None.
  Proof.
    induction body as [| a body IH]; intros f pos len Hc.
    - destruct f; reflexivity.
    - destruct f as [| f]; [reflexivity |].
      apply has_close_cons in Hc. destruct Hc as [Hc Hnext].
      rewrite cidx_cons.
      destruct (N.eq_dec a 42) as [-> | Hne].
      + specialize (Hnext eq_refl).
        destruct body as [| b body'].
        * cbn [cidx]. destruct f; reflexivity.
        * rewrite cidx_cons. rewrite skip_block_star_other by exact Hnext.
          rewrite <- cidx_cons. apply IH. exact Hc.
      + rewrite skip_block_nonstar by exact Hne. apply IH. exact Hc.
  Qed.
End Forward2.

Lemma dec_digit_lt128 d : dec_digit d = true -> d < 128.
Proof. intros H. apply dec_lt128 in H. apply N.ltb_lt. exact H. Qed.

Lemma blen_prefixed d x ds (p : N -> bool) :
  dec_digit d = true -> x = 120 \/ x = 98 -> (forall c, p c = true -> (c <? 128) = true) ->
  forallb p ds = true -> blen ([d; x] ++ ds) = (2 + List.length ds)%nat.
Proof.
  intros Hd Hx Hp Hds. rewrite blen_ascii; [reflexivity |].
  cbn [app forallb]. rewrite (dec_lt128 d Hd). rewrite (digits_ascii _ _ Hp Hds).
  destruct Hx as [-> | ->]; reflexivity.
Qed.

Lemma fault_step uc pre bad e f :
  lex_fault uc e bad ->
  exists rest,
    lex_next uc (S f) (pre ++ utf8 bad) (List.length (pre ++ utf8 bad)) (cidx (List.length pre) bad) =
    LexErr (shift_error (List.length pre) e) rest.
Proof.
  set (p := List.length pre).
  intros [c r Hc | r Hr | d x Hd Hx | d c r Hd Hc | d c r Hd Hc | d ds c r Hd Hne Hds Hcb Hcd
          | body Hbody | ds r Hds Hr Hv | d ds r Hd Hne Hds Hr Hv | d ds r Hd Hds Hr Hn];
    cbn [shift_error]; rewrite ?Nat.add_0_r.
  - rewrite cidx_cons. eexists. apply ln_other. exact Hc.
  - rewrite cidx_cons. destruct r as [| c r'].
    + eexists. apply ln_dot_end.
    + cbn [head_is] in Hr. rewrite cidx_cons. eexists. apply ln_dot_other.
      intros ->. discriminate Hr.
  - pose proof (dec_digit_lt128 d Hd) as Hd128.
    assert (Hx128 : x < 128) by (destruct Hx as [-> | ->]; lia).
    rewrite (cidx_ascii p d), (cidx_ascii (p + 1) x) by assumption. cbn [cidx].
    rewrite lex_next_digit by exact Hd.
    assert (Hlen : List.length (pre ++ utf8 [d; x]) = (p + 2)%nat).
    { rewrite app_length. fold (blen [d; x]). rewrite blen_ascii; [reflexivity |].
      cbn [forallb]. rewrite (dec_lt128 d Hd). destruct Hx as [-> | ->]; reflexivity. }
    rewrite Hlen. destruct Hx as [-> | ->]; eexists; reflexivity.
  - pose proof (dec_digit_lt128 d Hd) as Hd128.
    rewrite (cidx_ascii p d), (cidx_ascii (p + 1) 120) by (assumption || lia). rewrite cidx_cons.
    rewrite lex_next_digit by exact Hd. rewrite hc_hex_step.
    change (is_hexadecimal_char c) with (hex_digit c). rewrite Hc.
    replace (p + 1 + 1)%nat with (p + 2)%nat by lia. eexists. reflexivity.
  - pose proof (dec_digit_lt128 d Hd) as Hd128.
    rewrite (cidx_ascii p d), (cidx_ascii (p + 1) 98) by (assumption || lia). rewrite cidx_cons.
    rewrite lex_next_digit by exact Hd. rewrite hc_bin_step.
    change (is_binary_char c) with (bin_digit c). rewrite Hc.
    replace (p + 1 + 1)%nat with (p + 2)%nat by lia. eexists. reflexivity.
  - destruct ds as [| b bs]; [congruence |].
    replace ([d; 98] ++ (b :: bs) ++ c :: r) with (([d; 98] ++ b :: bs) ++ c :: r)
      by (rewrite <- app_assoc; reflexivity).
    unfold p. rewrite (fw_bin uc pre d b bs (c :: r) f Hd Hds Hcb). cbv zeta. cbn [head_is]. rewrite Hcd.
    rewrite (blen_prefixed d 98 (b :: bs) bin_digit Hd (or_intror eq_refl) bin_lt128 Hds).
    eexists. reflexivity.
  - cbn [app]. rewrite (cidx_ascii p 47), (cidx_ascii (p + 1) 42) by lia.
    rewrite ln_block. rewrite skip_block_open by exact Hbody. eexists. reflexivity.
  - unfold p. apply (fw_dec_big uc pre ds r f Hds Hr Hv).
  - destruct ds as [| h hs]; [congruence |].
    replace ([d; 120] ++ (h :: hs) ++ r) with (([d; 120] ++ h :: hs) ++ r)
      by (rewrite <- app_assoc; reflexivity).
    unfold p. rewrite (fw_hex uc pre d h hs r f Hd Hds Hr).
    destruct (N.ltb_spec (positional 16 (h :: hs)) two128) as [Hlt | _]; [lia |].
    rewrite (blen_prefixed d 120 (h :: hs) hex_digit Hd (or_introl eq_refl) hex_lt128 Hds).
    eexists. reflexivity.
  - destruct ds as [| b bs]; [cbn [List.length] in Hn; lia |].
    replace ([d; 98] ++ (b :: bs) ++ r) with (([d; 98] ++ b :: bs) ++ r)
      by (rewrite <- app_assoc; reflexivity).
    assert (Hrb : head_is bin_digit r = false).
    { destruct r as [| x r']; [reflexivity |]. cbn [head_is] in *.
      unfold dec_digit in Hr. unfold bin_digit. lia. }
    unfold p. rewrite (fw_bin uc pre d b bs r f Hd Hds Hrb). cbv zeta. rewrite Hr.
    assert (Hbig : (List.length (b :: bs) <=? 128)%nat = false) by (apply Nat.leb_gt; exact Hn).
    rewrite Hbig.
    rewrite (blen_prefixed d 98 (b :: bs) bin_digit Hd (or_intror eq_refl) bin_lt128 Hds).
    eexists. reflexivity.
Qed.

(* ---- the token loop ------------------------------------------------------------------------- *)
Lemma text_of_app (items : list item) (tail : list N) : text_of items tail = text_of items [] ++ tail.
Proof.
  induction items as [| [[sep t] s] r IH]; [reflexivity |].
  cbn [TriviaSpec.text_of]. rewrite IH. rewrite <- !app_assoc. reflexivity.
Qed.

Lemma lspells_nonempty uc t s : lspells uc t s -> (1 <= List.length s)%nat.
Proof.
  intros [t0 s0 H | d ds _ _ _ _ | d ds _ _ _ _].
  - apply (spells_nonempty uc t0 s0 H).
  - cbn [app List.length]. lia.
  - cbn [app List.length]. lia.
Qed.

Lemma litems_le_text uc items tail : ladmissible uc items tail ->
  (List.length items <= List.length (text_of items []))%nat.
Proof.
  induction items as [| [[sep t] s] r IH]; intros H; [cbn [List.length]; lia |].
  cbn [ladmissible] in H. destruct H as (_ & Hsp & _ & Hr).
  cbn [TriviaSpec.text_of List.length]. rewrite !app_length.
  pose proof (lspells_nonempty _ _ _ Hsp). specialize (IH Hr). lia.
Qed.

Lemma lex_fault_nonempty uc e bad : lex_fault uc e bad -> bad <> [].
Proof.
  intros [c r _ | r _ | d x _ _ | d c r _ _ | d c r _ _ | d ds c r _ _ _ _ _ | body _
          | ds r Hds _ Hv | d ds r _ _ _ _ _ | d ds r _ _ _ _]; try discriminate.
  destruct ds; [cbn [positional] in Hv; unfold two128 in Hv; lia | discriminate].
Qed.

Lemma lex_loop_litems uc : forall items tail pre fuel acc bytes,
  ladmissible uc items tail -> (List.length items < fuel)%nat ->
  bytes = pre ++ utf8 (text_of items tail) ->
  lex_loop uc fuel bytes (List.length bytes) (cidx (List.length pre) (text_of items tail)) acc =
  lex_loop uc (fuel - List.length items) bytes (List.length bytes)
           (cidx (List.length pre + blen (text_of items [])) tail)
           (rev (spans_of (List.length pre) items) ++ acc).
Proof.
  induction items as [| [[sep t] s] r IH]; intros tail pre fuel acc bytes Hadm Hfuel Hbytes.
  - cbn [TriviaSpec.text_of List.length spans_of rev app]. rewrite blen_nil, Nat.add_0_r, Nat.sub_0_r.
    reflexivity.
  - destruct fuel as [| fuel]; [lia |]. cbn [List.length] in Hfuel.
    cbn [ladmissible] in Hadm. destruct Hadm as (Hsep & Hsp & Hmf & Hr).
    cbn [TriviaSpec.text_of] in Hbytes |- *. set (rest := text_of r tail) in *.
    cbn [lex_loop].
    destruct (skip_trivia uc bytes (List.length bytes) sep Hsep
                (S (List.length (cidx (List.length pre) (sep ++ s ++ rest)))) (List.length pre) (s ++ rest))
      as (f' & Hf' & E).
    { rewrite cidx_length, !app_length. lia. }
    rewrite E. destruct f' as [| f']; [lia |].
    assert (Hb1 : bytes = (pre ++ utf8 sep) ++ utf8 (s ++ rest)).
    { rewrite Hbytes, utf8_app, app_assoc. reflexivity. }
    assert (Hl1 : (List.length pre + blen sep)%nat = List.length (pre ++ utf8 sep)).
    { rewrite app_length. reflexivity. }
    rewrite Hl1. rewrite Hb1 at 1 2. rewrite (llex_token_step uc _ t s rest f' Hsp Hmf).
    assert (Hb2 : bytes = ((pre ++ utf8 sep) ++ utf8 s) ++ utf8 rest).
    { rewrite Hb1, utf8_app, app_assoc. reflexivity. }
    assert (Hl2 : (List.length (pre ++ utf8 sep) + blen s)%nat = List.length ((pre ++ utf8 sep) ++ utf8 s)).
    { rewrite (app_length (pre ++ utf8 sep)). reflexivity. }
    rewrite Hl2.
    rewrite (IH tail _ fuel _ bytes Hr ltac:(lia) Hb2).
    cbn [List.length Nat.sub spans_of rev]. rewrite <- Hl2, <- Hl1.
    rewrite !blen_app. rewrite <- !app_assoc. cbn [app].
    f_equal. f_equal. lia.
Qed.

Lemma lex_loop_end_ok uc bytes pos tail f acc :
  trivia_final uc tail ->
  lex_loop uc (S f) bytes (List.length bytes) (cidx pos tail) acc = (rev acc, None).
Proof.
  intros Ht. cbn [lex_loop]. rewrite skip_final; [reflexivity | exact Ht |].
  rewrite cidx_length. lia.
Qed.

Lemma lex_loop_end_fault uc pre sep bad e f acc :
  trivia uc sep -> lex_fault uc e bad ->
  lex_loop uc (S f) (pre ++ utf8 (sep ++ bad)) (List.length (pre ++ utf8 (sep ++ bad)))
           (cidx (List.length pre) (sep ++ bad)) acc =
  (rev acc, Some (shift_error (List.length pre + blen sep) e)).
Proof.
  intros Hsep Hbad. cbn [lex_loop].
  set (bytes := pre ++ utf8 (sep ++ bad)).
  destruct (skip_trivia uc bytes (List.length bytes) sep Hsep
              (S (List.length (cidx (List.length pre) (sep ++ bad)))) (List.length pre) bad)
    as (f' & Hf' & E).
  { rewrite cidx_length, !app_length. lia. }
  rewrite E. destruct f' as [| f']; [lia |].
  assert (Hb : bytes = (pre ++ utf8 sep) ++ utf8 bad).
  { unfold bytes. rewrite utf8_app, app_assoc. reflexivity. }
  assert (Hl : (List.length pre + blen sep)%nat = List.length (pre ++ utf8 sep)).
  { rewrite app_length. reflexivity. }
  rewrite Hl. rewrite Hb.
  destruct (fault_step uc (pre ++ utf8 sep) bad e f' Hbad) as [rest Hstep].
  rewrite Hstep. reflexivity.
Qed.

Lemma lex_unfold uc text : Forall scalar text ->
  lex uc (utf8 text) =
  lex_loop uc (S (List.length (utf8 text))) (utf8 text) (List.length (utf8 text)) (cidx 0 text) [].
Proof.
  intros Hsc. unfold lex. rewrite (char_indices_utf8 text _ _ Hsc); [reflexivity |].
  pose proof (length_le_blen text) as H. unfold blen in H. lia.
Qed.

Theorem lex_items_holds : stmt_lex_items.
Proof.
  intros uc items last Hadm Hlast Hsc.
  rewrite (lex_unfold uc _ Hsc).
  set (bytes := utf8 (text_of items last)).
  pose proof (litems_le_text uc items last Hadm) as Hle.
  pose proof (length_le_blen (text_of items last)) as Hlb. unfold blen in Hlb. fold bytes in Hlb.
  assert (Hlt : (List.length (text_of items []) <= List.length (text_of items last))%nat).
  { rewrite (text_of_app items last), app_length. lia. }
  rewrite (lex_loop_litems uc items last [] _ [] bytes Hadm); [| lia | reflexivity].
  destruct (S (List.length bytes) - List.length items)%nat as [| f] eqn:Hf; [lia |].
  rewrite lex_loop_end_ok by exact Hlast.
  rewrite app_nil_r, rev_involutive. reflexivity.
Qed.

Theorem lex_fault_reported_holds : stmt_lex_fault_reported.
Proof.
  intros uc items sep bad e Hadm Hsep Hbad Hsc.
  rewrite (lex_unfold uc _ Hsc).
  set (tail := sep ++ bad) in *.
  set (bytes := utf8 (text_of items tail)).
  pose proof (litems_le_text uc items tail Hadm) as Hle.
  pose proof (length_le_blen (text_of items tail)) as Hlb. unfold blen in Hlb. fold bytes in Hlb.
  assert (Hlt : (List.length (text_of items []) <= List.length (text_of items tail))%nat).
  { rewrite (text_of_app items tail), app_length. lia. }
  rewrite (lex_loop_litems uc items tail [] _ [] bytes Hadm); [| lia | reflexivity].
  destruct (S (List.length bytes) - List.length items)%nat as [| f] eqn:Hf; [lia |].
  cbn [List.length Nat.add].
  assert (Hb : bytes = utf8 (text_of items []) ++ utf8 (sep ++ bad)).
  { unfold bytes. rewrite (text_of_app items tail), utf8_app. reflexivity. }
  assert (Hl : blen (text_of items []) = List.length (utf8 (text_of items []))) by reflexivity.
  rewrite Hl. rewrite Hb.
  rewrite (lex_loop_end_fault uc (utf8 (text_of items [])) sep bad e f _ Hsep Hbad).
  rewrite app_nil_r, rev_involutive. f_equal. f_equal. f_equal.
  unfold ulen. rewrite (text_of_app items sep), utf8_app, app_length. reflexivity.
Qed.

Theorem lex_characterised_holds : stmt_lex_characterised.
Proof.
  intros uc text Hsc.
  destruct (decompose uc (List.length text) text (le_n _))
    as [(items & last & HT & Hadm & Hlast) | (items & sep & bad & e & HT & Hadm & Hsep & Hbad)].
  - left. exists items, last. repeat split; try assumption.
    rewrite HT. apply lex_items_holds; [assumption | assumption | rewrite <- HT; exact Hsc].
  - right. exists items, sep, bad, e. repeat split; try assumption.
    rewrite HT. apply lex_fault_reported_holds; try assumption. rewrite <- HT. exact Hsc.
Qed.

(* ---- consequences ---------------------------------------------------------------------------- *)
Theorem lex_ok_inv_holds : stmt_lex_ok_inv.
Proof.
  intros uc text toks Hsc Hlex.
  destruct (lex_characterised_holds uc text Hsc)
    as [(items & last & HT & Hadm & Hlast & Hl) | (items & sep & bad & e & HT & Hadm & Hsep & Hbad & Hl)].
  - rewrite Hl in Hlex. injection Hlex as Ht. exists items, last. repeat split; try assumption.
    symmetry. exact Ht.
  - rewrite Hl in Hlex. discriminate Hlex.
Qed.

Lemma may_follow_prefix uc t s a b : may_follow uc t s (a ++ b) -> may_follow uc t s a.
Proof. destruct a as [| c a']; [intros _; exact I | intros H; exact H]. Qed.

Lemma may_follow_extend uc t s a b : a <> [] -> may_follow uc t s a -> may_follow uc t s (a ++ b).
Proof. destruct a as [| c a']; [congruence | intros _ H; exact H]. Qed.

Lemma ladmissible_prefix uc items a b : ladmissible uc items (a ++ b) -> ladmissible uc items a.
Proof.
  induction items as [| [[sep t] s] r IH]; intros H; [exact I |].
  cbn [ladmissible] in *. destruct H as (Hsep & Hsp & Hmf & Hr).
  repeat split; try assumption; [| apply IH; exact Hr].
  rewrite (text_of_app r (a ++ b)), app_assoc, <- (text_of_app r a) in Hmf.
  apply (may_follow_prefix uc t s _ b Hmf).
Qed.

Lemma ladmissible_extend uc items a b : a <> [] -> ladmissible uc items a -> ladmissible uc items (a ++ b).
Proof.
  intros Ha. induction items as [| [[sep t] s] r IH]; intros H; [exact I |].
  cbn [ladmissible] in *. destruct H as (Hsep & Hsp & Hmf & Hr).
  repeat split; try assumption; [| apply IH; exact Hr].
  rewrite (text_of_app r (a ++ b)), app_assoc, <- (text_of_app r a).
  apply may_follow_extend; [| exact Hmf].
  rewrite (text_of_app r a). intros E. apply app_eq_nil in E. destruct E as [_ E]. contradiction.
Qed.

Lemma Forall_app_l {A} (P : A -> Prop) a b : Forall P (a ++ b) -> Forall P a.
Proof. intros H. apply Forall_app in H. apply H. Qed.
Lemma Forall_app_r {A} (P : A -> Prop) a b : Forall P (a ++ b) -> Forall P b.
Proof. intros H. apply Forall_app in H. apply H. Qed.

Theorem lex_error_meaning_holds : stmt_lex_error_meaning.
Proof.
  intros uc text toks err Hsc Hlex.
  destruct (lex_characterised_holds uc text Hsc)
    as [(items & last & HT & Hadm & Hlast & Hl) | (items & sep & bad & e & HT & Hadm & Hsep & Hbad & Hl)].
  - rewrite Hl in Hlex. discriminate Hlex.
  - rewrite Hl in Hlex. injection Hlex as Ht He.
    exists (text_of items sep), bad, e.
    assert (HT' : text = text_of items sep ++ bad).
    { rewrite HT, (text_of_app items (sep ++ bad)), (text_of_app items sep), <- app_assoc. reflexivity. }
    split; [exact HT' |]. split; [exact Hbad |]. split; [symmetry; exact He |].
    rewrite <- Ht. apply lex_items_holds.
    + apply (ladmissible_prefix uc items sep bad Hadm).
    + apply tf_closed. exact Hsep.
    + rewrite HT' in Hsc. apply (Forall_app_l _ _ _ Hsc).
Qed.

(* ---- lexing one text after another -------------------------------------------------------------- *)
Lemma ends_with_split {A} (x y : list A) (a b : A) : x ++ [a] = y ++ [b] -> x = y /\ a = b.
Proof. apply app_inj_tail. Qed.

Lemma fixed_spelling_no_lf t str : fixed_spelling t = Some str -> ~ In 10 (bytes_of_string str).
Proof.
  intros H Hin. destruct t; try discriminate H; injection H as <-; cbn in Hin;
    repeat (destruct Hin as [Hin | Hin]; [discriminate Hin |]); exact Hin.
Qed.

Lemma forallb_not_in (p : N -> bool) l : forallb p l = true -> p 10 = false -> ~ In 10 l.
Proof.
  intros Hall Hp Hin. rewrite forallb_forall in Hall. specialize (Hall 10 Hin). congruence.
Qed.

Lemma ident_char_10 uc : is_identifier_char uc 10 = false.
Proof. reflexivity. Qed.

Lemma spells_no_lf uc t s : spells uc t s -> ~ In 10 s.
Proof.
  intros [t0 s0 Hfix | c cs Hc Hcs _ | ds _ Hall _ | ds _ Hall _ | ds _ Hall _].
  - apply (fixed_spelling_no_lf t0 s0 Hfix).
  - intros [E | Hin].
    + subst c. discriminate Hc.
    + apply (forallb_not_in _ _ Hcs (ident_char_10 uc) Hin).
  - apply (forallb_not_in _ _ Hall). reflexivity.
  - intros [E | [E | Hin]]; [discriminate E | discriminate E |].
    apply (forallb_not_in _ _ Hall eq_refl Hin).
  - intros [E | [E | Hin]]; [discriminate E | discriminate E |].
    apply (forallb_not_in _ _ Hall eq_refl Hin).
Qed.

Lemma lspells_no_lf uc t s : lspells uc t s -> ~ In 10 s.
Proof.
  intros [t0 s0 H | d ds Hd _ Hall _ | d ds Hd _ Hall _].
  - apply (spells_no_lf uc t0 s0 H).
  - intros [E | [E | Hin]]; [subst d; discriminate Hd | discriminate E |].
    apply (forallb_not_in _ _ Hall eq_refl Hin).
  - intros [E | [E | Hin]]; [subst d; discriminate Hd | discriminate E |].
    apply (forallb_not_in _ _ Hall eq_refl Hin).
Qed.

Lemma text_of_ends_lf uc items : forall tail l,
  ladmissible uc items tail -> text_of items tail = l ++ [10] -> exists l', tail = l' ++ [10].
Proof.
  induction items as [| [[sep t] s] r IH]; intros tail l Hadm HT.
  - exists l. exact HT.
  - cbn [ladmissible] in Hadm. destruct Hadm as (_ & Hsp & _ & Hr). cbn [TriviaSpec.text_of] in HT.
    destruct (text_of r tail) as [| y m0] eqn:Hrest.
    + exfalso. rewrite app_nil_r in HT.
      pose proof (lspells_nonempty uc t s Hsp) as Hne.
      destruct s as [| x0 s0]; [cbn [List.length] in Hne; lia |].
      destruct (exists_last (l := x0 :: s0) ltac:(discriminate)) as (s' & x & Es).
      rewrite Es in HT. rewrite app_assoc in HT. apply ends_with_split in HT. destruct HT as [_ Hx].
      apply (lspells_no_lf uc t _ Hsp). rewrite Es. apply in_or_app. right. left. exact Hx.
    + destruct (exists_last (l := y :: m0) ltac:(discriminate)) as (m & x & Em).
      rewrite Em in HT. rewrite !app_assoc in HT. apply ends_with_split in HT. destruct HT as [_ Hx].
      subst x. apply (IH tail m Hr). rewrite Hrest. exact Em.
Qed.

Lemma not_newline_last body x : forallb not_newline (body ++ [x]) = true -> x <> 10.
Proof.
  intros H E. subst x. rewrite forallb_app in H. apply andb_true_iff in H. destruct H as [_ H].
  discriminate H.
Qed.

Lemma open_comment_no_lf (s opener body l : list N) :
  (opener = [35] \/ opener = [47; 47]) -> forallb not_newline body = true ->
  s ++ opener ++ body = l ++ [10] -> False.
Proof.
  intros Hop Hbody E.
  destruct body as [| b0 body0].
  - rewrite app_nil_r in E. destruct Hop as [-> | ->].
    + apply ends_with_split in E. destruct E as [_ E]. discriminate E.
    + change (s ++ [47; 47]) with (s ++ [47] ++ [47]) in E. rewrite app_assoc in E.
      apply ends_with_split in E. destruct E as [_ E]. discriminate E.
  - destruct (exists_last (l := b0 :: body0) ltac:(discriminate)) as (b' & x & Eb).
    rewrite Eb in E, Hbody. rewrite !app_assoc in E. apply ends_with_split in E. destruct E as [_ Hx].
    apply (not_newline_last b' x Hbody Hx).
Qed.

Lemma trivia_final_closed uc l : trivia_final uc (l ++ [10]) -> trivia uc (l ++ [10]).
Proof.
  intros H. remember (l ++ [10]) as T eqn:ET.
  destruct H as [s Hs | s body Hs Hbody | s body Hs Hbody].
  - exact Hs.
  - exfalso. apply (open_comment_no_lf s [35] body l (or_introl eq_refl) Hbody ET).
  - exfalso. apply (open_comment_no_lf s [47; 47] body l (or_intror eq_refl) Hbody ET).
Qed.

Lemma lex_loop_skip uc bytes pos sep T fuel acc :
  trivia uc sep ->
  lex_loop uc fuel bytes (List.length bytes) (cidx pos (sep ++ T)) acc =
  lex_loop uc fuel bytes (List.length bytes) (cidx (pos + blen sep) T) acc.
Proof.
  intros Hsep. destruct fuel as [| f]; [reflexivity |]. cbn [lex_loop].
  destruct (skip_trivia uc bytes (List.length bytes) sep Hsep
              (S (List.length (cidx pos (sep ++ T)))) pos T) as (f' & Hf' & E).
  { rewrite cidx_length, app_length. lia. }
  rewrite E.
  rewrite (lex_next_fuel_holds uc f' bytes (List.length bytes) (cidx (pos + blen sep) T)).
  - reflexivity.
  - rewrite cidx_length. lia.
Qed.

Lemma spans_of_shift k : forall items pos,
  spans_of (k + pos) items = map (shift_tok k) (spans_of pos items).
Proof.
  induction items as [| [[sep t] s] r IH]; intros pos; [reflexivity |].
  cbn [spans_of map]. unfold shift_tok at 1. cbn [fst snd]. f_equal.
  - f_equal; [f_equal |]; lia.
  - rewrite <- IH. f_equal. lia.
Qed.

Lemma shift_error_add k m e : shift_error k (shift_error m e) = shift_error (k + m) e.
Proof. destruct e; cbn [shift_error]; f_equal; lia. Qed.

(* the token loop on a decomposed text standing anywhere, with any accumulator *)
Lemma lex_loop_well uc pre items last fuel acc :
  ladmissible uc items last -> trivia_final uc last ->
  (List.length (text_of items last) < fuel)%nat ->
  lex_loop uc fuel (pre ++ utf8 (text_of items last)) (List.length (pre ++ utf8 (text_of items last)))
           (cidx (List.length pre) (text_of items last)) acc =
  (rev acc ++ spans_of (List.length pre) items, None).
Proof.
  intros Hadm Hlast Hfuel.
  pose proof (litems_le_text uc items last Hadm) as Hle.
  assert (Hlt : (List.length (text_of items []) <= List.length (text_of items last))%nat).
  { rewrite (text_of_app items last), app_length. lia. }
  rewrite (lex_loop_litems uc items last pre fuel acc _ Hadm); [| lia | reflexivity].
  destruct (fuel - List.length items)%nat as [| f] eqn:Hf; [lia |].
  rewrite lex_loop_end_ok by exact Hlast.
  rewrite rev_app_distr, rev_involutive. reflexivity.
Qed.

Lemma lex_loop_badly uc pre items sep bad e fuel acc :
  ladmissible uc items (sep ++ bad) -> trivia uc sep -> lex_fault uc e bad ->
  (List.length (text_of items (sep ++ bad)) < fuel)%nat ->
  lex_loop uc fuel (pre ++ utf8 (text_of items (sep ++ bad)))
           (List.length (pre ++ utf8 (text_of items (sep ++ bad))))
           (cidx (List.length pre) (text_of items (sep ++ bad))) acc =
  (rev acc ++ spans_of (List.length pre) items,
   Some (shift_error (List.length pre + blen (text_of items sep)) e)).
Proof.
  intros Hadm Hsep Hbad Hfuel.
  set (tail := sep ++ bad) in *.
  pose proof (litems_le_text uc items tail Hadm) as Hle.
  assert (Hlt : (List.length (text_of items []) <= List.length (text_of items tail))%nat).
  { rewrite (text_of_app items tail), app_length. lia. }
  rewrite (lex_loop_litems uc items tail pre fuel acc _ Hadm); [| lia | reflexivity].
  destruct (fuel - List.length items)%nat as [| f] eqn:Hf; [lia |].
  assert (Hb : pre ++ utf8 (text_of items tail) = (pre ++ utf8 (text_of items [])) ++ utf8 (sep ++ bad)).
  { rewrite (text_of_app items tail), utf8_app, app_assoc. reflexivity. }
  assert (Hl : (List.length pre + blen (text_of items []))%nat = List.length (pre ++ utf8 (text_of items []))).
  { rewrite app_length. reflexivity. }
  rewrite Hl, Hb.
  rewrite (lex_loop_end_fault uc (pre ++ utf8 (text_of items [])) sep bad e f _ Hsep Hbad).
  rewrite rev_app_distr, rev_involutive. f_equal. f_equal. f_equal.
  rewrite <- Hl. rewrite (text_of_app items sep), blen_app. lia.
Qed.

Theorem lex_app_holds : stmt_lex_app.
Proof.
  intros uc a b toks_a toks_b err_b Hsc Ha Hb. cbv zeta.
  set (a' := a ++ [10]) in *.
  assert (Hsc' : Forall scalar (a' ++ b)) by (unfold a'; rewrite <- app_assoc; exact Hsc).
  pose proof (Forall_app_l _ _ _ Hsc') as Hsca. pose proof (Forall_app_r _ _ _ Hsc') as Hscb.
  destruct (lex_ok_inv_holds uc a' toks_a Hsca Ha) as (itA & lastA & HA & HadmA & HlastA & HtoksA).
  assert (HA' : text_of itA lastA = a ++ [10]) by (symmetry; exact HA).
  destruct (text_of_ends_lf uc itA lastA a HadmA HA') as [l' El].
  assert (HtrA : trivia uc lastA) by (rewrite El in HlastA |- *; apply trivia_final_closed; exact HlastA).
  assert (HneA : lastA <> []) by (rewrite El; intros E; apply app_eq_nil in E; destruct E as [_ E]; discriminate E).
  rewrite (lex_unfold uc _ Hsc').
  set (bytes := utf8 (a' ++ b)).
  assert (Hwhole : a' ++ b = text_of itA (lastA ++ b)).
  { rewrite HA, (text_of_app itA lastA), (text_of_app itA (lastA ++ b)), <- app_assoc. reflexivity. }
  assert (Hlenb : (List.length (a' ++ b) <= List.length bytes)%nat).
  { pose proof (length_le_blen (a' ++ b)) as H. exact H. }
  assert (Hla : (List.length itA <= List.length a')%nat).
  { pose proof (litems_le_text uc itA lastA HadmA) as H. rewrite HA, (text_of_app itA lastA), app_length. lia. }
  rewrite Hwhole.
  rewrite (lex_loop_litems uc itA (lastA ++ b) [] _ [] bytes (ladmissible_extend uc itA lastA b HneA HadmA));
    [| rewrite app_length in Hlenb; lia | unfold bytes; rewrite Hwhole; reflexivity].
  rewrite (lex_loop_skip uc bytes _ lastA b _ _ HtrA).
  cbn [List.length Nat.add]. rewrite app_nil_r.
  assert (Hpos : (blen (text_of itA []) + blen lastA)%nat = List.length (utf8 a')).
  { rewrite <- blen_app, <- (text_of_app itA lastA), <- HA. reflexivity. }
  rewrite Hpos.
  assert (Hbytes : bytes = utf8 a' ++ utf8 b) by (unfold bytes; apply utf8_app).
  assert (Hfuel : (List.length b < S (List.length bytes) - List.length itA)%nat).
  { rewrite app_length in Hlenb. lia. }
  set (fuel1 := (S (List.length bytes) - List.length itA)%nat) in *.
  rewrite HtoksA. rewrite ulen_blen. unfold blen at 1.
  destruct (decompose uc (List.length b) b (le_n _))
    as [(itB & lastB & HB & HadmB & HlastB) | (itB & sepB & badB & e & HB & HadmB & HsepB & HbadB)].
  - assert (Hlb : lex uc (utf8 b) = (spans_of 0 itB, None)).
    { rewrite HB. apply lex_items_holds; try assumption. rewrite <- HB. exact Hscb. }
    rewrite Hb in Hlb. injection Hlb as -> ->.
    rewrite Hbytes. clearbody fuel1 bytes. rewrite HB in Hfuel |- *.
    rewrite (lex_loop_well uc (utf8 a') itB lastB _ _ HadmB HlastB Hfuel).
    rewrite rev_involutive. cbn [option_map]. f_equal. f_equal.
    rewrite <- (spans_of_shift (List.length (utf8 a')) itB 0). f_equal. lia.
  - assert (Hlb : lex uc (utf8 b) = (spans_of 0 itB, Some (shift_error (ulen (text_of itB sepB)) e))).
    { rewrite HB. apply lex_fault_reported_holds; try assumption. rewrite <- HB. exact Hscb. }
    rewrite Hb in Hlb. injection Hlb as -> ->.
    rewrite Hbytes. clearbody fuel1 bytes. rewrite HB in Hfuel |- *.
    rewrite (lex_loop_badly uc (utf8 a') itB sepB badB e _ _ HadmB HsepB HbadB Hfuel).
    rewrite rev_involutive. cbn [option_map]. rewrite shift_error_add. f_equal.
    rewrite <- (spans_of_shift (List.length (utf8 a')) itB 0). f_equal. f_equal. lia.
Qed.

(* ====================================================================================== *)
(* C. where the diagnostic points                                                         *)
(* ====================================================================================== *)

(* ---- UTF-8 texts are well formed in the sense of RegionSpec ------------------------------------ *)
Lemma utf8_char_head c :
  exists b0 rest, utf8_char c = b0 :: rest /\ (c < 128 -> b0 = c /\ rest = []) /\ (128 <= c -> 192 <= b0).
Proof.
  unfold utf8_char. destruct (N.ltb_spec c 128).
  - eexists; eexists. split; [reflexivity |]. split; [intros _; split; reflexivity | lia].
  - destruct (c <? 2048); [eexists; eexists; split; [reflexivity | split; lia] |].
    destruct (c <? 65536); eexists; eexists; (split; [reflexivity | split; lia]).
Qed.

Lemma wf_text_char c : wf_text (utf8_char c).
Proof.
  unfold utf8_char.
  destruct (N.ltb_spec c 128) as [H1 | H1]; [| destruct (c <? 2048); [| destruct (c <? 65536)]];
    intros i Hi Hc; cbn [List.length] in Hi; unfold is_cont in Hc.
  - destruct i as [| i]; [cbn [nth] in Hc; lia | lia].
  - destruct i as [| [| i]]; cbn [nth Nat.sub] in *; [lia | split; lia | lia].
  - destruct i as [| [| [| i]]]; cbn [nth Nat.sub] in *; [lia | split; lia | split; lia | lia].
  - destruct i as [| [| [| [| i]]]]; cbn [nth Nat.sub] in *; [lia | split; lia | split; lia | split; lia | lia].
Qed.

Lemma wf_text_utf8 cs : wf_text (utf8 cs).
Proof.
  induction cs as [| c cs IH].
  - intros i Hi. cbn [utf8 flat_map List.length] in Hi. lia.
  - cbn [utf8 flat_map]. apply wf_text_app; [apply wf_text_char | exact IH].
Qed.

(* ---- counting line feeds ------------------------------------------------------------------------ *)
Lemma count_lf_forallb (p : N -> bool) l : forallb p l = true -> p 10 = false -> count_lf l = 0%nat.
Proof.
  intros Hall Hp. induction l as [| b l IH]; [reflexivity |].
  apply forallb_cons_true in Hall. destruct Hall as [Hb Hl].
  rewrite count_lf_cons, (IH Hl). unfold is_lf.
  destruct (N.eqb_spec b 10) as [-> | _]; [congruence | reflexivity].
Qed.

Lemma count_lf_not_in l : ~ In 10 l -> count_lf l = 0%nat.
Proof.
  induction l as [| b l IH]; intros H; [reflexivity |].
  rewrite count_lf_cons, IH by (intros Hin; apply H; right; exact Hin).
  unfold is_lf. destruct (N.eqb_spec b 10) as [-> | _]; [exfalso; apply H; left; reflexivity | reflexivity].
Qed.

Lemma count_lf_one b : b <> 10 -> count_lf [b] = 0%nat.
Proof. intros H. apply count_lf_not_in. intros [E | []]. congruence. Qed.

Lemma first_byte_not_lf c r : c <> 10 ->
  exists b0 rest, utf8 (c :: r) = b0 :: rest /\ b0 <> 10.
Proof.
  intros Hc. destruct (utf8_char_head c) as (b0 & rest & E & Hsmall & Hbig).
  exists b0, (rest ++ utf8 r). split; [cbn [utf8 flat_map]; rewrite E; reflexivity |].
  destruct (N.lt_ge_cases c 128) as [H | H].
  - destruct (Hsmall H) as [-> _]. exact Hc.
  - specialize (Hbig H). lia.
Qed.

(* ---- what the region of a fault covers ---------------------------------------------------------- *)
Definition bare_prefix_then_lf (e0 : lex_error) (A B : list N) : Prop :=
  e0 = LexLexicalError 2 /\
  exists d x r', A = [d; x] /\ dec_digit d = true /\ (x = 120 \/ x = 98) /\ B = 10 :: r'.

Definition fault_facts_of (e0 : lex_error) (bad : list N) : Prop :=
  exists A B,
    utf8 bad = A ++ B /\ List.length A = fst (lex_region e0) /\
    (fst (lex_region e0) <= snd (lex_region e0))%nat /\
    (count_lf (firstn (Nat.min (snd (lex_region e0) - fst (lex_region e0)) (List.length B)) B) = 0%nat \/
     bare_prefix_then_lf e0 A B) /\
    (B = [] -> A <> [] /\ ~ In 10 A).

Lemma ff_intro e0 bad A B :
  utf8 bad = A ++ B -> List.length A = fst (lex_region e0) ->
  (fst (lex_region e0) <= snd (lex_region e0))%nat ->
  (count_lf (firstn (Nat.min (snd (lex_region e0) - fst (lex_region e0)) (List.length B)) B) = 0%nat \/
   bare_prefix_then_lf e0 A B) ->
  (B = [] -> A <> [] /\ ~ In 10 A) -> fault_facts_of e0 bad.
Proof. intros H1 H2 H3 H4 H5. exists A, B. repeat split; assumption || apply H5; assumption. Qed.

Lemma firstn_min_app (X Y : list N) : firstn (Nat.min (List.length X) (List.length (X ++ Y))) (X ++ Y) = X.
Proof.
  rewrite app_length, Nat.min_l by lia. rewrite firstn_app, Nat.sub_diag, firstn_all.
  cbn [firstn]. apply app_nil_r.
Qed.

Lemma prefix_char_facts (x : N) d c r :
  dec_digit d = true -> x = 120 \/ x = 98 ->
  fault_facts_of (LexLexicalError 2) (d :: x :: c :: r).
Proof.
  intros Hd Hx.
  assert (Hu : utf8 (d :: x :: c :: r) = [d; x] ++ utf8 (c :: r)).
  { change (d :: x :: c :: r) with ([d; x] ++ c :: r). rewrite utf8_app. f_equal.
    apply utf8_ascii. cbn [forallb]. rewrite (dec_lt128 d Hd). destruct Hx as [-> | ->]; reflexivity. }
  apply (ff_intro _ _ [d; x] (utf8 (c :: r)) Hu); cbn [lex_region fst snd].
  - reflexivity.
  - lia.
  - destruct (N.eq_dec c 10) as [-> | Hc10].
    + right. split; [reflexivity |]. exists d, x, (utf8 r). repeat split; assumption.
    + left. destruct (first_byte_not_lf c r Hc10) as (b0 & rest & E & Hb0). rewrite E.
      cbn [List.length]. replace (2 + 1 - 2)%nat with 1%nat by lia. cbn [Nat.min firstn].
      apply count_lf_one. exact Hb0.
  - intros E. exfalso. destruct (utf8_char_head c) as (b1 & rest1 & E1 & _). cbn [utf8 flat_map] in E.
    rewrite E1 in E. discriminate E.
Qed.

Lemma literal_facts (lit r : list N) :
  forallb (fun b => b <? 128) lit = true -> ~ In 10 lit -> lit <> [] ->
  fault_facts_of (LexInvalidConstant 0 (List.length lit)) (lit ++ r).
Proof.
  intros Hasc Hno Hne.
  apply (ff_intro _ _ [] (lit ++ utf8 r)); cbn [lex_region fst snd].
  - rewrite utf8_app, (utf8_ascii _ Hasc). reflexivity.
  - reflexivity.
  - lia.
  - left. rewrite Nat.sub_0_r, firstn_min_app. apply count_lf_not_in. exact Hno.
  - intros E. exfalso. apply app_eq_nil in E. destruct E as [E _]. contradiction.
Qed.

Lemma fault_facts uc e0 bad : lex_fault uc e0 bad -> fault_facts_of e0 bad.
Proof.
  intros [c r Hc | r Hr | d x Hd Hx | d c r Hd Hc | d c r Hd Hc | d ds c r Hd Hne Hds Hcb Hcd
          | body Hbody | ds r Hds Hr Hv | d ds r Hd Hne Hds Hr Hv | d ds r Hd Hds Hr Hn].
  - (* a character that starts nothing *)
    assert (Hc10 : c <> 10).
    { intros ->. unfold starts_no_token in Hc. cbn in Hc. discriminate Hc. }
    destruct (first_byte_not_lf c r Hc10) as (b0 & rest & E & Hb0).
    apply (ff_intro _ _ [] (b0 :: rest) E); cbn [lex_region fst snd].
    + reflexivity.
    + lia.
    + left. cbn [List.length]. replace (0 + 1 - 0)%nat with 1%nat by lia.
      cbn [Nat.min firstn]. apply count_lf_one. exact Hb0.
    + discriminate.
  - apply (ff_intro _ _ [] (46 :: utf8 r)); cbn [lex_region fst snd].
    + reflexivity.
    + reflexivity.
    + lia.
    + left. cbn [List.length]. replace (0 + 1 - 0)%nat with 1%nat by lia. cbn [Nat.min firstn]. reflexivity.
    + discriminate.
  - assert (Hu : utf8 [d; x] = [d; x] ++ []).
    { rewrite app_nil_r. apply utf8_ascii. cbn [forallb]. rewrite (dec_lt128 d Hd).
      destruct Hx as [-> | ->]; reflexivity. }
    apply (ff_intro _ _ [d; x] [] Hu); cbn [lex_region fst snd].
    + reflexivity.
    + lia.
    + left. cbn [List.length]. rewrite Nat.min_0_r. reflexivity.
    + intros _. split; [discriminate |].
      intros [E | [E | []]]; [subst d; discriminate Hd | destruct Hx; subst x; discriminate E].
  - apply (prefix_char_facts 120 d c r Hd). left. reflexivity.
  - apply (prefix_char_facts 98 d c r Hd). right. reflexivity.
  - assert (HA : forallb (fun b => b <? 128) ([d; 98] ++ ds) = true).
    { cbn [app forallb]. rewrite (dec_lt128 d Hd). cbn [andb]. apply (digits_ascii _ _ bin_lt128 Hds). }
    assert (Hc128 : c < 128) by (apply dec_digit_lt128; exact Hcd).
    assert (Hu : utf8 ([d; 98] ++ ds ++ c :: r) = ([d; 98] ++ ds) ++ c :: utf8 r).
    { rewrite app_assoc, utf8_app, (utf8_ascii _ HA). f_equal.
      cbn [utf8 flat_map]. unfold utf8_char. apply N.ltb_lt in Hc128. rewrite Hc128. reflexivity. }
    apply (ff_intro _ _ ([d; 98] ++ ds) (c :: utf8 r) Hu); cbn [lex_region fst snd].
    + cbn [app List.length]. lia.
    + lia.
    + left. cbn [List.length]. replace (2 + List.length ds + 1 - (2 + List.length ds))%nat with 1%nat by lia.
      cbn [Nat.min firstn]. apply count_lf_one. intros ->. discriminate Hcd.
    + discriminate.
  - apply (ff_intro _ _ [] ([47; 42] ++ utf8 body)); cbn [lex_region fst snd].
    + rewrite utf8_app. reflexivity.
    + reflexivity.
    + lia.
    + left. cbn [app List.length]. replace (0 + 2 - 0)%nat with 2%nat by lia. cbn [Nat.min firstn]. reflexivity.
    + discriminate.
  - apply literal_facts.
    + apply (digits_ascii _ _ dec_lt128 Hds).
    + apply (forallb_not_in _ _ Hds). reflexivity.
    + intros ->. cbn [positional] in Hv. unfold two128 in Hv. lia.
  - replace ([d; 120] ++ ds ++ r) with (([d; 120] ++ ds) ++ r) by (rewrite <- app_assoc; reflexivity).
    replace (2 + List.length ds)%nat with (List.length ([d; 120] ++ ds)) by reflexivity.
    apply literal_facts.
    + cbn [app forallb]. rewrite (dec_lt128 d Hd). apply (digits_ascii _ _ hex_lt128 Hds).
    + intros [E | [E | Hin]]; [subst d; discriminate Hd | discriminate E |].
      apply (forallb_not_in _ _ Hds eq_refl Hin).
    + discriminate.
  - replace ([d; 98] ++ ds ++ r) with (([d; 98] ++ ds) ++ r) by (rewrite <- app_assoc; reflexivity).
    replace (2 + List.length ds)%nat with (List.length ([d; 98] ++ ds)) by reflexivity.
    apply literal_facts.
    + cbn [app forallb]. rewrite (dec_lt128 d Hd). apply (digits_ascii _ _ bin_lt128 Hds).
    + intros [E | [E | Hin]]; [subst d; discriminate Hd | discriminate E |].
      apply (forallb_not_in _ _ Hds eq_refl Hin).
    + discriminate.
Qed.

(* ---- the rendered region -------------------------------------------------------------------------- *)
Lemma lex_region_shift k e :
  lex_region (shift_error k e) = ((k + fst (lex_region e))%nat, (k + snd (lex_region e))%nat).
Proof. destruct e; cbn [shift_error lex_region fst snd]; f_equal; lia. Qed.

Lemma after_last_lf_app_nolf (A : list N) : forall X cur,
  count_lf A = 0%nat -> after_last_lf (X ++ A) cur = after_last_lf X cur ++ A.
Proof.
  intros X. induction X as [| b X IH]; intros cur HA.
  - cbn [app after_last_lf]. apply after_last_lf_nolf. exact HA.
  - cbn [app after_last_lf]. destruct (is_lf b); apply IH; exact HA.
Qed.

Lemma skipn_nonempty {A} (l : list A) k : (k < List.length l)%nat -> skipn k l <> [].
Proof.
  intros Hk E. pose proof (skipn_length k l) as H. rewrite E in H. cbn [List.length] in H. lia.
Qed.

Lemma span_at (X B : list N) n : span (X ++ B) (List.length X) (List.length X + n) = firstn n B.
Proof.
  unfold span. rewrite skipn_app, skipn_all, Nat.sub_diag. cbn [skipn app].
  f_equal. lia.
Qed.

Theorem lexical_diagnostic_located_holds : stmt_lexical_diagnostic_located.
Proof.
  intros uc ptext utext fname ptoks toks err Hsc Hp Hl. unfold diagnostic_located. cbv zeta.
  set (pre := utf8 (ptext ++ [10])). set (user := utf8 utext).
  destruct (lex uc (utf8 utext)) as [toks_u err_u] eqn:Hu.
  pose proof (lex_app_holds uc ptext utext ptoks toks_u err_u Hsc Hp Hu) as Happ. cbv zeta in Happ.
  rewrite Hl in Happ. injection Happ as _ He.
  destruct err_u as [eu |]; [| discriminate He]. cbn [option_map] in He. injection He as He.
  assert (Hscu : Forall scalar utext).
  { rewrite app_assoc in Hsc. apply (Forall_app_r _ _ _ Hsc). }
  destruct (lex_error_meaning_holds uc utext toks_u eu Hscu Hu) as (before & bad & e0 & HU & Hbad & Heu & _).
  destruct (fault_facts uc e0 bad Hbad) as (A & B & HAB & HlenA & Hle & Hcount & HBnil).
  set (k := List.length pre). set (m := List.length (utf8 before)).
  assert (Herr : err = shift_error (k + m) e0).
  { rewrite He, Heu, shift_error_add. reflexivity. }
  assert (Huser : user = (utf8 before ++ A) ++ B).
  { unfold user. rewrite HU, utf8_app, HAB, app_assoc. reflexivity. }
  assert (Hulen : List.length user = (m + List.length A + List.length B)%nat).
  { rewrite Huser, !app_length. reflexivity. }
  set (o := (m + List.length A)%nat).
  assert (Ho : o = List.length (utf8 before ++ A)) by (unfold o, m; rewrite app_length; reflexivity).
  assert (Hreg : lex_region err = ((k + m + fst (lex_region e0))%nat, (k + m + snd (lex_region e0))%nat)).
  { rewrite Herr. apply lex_region_shift. }
  set (n := caret_count (k + List.length user) err).
  assert (Hn : n = Nat.min (snd (lex_region e0) - fst (lex_region e0)) (List.length B)).
  { unfold n, caret_count. rewrite Hreg. cbn [fst snd]. lia. }
  assert (Hspan : span user o (o + n) = firstn n B).
  { rewrite Huser, Ho. apply span_at. }
  exists o. split; [rewrite Hreg; cbn [fst]; unfold o; lia |].
  split; [lia |]. split; [lia |]. split.
  - (* the region lies on one line *)
    intros Hcnt.
    assert (Hline : skipn (o - col_of user o) user <> []).
    { destruct B as [| b0 B'].
      - destruct (HBnil eq_refl) as [HAne HAno].
        assert (Ho' : o = List.length user) by (rewrite Hulen; cbn [List.length]; lia).
        assert (Hcol : (List.length A <= col_of user o)%nat).
        { unfold col_of. rewrite Ho', firstn_all. rewrite Huser, app_nil_r.
          rewrite after_last_lf_app_nolf by (apply count_lf_not_in; exact HAno).
          rewrite app_length. lia. }
        apply skipn_nonempty. destruct A; [congruence |]. cbn [List.length] in *. lia.
      - apply skipn_nonempty. rewrite Hulen. cbn [List.length]. lia. }
    assert (Hone := locate_one_line_ok pre user fname o (o + n)%nat (wf_text_utf8 _) (wf_text_utf8 _)
                      ltac:(lia) ltac:(lia) Hcnt Hline).
    unfold render_lex_error. rewrite show_region_clamped.
    assert (Hdata : List.length (fc_data (new_from_data pre user fname)) = (k + List.length user)%nat).
    { cbn [new_from_data fc_data]. apply app_length. }
    rewrite Hdata, Hreg. cbn [fst snd].
    replace (Nat.min (k + m + snd (lex_region e0)) (k + List.length user)) with (k + (o + n))%nat by lia.
    replace (Nat.min (k + m + fst (lex_region e0)) (k + (o + n))) with (k + o)%nat by lia.
    fold k in Hone. rewrite Hone. replace (o + n - o)%nat with n by lia. reflexivity.
  - (* the line feed after a bare radix prefix *)
    intros Hcnt.
    destruct Hcount as [Hc | (He0 & d & x & r' & HA & Hd & Hx & HB)].
    { exfalso. apply Hcnt. rewrite Hspan, Hn. exact Hc. }
    subst e0 A B. cbn [lex_region fst snd List.length] in *.
    split; [rewrite Herr; cbn [shift_error]; f_equal; unfold o; lia |].
    split; [lia |]. split; [unfold o; lia |].
    assert (Hu2 : user = utf8 before ++ [d; x] ++ 10 :: r') by (rewrite Huser, <- app_assoc; reflexivity).
    rewrite Hu2. unfold o, m.
    split; [| split].
    + replace (List.length (utf8 before) + 2)%nat with (List.length (utf8 before) + 2)%nat by lia.
      rewrite app_nth2_plus. reflexivity.
    + replace (List.length (utf8 before) + 2 - 1)%nat with (List.length (utf8 before) + 1)%nat by lia.
      rewrite app_nth2_plus. cbn [app nth]. exact Hx.
    + replace (List.length (utf8 before) + 2 - 2)%nat with (List.length (utf8 before) + 0)%nat by lia.
      rewrite app_nth2_plus. cbn [app nth]. exact Hd.
Qed.

(* ---- the offsets, in bytes ------------------------------------------------------------------------ *)
Theorem unterminated_comment_bytes_holds : stmt_unterminated_comment_bytes.
Proof.
  intros uc text toks loc Hsc Hlex.
  destruct (lex_error_meaning_holds uc text toks _ Hsc Hlex) as (before & bad & e0 & HT & Hbad & He & _).
  destruct Hbad; cbn [shift_error] in He; try discriminate He.
  injection He as Hloc. exists body. split; [| assumption].
  rewrite HT, utf8_app. rewrite Hloc. unfold ulen. rewrite Nat.add_0_r.
  rewrite skipn_app_length. rewrite utf8_app. reflexivity.
Qed.

Lemma head_is_utf8 (p : N -> bool) r :
  (forall b, 128 <= b -> p b = false) -> head_is p r = false -> head_is p (utf8 r) = false.
Proof.
  intros Hp Hr. destruct r as [| c r']; [reflexivity |].
  cbn [head_is] in Hr. cbn [utf8 flat_map].
  destruct (utf8_char_head c) as (b0 & rest & E & Hsmall & Hbig). rewrite E. cbn [app head_is].
  destruct (N.lt_ge_cases c 128) as [H | H].
  - destruct (Hsmall H) as [-> _]. exact Hr.
  - apply Hp. specialize (Hbig H). lia.
Qed.

Lemma dec_digit_big b : 128 <= b -> dec_digit b = false.
Proof. unfold dec_digit. lia. Qed.
Lemma hex_digit_big b : 128 <= b -> hex_digit b = false.
Proof. unfold hex_digit, dec_digit. lia. Qed.

Lemma literal_bytes (before lit r : list N) :
  forallb (fun b => b <? 128) lit = true ->
  let bytes := utf8 (before ++ lit ++ r) in
  let s := ulen before in
  let e := (ulen before + List.length lit)%nat in
  slice bytes s e = lit /\ skipn e bytes = utf8 r /\ (e <= List.length bytes)%nat.
Proof.
  intros Hasc. cbv zeta. unfold ulen.
  rewrite !utf8_app, (utf8_ascii _ Hasc). split; [| split].
  - apply slice_mid; reflexivity.
  - rewrite app_assoc. rewrite <- app_length. apply skipn_app_length.
  - rewrite !app_length. lia.
Qed.

Theorem invalid_constant_bytes_holds : stmt_invalid_constant_bytes.
Proof.
  intros uc text toks s e Hsc Hlex. cbv zeta.
  destruct (lex_error_meaning_holds uc text toks _ Hsc Hlex) as (before & bad & e0 & HT & Hbad & He & _).
  destruct Hbad as [| | | | | | | ds r Hds Hr Hv | d ds r Hd Hne Hds Hr Hv | d ds r Hd Hds Hr Hn];
    cbn [shift_error] in He; try discriminate He; injection He as Hs Hee; rewrite Nat.add_0_r in Hs.
  - pose proof (digits_ascii _ _ dec_lt128 Hds) as Hasc.
    destruct (literal_bytes before ds r Hasc) as (Hsl & Hsk & Hle).
    rewrite HT, Hs, Hee, Hsl, Hsk.
    assert (Hne : ds <> []) by (intros ->; cbn [positional] in Hv; unfold two128 in Hv; lia).
    split; [destruct ds; [congruence | cbn [List.length]; lia] |]. split; [exact Hle |].
    left. split; [exact Hds |]. split; [exact Hv |]. apply head_is_utf8; [apply dec_digit_big | exact Hr].
  - assert (Hasc : forallb (fun b => b <? 128) ([d; 120] ++ ds) = true).
    { cbn [app forallb]. rewrite (dec_lt128 d Hd). apply (digits_ascii _ _ hex_lt128 Hds). }
    replace ([d; 120] ++ ds ++ r) with (([d; 120] ++ ds) ++ r) in HT by (rewrite <- app_assoc; reflexivity).
    destruct (literal_bytes before ([d; 120] ++ ds) r Hasc) as (Hsl & Hsk & Hle).
    assert (Hee' : e = (ulen before + List.length ([d; 120%N] ++ ds))%nat) by (rewrite Hee; reflexivity).
    rewrite HT, Hs, Hee', Hsl, Hsk.
    split; [cbn [app List.length]; lia |]. split; [exact Hle |].
    right. left. exists d, ds. repeat split; try assumption.
    apply head_is_utf8; [apply hex_digit_big | exact Hr].
  - assert (Hasc : forallb (fun b => b <? 128) ([d; 98] ++ ds) = true).
    { cbn [app forallb]. rewrite (dec_lt128 d Hd). apply (digits_ascii _ _ bin_lt128 Hds). }
    replace ([d; 98] ++ ds ++ r) with (([d; 98] ++ ds) ++ r) in HT by (rewrite <- app_assoc; reflexivity).
    destruct (literal_bytes before ([d; 98] ++ ds) r Hasc) as (Hsl & Hsk & Hle).
    assert (Hee' : e = (ulen before + List.length ([d; 98%N] ++ ds))%nat) by (rewrite Hee; reflexivity).
    rewrite HT, Hs, Hee', Hsl, Hsk.
    split; [cbn [app List.length]; lia |]. split; [exact Hle |].
    right. right. exists d, ds. repeat split; try assumption.
    apply head_is_utf8; [apply dec_digit_big | exact Hr].
Qed.

Theorem caret_count_by_kind_holds : stmt_caret_count_by_kind.
Proof.
  intros uc text toks err Hsc Hlex. cbv zeta.
  destruct (lex_spans_holds uc (utf8 text) toks (Some err) Hlex) as (_ & _ & Hrange).
  destruct (Hrange err eq_refl) as [Hin _].
  destruct err as [loc | loc | s e]; unfold caret_count; cbn [lex_region fst snd lex_error_in_range] in *.
  - destruct (Nat.ltb_spec loc (List.length (utf8 text))); lia.
  - destruct (unterminated_comment_bytes_holds uc text toks loc Hsc Hlex) as (body & Hsk & _).
    pose proof (skipn_length loc (utf8 text)) as Hlen. rewrite Hsk in Hlen.
    cbn [app List.length] in Hlen. lia.
  - lia.
Qed.

(* ====================================================================================== *)
(* D. the built-in preamble, and examples                                                 *)
(* ====================================================================================== *)
Theorem gen_preamble_ok_holds : stmt_gen_preamble_ok.
Proof.
  exists (removelast preamble_bytes), (fst (lex test_uclass preamble_bytes)).
  assert (Hlast : removelast preamble_bytes ++ [10] = preamble_bytes) by (vm_compute; reflexivity).
  assert (Hasc : forallb (fun b => b <? 128) preamble_bytes = true) by (vm_compute; reflexivity).
  split; [| split].
  - rewrite Hlast. symmetry. apply utf8_ascii. exact Hasc.
  - rewrite Hlast. apply scalar_check. vm_compute. reflexivity.
  - intros uc. vm_compute. reflexivity.
Qed.

Theorem lexical_diagnostic_located_gen_holds : stmt_lexical_diagnostic_located_gen.
Proof.
  intros uc utext fname toks err Hsc Hlex.
  destruct gen_preamble_ok_holds as (ptext & ptoks & Hpre & Hscp & Hplex).
  rewrite Hpre in Hlex |- *. rewrite <- utf8_app in Hlex.
  apply (lexical_diagnostic_located_holds uc ptext utext fname ptoks toks err).
  - rewrite app_assoc. apply Forall_app. split; assumption.
  - rewrite <- Hpre. apply Hplex.
  - exact Hlex.
Qed.

Definition ex_file : list N := [101; 120; 46; 104; 99; 108].                    (* "ex.hcl" *)
Definition ex_fc (user : list N) : file_contents := new_from_data preamble_bytes user ex_file.
Definition plen : nat := List.length preamble_bytes.

(* "wire x : 8; x = 1 $ 2;\n" *)
Definition ex_dollar : list N :=
  [119; 105; 114; 101; 32; 120; 32; 58; 32; 56; 59; 32; 120; 32; 61; 32; 49; 32; 36; 32; 50; 59; 10].
Example ex_dollar_located :
  snd (lex test_uclass (preamble_bytes ++ ex_dollar)) = Some (LexLexicalError (plen + 18)) /\
  render_lex_error (ex_fc ex_dollar) (LexLexicalError (plen + 18)) =
  Some (one_line_region ex_file 1
          [119; 105; 114; 101; 32; 120; 32; 58; 32; 56; 59; 32; 120; 32; 61; 32; 49; 32; 36; 32; 50; 59] 18 1).
Proof. split; vm_compute; reflexivity. Qed.

(* "wire x : 64;\n\nx = 1234567890123456789012345678901234567890;\n": 40 digits on line 3 *)
Definition ex_big : list N :=
  [119; 105; 114; 101; 32; 120; 32; 58; 32; 54; 52; 59; 10; 10; 120; 32; 61; 32; 49; 50; 51; 52; 53; 54; 55; 56;
   57; 48; 49; 50; 51; 52; 53; 54; 55; 56; 57; 48; 49; 50; 51; 52; 53; 54; 55; 56; 57; 48; 49; 50; 51; 52; 53; 54;
   55; 56; 57; 48; 59; 10].
Example ex_big_located :
  snd (lex test_uclass (preamble_bytes ++ ex_big)) = Some (LexInvalidConstant (plen + 18) (plen + 58)) /\
  render_lex_error (ex_fc ex_big) (LexInvalidConstant (plen + 18) (plen + 58)) =
  Some (one_line_region ex_file 3
          [120; 32; 61; 32; 49; 50; 51; 52; 53; 54; 55; 56; 57; 48; 49; 50; 51; 52; 53; 54; 55; 56; 57; 48; 49; 50;
           51; 52; 53; 54; 55; 56; 57; 48; 49; 50; 51; 52; 53; 54; 55; 56; 57; 48; 59] 4 40).
Proof. split; vm_compute; reflexivity. Qed.

(* "wire x : 1;\nx = 1; /* never closed": an unterminated comment on the last line *)
Definition ex_comment : list N :=
  [119; 105; 114; 101; 32; 120; 32; 58; 32; 49; 59; 10; 120; 32; 61; 32; 49; 59; 32; 47; 42; 32; 110; 101; 118;
   101; 114; 32; 99; 108; 111; 115; 101; 100].
Example ex_comment_located :
  snd (lex test_uclass (preamble_bytes ++ ex_comment)) = Some (LexUnterminatedComment (plen + 19)) /\
  render_lex_error (ex_fc ex_comment) (LexUnterminatedComment (plen + 19)) =
  Some (one_line_region ex_file 2
          [120; 32; 61; 32; 49; 59; 32; 47; 42; 32; 110; 101; 118; 101; 114; 32; 99; 108; 111; 115; 101; 100] 7 2).
Proof. split; vm_compute; reflexivity. Qed.

(* "wire x : 8;\nx = 0x": a radix prefix at the very end of the text - the error is the end of the
   text, the diagnostic shows the line and NO caret *)
Definition ex_0x_end : list N :=
  [119; 105; 114; 101; 32; 120; 32; 58; 32; 56; 59; 10; 120; 32; 61; 32; 48; 120].
Example ex_0x_end_located :
  snd (lex test_uclass (preamble_bytes ++ ex_0x_end)) = Some (LexLexicalError (plen + 18)) /\
  (plen + 18)%nat = List.length (preamble_bytes ++ ex_0x_end) /\
  render_lex_error (ex_fc ex_0x_end) (LexLexicalError (plen + 18)) =
  Some (one_line_region ex_file 2 [120; 32; 61; 32; 48; 120] 6 0).
Proof. split; [| split]; vm_compute; reflexivity. Qed.

(* "x = 0x\ny = 1;\n": the radix prefix at the end of a line - the error is the LINE FEED, the
   diagnostic echoes line 1 with no caret and then line 2, which has nothing to do with it *)
Definition ex_0x_lf : list N := [120; 32; 61; 32; 48; 120; 10; 121; 32; 61; 32; 49; 59; 10].
Example ex_0x_lf_rendered :
  snd (lex test_uclass (preamble_bytes ++ ex_0x_lf)) = Some (LexLexicalError (plen + 6)) /\
  nth 6 ex_0x_lf 0 = 10 /\
  render_lex_error (ex_fc ex_0x_lf) (LexLexicalError (plen + 6)) =
  Some (region_header ex_file 1 ++
        echoed_line 1 [120; 32; 61; 32; 48; 120] 6 0 ++           (* "x = 0x", no caret *)
        echoed_line 2 [121; 32; 61; 32; 49; 59] 0 0).              (* "y = 1;", no caret *)
Proof. split; [| split]; vm_compute; reflexivity. Qed.

(* the hypotheses of stmt_lexical_diagnostic_located are met by the built-in preamble and the first
   example, and its conclusion is the rendering computed above *)
Example located_nonvacuous :
  exists ptext utext ptoks toks err,
    preamble_bytes = utf8 (ptext ++ [10]) /\ ex_dollar = utf8 utext /\
    Forall scalar (ptext ++ [10] ++ utext) /\
    lex test_uclass (utf8 (ptext ++ [10])) = (ptoks, None) /\
    lex test_uclass (utf8 ((ptext ++ [10]) ++ utext)) = (toks, Some err) /\
    caret_count (List.length (utf8 (ptext ++ [10])) + List.length (utf8 utext)) err = 1%nat.
Proof.
  exists (removelast preamble_bytes), ex_dollar,
         (fst (lex test_uclass preamble_bytes)),
         (fst (lex test_uclass (preamble_bytes ++ ex_dollar))), (LexLexicalError (plen + 18)).
  assert (Hlast : removelast preamble_bytes ++ [10] = preamble_bytes) by (vm_compute; reflexivity).
  assert (Hasc : forallb (fun b => b <? 128) preamble_bytes = true) by (vm_compute; reflexivity).
  assert (Hasc2 : forallb (fun b => b <? 128) ex_dollar = true) by (vm_compute; reflexivity).
  assert (Hu1 : utf8 preamble_bytes = preamble_bytes) by (apply utf8_ascii; exact Hasc).
  assert (Hu2 : utf8 ex_dollar = ex_dollar) by (apply utf8_ascii; exact Hasc2).
  split; [rewrite Hlast, Hu1; reflexivity |]. split; [rewrite Hu2; reflexivity |].
  split; [rewrite app_assoc, Hlast; apply scalar_check; vm_compute; reflexivity |].
  rewrite (utf8_app (removelast preamble_bytes ++ [10]) ex_dollar), !Hlast, !Hu1, !Hu2.
  split; [vm_compute; reflexivity |].
  split; vm_compute; reflexivity.
Qed.

(* ---- further instances ---------------------------------------------------------------------------- *)
(* the end-to-end theorem applied to the first example *)
Example located_gen_instance :
  diagnostic_located preamble_bytes ex_dollar ex_file (LexLexicalError (plen + 18)).
Proof.
  assert (Hasc : forallb (fun b => b <? 128) ex_dollar = true) by (vm_compute; reflexivity).
  assert (Hu : utf8 ex_dollar = ex_dollar) by (apply utf8_ascii; exact Hasc).
  rewrite <- Hu.
  apply (lexical_diagnostic_located_gen_holds test_uclass ex_dollar ex_file
           (fst (lex test_uclass (preamble_bytes ++ ex_dollar)))).
  - apply scalar_check. vm_compute. reflexivity.
  - rewrite Hu. vm_compute. reflexivity.
Qed.

(* every shape of fault occurs *)
Example fault_char : lex_fault test_uclass (LexLexicalError 0) [36; 32].                 (* "$ " *)
Proof. apply lf_char. reflexivity. Qed.
Example fault_dot : lex_fault test_uclass (LexLexicalError 0) [46; 59].                  (* ".;" *)
Proof. apply lf_dot. reflexivity. Qed.
Example fault_prefix_end : lex_fault test_uclass (LexLexicalError 2) [48; 120].          (* "0x" *)
Proof. apply lf_prefix_end; [reflexivity | left; reflexivity]. Qed.
Example fault_prefix_hex : lex_fault test_uclass (LexLexicalError 2) [48; 120; 10].      (* "0x" LF *)
Proof. apply lf_prefix_hex; reflexivity. Qed.
Example fault_prefix_bin : lex_fault test_uclass (LexLexicalError 2) [48; 98; 59].       (* "0b;" *)
Proof. apply lf_prefix_bin; reflexivity. Qed.
Example fault_bin_then_dec : lex_fault test_uclass (LexLexicalError 4) ([48; 98] ++ [48; 49] ++ 50 :: [59]).
Proof. apply (lf_bin_then_dec test_uclass 48 [48; 49] 50 [59]); try reflexivity. discriminate. Qed.                        (* "0b012;" *)
Example fault_comment : lex_fault test_uclass (LexUnterminatedComment 0) ([47; 42] ++ [42; 32; 47]).
Proof. apply lf_comment. reflexivity. Qed.                                               (* "/** /" *)
Example fault_dec :                                                                      (* 2^128 ";" *)
  lex_fault test_uclass (LexInvalidConstant 0 39)
            ([51; 52; 48; 50; 56; 50; 51; 54; 54; 57; 50; 48; 57; 51; 56; 52; 54; 51; 52; 54; 51; 51; 55; 52; 54; 48;
              55; 52; 51; 49; 55; 54; 56; 50; 49; 49; 52; 53; 54] ++ [59]).
Proof.
  apply (lf_dec test_uclass
           [51; 52; 48; 50; 56; 50; 51; 54; 54; 57; 50; 48; 57; 51; 56; 52; 54; 51; 52; 54; 51; 51; 55; 52; 54; 48;
            55; 52; 51; 49; 55; 54; 56; 50; 49; 49; 52; 53; 54] [59]); vm_compute; (reflexivity || discriminate).
Qed.

(* the two undocumented spellings: 1x1F is 31, 7b101 is 5 (3 bits) *)
Example odd_hex : lex test_uclass [49; 120; 49; 70] = ([(0%nat, TLit (mkV 31 Unl), 4%nat)], None).
Proof. vm_compute. reflexivity. Qed.
Example odd_bin : lex test_uclass [55; 98; 49; 48; 49] = ([(0%nat, TLit (mkV 5 (Bits 3)), 5%nat)], None).
Proof. vm_compute. reflexivity. Qed.

(* lexing after a text that ends with a line feed *)
Example lex_app_instance :
  lex test_uclass (utf8 (([97] ++ [10]) ++ [98; 32; 36])) =
  ([(0%nat, TIdentifier [97], 1%nat); (2%nat, TIdentifier [98], 3%nat)], Some (LexLexicalError 4)) /\
  lex test_uclass (utf8 [98; 32; 36]) = ([(0%nat, TIdentifier [98], 1%nat)], Some (LexLexicalError 2)).
Proof. split; vm_compute; reflexivity. Qed.

(* the bytes of an out-of-range constant / after an unterminated comment *)
Example invalid_constant_instance :
  slice (preamble_bytes ++ ex_big) (plen + 18) (plen + 58) =
  [49; 50; 51; 52; 53; 54; 55; 56; 57; 48; 49; 50; 51; 52; 53; 54; 55; 56; 57; 48; 49; 50; 51; 52; 53; 54; 55; 56; 57;
   48; 49; 50; 51; 52; 53; 54; 55; 56; 57; 48] /\
  nth (plen + 58) (preamble_bytes ++ ex_big) 0 = 59.
Proof. split; vm_compute; reflexivity. Qed.
Example unterminated_comment_instance :
  skipn (plen + 19) (preamble_bytes ++ ex_comment) =
  [47; 42] ++ [32; 110; 101; 118; 101; 114; 32; 99; 108; 111; 115; 101; 100].
Proof. vm_compute. reflexivity. Qed.

Print Assumptions lex_characterised_holds.
Print Assumptions lex_items_holds.
Print Assumptions lex_fault_reported_holds.
Print Assumptions lex_ok_inv_holds.
Print Assumptions lex_error_meaning_holds.
Print Assumptions lex_app_holds.
Print Assumptions invalid_constant_bytes_holds.
Print Assumptions unterminated_comment_bytes_holds.
Print Assumptions lexical_diagnostic_located_holds.
Print Assumptions lexical_diagnostic_located_gen_holds.
Print Assumptions caret_count_by_kind_holds.
Print Assumptions gen_preamble_ok_holds.
