(* C17 at program level: the five strictness build options (strict-boolean-ops,
   strict-wire-widths-binary, require-mux-default, disallow-multiple-mux-default,
   disallow-unreachable-options), as they act on whole programs: Program::new (model:
   Build.build_program f gen_fixed ...) and the simulator (Machine.step / Machine.run), which both
   take the feature record f.

   "For every combination of the five options, a program is accepted exactly when it passes the
   always-on rules plus the rules of the options that are enabled.  A program accepted under two
   combinations simulates identically under both."

   Expression level (ExprSpec / ExprRules): stmt_features_monotone, stmt_features_same_value,
   stmt_check_iff.  Here: the same for statement lists. *)
From HclV Require Import Base Expr ExprSpec ExprRules Machine MachineSpec SchedSpec Build BuildSpec
                         Generated CompleteSpec.
Open Scope string_scope.
Open Scope list_scope.
Open Scope N_scope.

(* ---- combinations of options ---------------------------------------------------------------- *)
Definition all_off : features := mkF false false false false false.
Definition only_sbo : features := mkF true false false false false.   (* strict-boolean-ops *)
Definition only_swb : features := mkF false true false false false.   (* strict-wire-widths-binary *)
Definition only_rmd : features := mkF false false true false false.   (* require-mux-default *)
Definition only_dmd : features := mkF false false false true false.   (* disallow-multiple-mux-default *)
Definition only_duo : features := mkF false false false false true.   (* disallow-unreachable-options *)

(* both sets of options together / the options common to both *)
Definition feat_join (a b : features) : features :=
  mkF (f_sbo a || f_sbo b) (f_swb a || f_swb b) (f_rmd a || f_rmd b) (f_dmd a || f_dmd b)
      (f_duo a || f_duo b).
Definition feat_meet (a b : features) : features :=
  mkF (f_sbo a && f_sbo b) (f_swb a && f_swb b) (f_rmd a && f_rmd b) (f_dmd a && f_dmd b)
      (f_duo a && f_duo b).

(* the options enabled in f, one at a time *)
Definition enabled_singles (f : features) : list features :=
  (if f_sbo f then [only_sbo] else []) ++ (if f_swb f then [only_swb] else []) ++
  (if f_rmd f then [only_rmd] else []) ++ (if f_dmd f then [only_dmd] else []) ++
  (if f_duo f then [only_duo] else []).

Section FeatureSpec.
  Variable is_lower : string -> bool.
  Variable is_upper : string -> bool.

  Notation build f := (build_program f gen_fixed is_lower is_upper).

  Definition accepted (f : features) (stmts : list stmt) : Prop := exists p, build f stmts = Ok p.

  (* ---- 1. turning options off never rejects more, and never changes the compiled program ------ *)
  (* the SAME program: same constants, same action list in the same order, same banks, same
     defaulted signals, same wire types.  wf_stmt: what the grammar guarantees (literal widths,
     declared widths, slice bounds <= 128; literals fit their width). *)
  Definition stmt_program_monotone : Prop :=
    forall a b stmts p,
      feat_le a b -> Forall wf_stmt stmts -> build b stmts = Ok p -> build a stmts = Ok p.

  (* ---- 2. two combinations that both accept compile the same program --------------------------- *)
  Definition stmt_program_same_under_two_sets : Prop :=
    forall a b stmts p p',
      Forall wf_stmt stmts -> build a stmts = Ok p -> build b stmts = Ok p' -> p = p'.

  (* ... and then the program also passes with both sets of options enabled together *)
  Definition stmt_program_join : Prop :=
    forall a b stmts p p',
      Forall wf_stmt stmts -> build a stmts = Ok p -> build b stmts = Ok p' ->
      build (feat_join a b) stmts = Ok p.

  (* ---- the property's first sentence ------------------------------------------------------------ *)
  (* a program is accepted under f exactly when it is accepted with every option off (the
     always-on rules) and with each enabled option alone (the rule of that option) *)
  Definition stmt_accepted_iff_each_enabled_option : Prop :=
    forall f stmts,
      Forall wf_stmt stmts ->
      (accepted f stmts <->
       accepted all_off stmts /\ Forall (fun g => accepted g stmts) (enabled_singles f)).

  (* the declarative reading (CompleteSpec.fault_free): acceptance under f is fault freedom, where
     f enters only as the parameter of the width judgement has_width f / assign_ok f - i.e. through
     the five option-guarded premises of ExprRules (f_sbo in HW_logical, f_swb in HW_arith, f_rmd /
     f_dmd / f_duo in default_rules) - and of the evaluator used on constant expressions *)
  Definition stmt_accepted_iff_rules : Prop :=
    forall f stmts, accepted f stmts <-> fault_free f gen_fixed is_lower is_upper stmts.

  (* ---- 3. a program accepted under two combinations simulates identically under both ----------- *)
  (* machine level: for a program well typed for both option sets (same width environment), one
     cycle and any run from any well-typed state give the same result - same state, same output
     text, same error *)
  Definition stmt_step_feature_independent : Prop :=
    forall a b o G p s,
      program_ok a G p -> program_ok b G p -> state_ok G p s ->
      step a o p s = step b o p s /\ forall fuel, run fuel a o p s = run fuel b o p s.

  (* end to end: a program accepted under a and under b (it is the same program, 2.) is well typed
     for both with one width environment; its initial state is well typed; and from every
     well-typed state (these are closed under step, C07) - in particular from the initial state
     with any memory image - step and run agree *)
  Definition stmt_simulation_same_under_two_sets : Prop :=
    forall a b stmts p,
      Forall wf_stmt stmts -> build a stmts = Ok p -> build b stmts = Ok p ->
      exists G,
        program_ok a G p /\ program_ok b G p /\
        (exists s0, initial_state p = Ok s0 /\ state_ok G p s0) /\
        forall o s, state_ok G p s ->
          step a o p s = step b o p s /\ forall fuel, run fuel a o p s = run fuel b o p s.
End FeatureSpec.

(* ---- 4. each option guards its own rule: separating programs ------------------------------------ *)
(* five statement lists (given in FeatureProofs.v with their HCL text) such that, for EVERY
   combination f of the options, the program is accepted iff its option is off - whatever the
   other four.  One exception is forced by the rules themselves: two always-true arms make the
   second one unreachable, so whatever disallow-multiple-mux-default rejects,
   disallow-unreachable-options rejects too (stmt_duo_subsumes_dmd); the program for dmd is
   accepted iff dmd and duo are both off. *)
Definition separates (stmts : list stmt) (guard : features -> bool) : Prop :=
  forall f, is_ok (build_program f gen_fixed ascii_lower ascii_upper stmts) = negb (guard f).

Definition stmt_each_option_guards_its_rule
           (p_sbo p_swb p_rmd p_dmd p_duo : list stmt) : Prop :=
  separates p_sbo f_sbo /\ separates p_swb f_swb /\ separates p_rmd f_rmd /\
  separates p_dmd (fun f => f_dmd f || f_duo f) /\ separates p_duo f_duo.

(* the rule of disallow-unreachable-options implies the rule of disallow-multiple-mux-default *)
Definition stmt_duo_subsumes_dmd : Prop :=
  forall flags, (forall i, nth i flags false = true -> S i = List.length flags) ->
                (count_true flags <= 1)%nat.
