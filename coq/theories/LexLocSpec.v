(* C14 for the diagnostics of the lexer: what the offset in a lexical error MEANS (statements about
   Lexer.lex), and where the rendered diagnostic points (composition with Region.show_region).

   A text is a list of characters (code points, TriviaSpec.scalar); the lexer receives its UTF-8
   encoding (TriviaSpec.utf8) - every Rust String is such an encoding.  Offsets are byte offsets.
   The vocabulary of TriviaSpec.v is reused: trivia (a separator: white space and closed
   comments), trivia_final (a separator at the end of the text: its last line comment may be
   open), spells (the spellings of a token), may_follow (the character after a token does not
   merge with it), text_of / spans_of (a text made of items = (separator, token, spelling)). *)
From HclV Require Import Base Expr Build Lexer Parser LexParseSpec TriviaSpec FrontTotalSpec
                         Yo Region RegionSpec RegionMultiSpec Generated.
Open Scope list_scope.
Open Scope N_scope.

(* ====================================================================================== *)
(* 1. what the lexer accepts and what it rejects                                          *)
(* ====================================================================================== *)

(* ---- spellings -------------------------------------------------------------------------- *)
(* TriviaSpec.spells lists the documented spellings.  The lexer accepts two more: the first
   character of the radix prefix may be ANY decimal digit (1x1F is 0x1F, 7b101 is 0b101). *)
Inductive lspells (uc : N -> uclass) : token -> list N -> Prop :=
| ls_std t s : spells uc t s -> lspells uc t s
| ls_hex d ds :
    dec_digit d = true -> ds <> [] -> forallb hex_digit ds = true -> positional 16 ds < two128 ->
    lspells uc (TLit (mkV (positional 16 ds) Unl)) ([d; 120] ++ ds)
| ls_bin d ds :
    dec_digit d = true -> ds <> [] -> forallb bin_digit ds = true -> (List.length ds <= 128)%nat ->
    lspells uc (TLit (mkV (positional 2 ds) (Bits (N.of_nat (List.length ds))))) ([d; 98] ++ ds).

(* a sequence of items followed by the text [rest]: every separator is a separator, every
   spelling spells its token, no token is directly followed by a character that merges with it *)
Fixpoint ladmissible (uc : N -> uclass) (items : list item) (rest : list N) : Prop :=
  match items with
  | [] => True
  | (sep, t, s) :: r =>
      trivia uc sep /\ lspells uc t s /\ may_follow uc t s (text_of r rest) /\ ladmissible uc r rest
  end.

(* ---- faults ----------------------------------------------------------------------------- *)
(* the characters that begin an operator, a punctuation sign or a comment:
   # / & | = > < ! : ~ , ; . + - ^ * ( ) [ ] { } *)
Definition punct_chars : list N :=
  [35; 47; 38; 124; 61; 62; 60; 33; 58; 126; 44; 59; 46; 43; 45; 94; 42; 40; 41; 91; 93; 123; 125].

(* a character that can start no token and no separator *)
Definition starts_no_token (uc : N -> uclass) (c : N) : bool :=
  negb (is_whitespace uc c) && negb (is_start_identifier_char uc c) && negb (dec_digit c) &&
  negb (existsb (N.eqb c) punct_chars).

Definition head_is (p : N -> bool) (l : list N) : bool := match l with c :: _ => p c | [] => false end.

(* lex_fault uc e bad: the text [bad] - which reaches to the end of the whole text - makes the
   lexer stop with the error e; the offsets in e are relative to the first byte of [bad] *)
Inductive lex_fault (uc : N -> uclass) : lex_error -> list N -> Prop :=
(* a character that can start nothing: the error points at it *)
| lf_char c r : starts_no_token uc c = true -> lex_fault uc (LexLexicalError 0) (c :: r)
(* a lone "." (".." is a token) *)
| lf_dot r : head_is (N.eqb 46) r = false -> lex_fault uc (LexLexicalError 0) (46 :: r)
(* a radix prefix (digit x / digit b) at the very end of the text: the error points at the end *)
| lf_prefix_end d x : dec_digit d = true -> x = 120 \/ x = 98 -> lex_fault uc (LexLexicalError 2) [d; x]
(* a radix prefix followed by a character that is not a digit of the radix: the error points at
   THAT character (whatever it is: a blank, a line end, ...) *)
| lf_prefix_hex d c r : dec_digit d = true -> hex_digit c = false ->
    lex_fault uc (LexLexicalError 2) (d :: 120 :: c :: r)
| lf_prefix_bin d c r : dec_digit d = true -> bin_digit c = false ->
    lex_fault uc (LexLexicalError 2) (d :: 98 :: c :: r)
(* a binary literal directly followed by a decimal digit 2..9: the error points at that digit *)
| lf_bin_then_dec d ds c r :
    dec_digit d = true -> ds <> [] -> forallb bin_digit ds = true ->
    bin_digit c = false -> dec_digit c = true ->
    lex_fault uc (LexLexicalError (2 + List.length ds)) ([d; 98] ++ ds ++ c :: r)
(* "/*" with no "*/" after it *)
| lf_comment body : has_close body = false -> lex_fault uc (LexUnterminatedComment 0) ([47; 42] ++ body)
(* a maximal run of decimal digits whose value does not fit 128 bits *)
| lf_dec ds r :
    forallb dec_digit ds = true -> head_is dec_digit r = false -> two128 <= positional 10 ds ->
    lex_fault uc (LexInvalidConstant 0 (List.length ds)) (ds ++ r)
(* a radix prefix and a maximal run of hexadecimal digits whose value does not fit 128 bits *)
| lf_hex d ds r :
    dec_digit d = true -> ds <> [] -> forallb hex_digit ds = true -> head_is hex_digit r = false ->
    two128 <= positional 16 ds ->
    lex_fault uc (LexInvalidConstant 0 (2 + List.length ds)) ([d; 120] ++ ds ++ r)
(* a radix prefix and a maximal run of more than 128 binary digits (not followed by a digit) *)
| lf_bin d ds r :
    dec_digit d = true -> forallb bin_digit ds = true -> head_is dec_digit r = false ->
    (128 < List.length ds)%nat ->
    lex_fault uc (LexInvalidConstant 0 (2 + List.length ds)) ([d; 98] ++ ds ++ r).

(* moving a token / an error by k bytes *)
Definition shift_tok (k : nat) (t : tok) : tok := ((k + fst (fst t))%nat, snd (fst t), (k + snd t)%nat).
Definition shift_error (k : nat) (e : lex_error) : lex_error :=
  match e with
  | LexLexicalError loc => LexLexicalError (k + loc)
  | LexUnterminatedComment loc => LexUnterminatedComment (k + loc)
  | LexInvalidConstant s e => LexInvalidConstant (k + s) (k + e)
  end.

(* the number of bytes of a text *)
Definition ulen (cs : list N) : nat := List.length (utf8 cs).

(* ---- the lexer, characterised ----------------------------------------------------------- *)
(* EVERY text is, in terms of its characters alone, either a sequence of items and a final
   separator, or a sequence of items, a separator and a faulty rest; [lex] answers accordingly *)
Definition stmt_lex_characterised : Prop :=
  forall uc text, Forall scalar text ->
    (exists items last,
        text = text_of items last /\ ladmissible uc items last /\ trivia_final uc last /\
        lex uc (utf8 text) = (spans_of 0 items, None)) \/
    (exists items sep bad e,
        text = text_of items (sep ++ bad) /\ ladmissible uc items (sep ++ bad) /\ trivia uc sep /\
        lex_fault uc e bad /\
        lex uc (utf8 text) = (spans_of 0 items, Some (shift_error (ulen (text_of items sep)) e))).

(* a text made of items is lexed to its tokens (TriviaSpec.stmt_trivia_spans, with the two
   extra spellings) *)
Definition stmt_lex_items : Prop :=
  forall uc items last, ladmissible uc items last -> trivia_final uc last ->
    Forall scalar (text_of items last) ->
    lex uc (utf8 (text_of items last)) = (spans_of 0 items, None).

(* ... and every text that is lexed without error is made of items *)
Definition stmt_lex_ok_inv : Prop :=
  forall uc text toks, Forall scalar text -> lex uc (utf8 text) = (toks, None) ->
    exists items last, text = text_of items last /\ ladmissible uc items last /\
                       trivia_final uc last /\ toks = spans_of 0 items.

(* ---- what the offset of an error means ---------------------------------------------------- *)
(* The text splits into [before ++ bad]: [bad] begins with the offending construct (lex_fault says
   which, and where inside it the reported offset lies), and [before] - everything in front of
   it - is lexed WITHOUT error to exactly the tokens produced before the error. *)
Definition stmt_lex_error_meaning : Prop :=
  forall uc text toks err, Forall scalar text -> lex uc (utf8 text) = (toks, Some err) ->
    exists before bad e,
      text = before ++ bad /\ lex_fault uc e bad /\ err = shift_error (ulen before) e /\
      lex uc (utf8 before) = (toks, None).

(* conversely every faulty rest after items and a separator produces that error: lex_fault is exact *)
Definition stmt_lex_fault_reported : Prop :=
  forall uc items sep bad e,
    ladmissible uc items (sep ++ bad) -> trivia uc sep -> lex_fault uc e bad ->
    Forall scalar (text_of items (sep ++ bad)) ->
    lex uc (utf8 (text_of items (sep ++ bad))) =
    (spans_of 0 items, Some (shift_error (ulen (text_of items sep)) e)).

(* the same in terms of the bytes.  For an out-of-range constant the bytes [s, e) are the whole
   literal: a maximal run of digits (after the radix prefix, if any) *)
Definition stmt_invalid_constant_bytes : Prop :=
  forall uc text toks s e, Forall scalar text ->
    lex uc (utf8 text) = (toks, Some (LexInvalidConstant s e)) ->
    let bytes := utf8 text in
    let lit := slice bytes s e in
    (s < e)%nat /\ (e <= List.length bytes)%nat /\
    ((forallb dec_digit lit = true /\ two128 <= positional 10 lit /\
      head_is dec_digit (skipn e bytes) = false) \/
     (exists d ds, lit = [d; 120] ++ ds /\ dec_digit d = true /\ ds <> [] /\
        forallb hex_digit ds = true /\ two128 <= positional 16 ds /\
        head_is hex_digit (skipn e bytes) = false) \/
     (exists d ds, lit = [d; 98] ++ ds /\ dec_digit d = true /\
        forallb bin_digit ds = true /\ (128 < List.length ds)%nat /\
        head_is dec_digit (skipn e bytes) = false)).

(* for an unterminated comment the bytes at loc are "/*" and no "*/" follows *)
Definition stmt_unterminated_comment_bytes : Prop :=
  forall uc text toks loc, Forall scalar text ->
    lex uc (utf8 text) = (toks, Some (LexUnterminatedComment loc)) ->
    exists body, skipn loc (utf8 text) = [47; 42] ++ utf8 body /\ has_close body = false.

(* ---- lexing a text after another one ------------------------------------------------------- *)
(* if [a] is lexed without error and ends with a line feed, lexing [a ++ b] is lexing [a], then
   [b]: the tokens and the error of [b], moved by the length of [a] *)
Definition stmt_lex_app : Prop :=
  forall uc a b toks_a toks_b err_b,
    Forall scalar (a ++ [10] ++ b) ->
    lex uc (utf8 (a ++ [10])) = (toks_a, None) ->
    lex uc (utf8 b) = (toks_b, err_b) ->
    let k := ulen (a ++ [10]) in
    lex uc (utf8 ((a ++ [10]) ++ b)) = (toks_a ++ map (shift_tok k) toks_b, option_map (shift_error k) err_b).

(* ====================================================================================== *)
(* 2. where the diagnostic points                                                         *)
(* ====================================================================================== *)
(* errors.rs, Error::format_for_contents:
     LexicalError(start)        => contents.show_region(start, start + 1)
     UnterminatedComment(start) => contents.show_region(start, start + 2)
     InvalidConstant(span)      => contents.show_region(span.0, span.1)                      *)
Definition lex_region (e : lex_error) : nat * nat :=
  match e with
  | LexLexicalError loc => (loc, (loc + 1)%nat)
  | LexUnterminatedComment loc => (loc, (loc + 2)%nat)
  | LexInvalidConstant s e => (s, e)
  end.

Definition render_lex_error (fc : file_contents) (e : lex_error) : option (list N) :=
  show_region fc (fst (lex_region e)) (snd (lex_region e)).

(* how many carets the rendering has: the region, cut at the end of the text *)
Definition caret_count (total : nat) (e : lex_error) : nat :=
  (Nat.min (snd (lex_region e)) total - fst (lex_region e))%nat.

(* what is promised of the rendering of the lexical error [err] of the text [pre ++ user]:
   the error lies in the user's text, at the user offset o, and - unless the error is the line end
   that follows a bare radix prefix - the diagnostic names the user's file, the 1-based line of o
   counted in the user's text, echoes that line, and has [caret_count] carets starting at the
   column of o *)
Definition diagnostic_located (pre user fname : list N) (err : lex_error) : Prop :=
  let fc := new_from_data pre user fname in
  let n := caret_count (List.length pre + List.length user) err in
  exists o,
    fst (lex_region err) = (List.length pre + o)%nat /\ (o <= List.length user)%nat /\
    (o + n <= List.length user)%nat /\
    (* the generic case: the region lies on one line *)
    (count_lf (span user o (o + n)) = 0%nat ->
       render_lex_error fc err =
       Some (one_line_region fname (line_no user o) (line_text user o) (col_of user o) n)) /\
    (* the only other case: the reported character is the LF after a bare "0x" / "0b" *)
    (count_lf (span user o (o + n)) <> 0%nat ->
       err = LexLexicalError (List.length pre + o) /\ n = 1%nat /\ (2 <= o)%nat /\
       nth o user 0 = 10 /\ (nth (o - 1) user 0 = 120 \/ nth (o - 1) user 0 = 98) /\
       dec_digit (nth (o - 2) user 0) = true).

(* The user's text is lexed after a preamble that is lexed without error and ends with a line
   feed (both true of the built-in preamble, stmt_gen_preamble_ok). *)
Definition stmt_lexical_diagnostic_located : Prop :=
  forall uc ptext utext fname ptoks toks err,
    Forall scalar (ptext ++ [10] ++ utext) ->
    lex uc (utf8 (ptext ++ [10])) = (ptoks, None) ->
    lex uc (utf8 ((ptext ++ [10]) ++ utext)) = (toks, Some err) ->
    diagnostic_located (utf8 (ptext ++ [10])) (utf8 utext) fname err.

(* the caret count by kind: 1 for a character (0 when the error is the end of the text), 2 for
   the comment opener, the length of the literal for a constant *)
Definition stmt_caret_count_by_kind : Prop :=
  forall uc text toks err, Forall scalar text -> lex uc (utf8 text) = (toks, Some err) ->
    let total := List.length (utf8 text) in
    match err with
    | LexLexicalError loc => caret_count total err = (if (loc <? total)%nat then 1 else 0)%nat
    | LexUnterminatedComment loc => caret_count total err = 2%nat
    | LexInvalidConstant s e => caret_count total err = (e - s)%nat
    end.

(* the built-in preamble: ASCII, ends with a line feed, lexed without error *)
Definition preamble_bytes : list N := bytes_of_string gen_preamble.
Definition stmt_gen_preamble_ok : Prop :=
  exists ptext ptoks,
    preamble_bytes = utf8 (ptext ++ [10]) /\ Forall scalar (ptext ++ [10]) /\
    forall uc, lex uc preamble_bytes = (ptoks, None).

(* END TO END, for the text hclrs really lexes: the built-in preamble followed by the user's file.
   Every lexical error is located in the user's file as described by [diagnostic_located] - never
   in <builtin> *)
Definition stmt_lexical_diagnostic_located_gen : Prop :=
  forall uc utext fname toks err,
    Forall scalar utext ->
    lex uc (preamble_bytes ++ utf8 utext) = (toks, Some err) ->
    diagnostic_located preamble_bytes (utf8 utext) fname err.
