(* Model of src/y86_disasm.rs (disassemble) and of the trace line printed by the
   ReadMemory arm of step_with_output (src/program.rs). *)
From HclV Require Import Base.
Open Scope string_scope.
Open Scope N_scope.

Definition y86_registers : list string :=
  ["%rax"; "%rcx"; "%rdx"; "%rbx"; "%rsp"; "%rbp"; "%rsi"; "%rdi";
   "%r8"; "%r9"; "%r10"; "%r11"; "%r12"; "%r13"; "%r14"; "NONE"].

Definition name_register (i : N) : string := nth (N.to_nat i) y86_registers "unknown".

Definition y86_ifuns : list string := ["(always)"; "le"; "l"; "e"; "ne"; "ge"; "g"].

Definition name_cc (ifun : N) : string := nth (N.to_nat ifun) y86_ifuns "(unknown)".

(* returns (bytes used, text) *)
Definition disasm_fields (icode ifun ra rb disp dest : N) : N * string :=
  match icode with
  | 0 => (1, "halt")
  | 1 => (1, "nop")
  | 2 => (2, match ifun with
             | 0 => "rrmovq " ++ name_register ra ++ ", " ++ name_register rb
             | _ => "cmov" ++ name_cc ifun ++ " " ++ name_register ra ++ ", " ++ name_register rb
             end)
  | 3 => (10, "irmovq $0x" ++ hex disp ++ ", " ++ name_register rb)
  | 4 => (10, "rmmovq " ++ name_register ra ++ ", 0x" ++ hex disp ++ "(" ++ name_register rb ++ ")")
  | 5 => (10, "mrmovq 0x" ++ hex disp ++ "(" ++ name_register rb ++ "), " ++ name_register ra)
  | 6 => (2, (match ifun with
              | 0 => "addq" | 1 => "subq" | 2 => "andq" | 3 => "xorq"
              | _ => "<unknown OPq>"
              end) ++ " " ++ name_register ra ++ ", " ++ name_register rb)
  | 7 => (9, match ifun with
             | 0 => "jmp 0x" ++ hex dest
             | _ => "j" ++ name_cc ifun ++ " 0x" ++ hex dest
             end)
  | 8 => (9, "call 0x" ++ hex dest)
  | 9 => (1, "ret")
  | 10 => (2, "pushq " ++ name_register ra)
  | 11 => (2, "popq " ++ name_register ra)
  | _ => (1, "<invalid>")
  end.

Definition disassemble (instruction : N) : N * string :=
  disasm_fields (N.land (N.shiftr instruction 4) 15)      (* icode: ((instruction >> 4) & 0xF) *)
                (N.land instruction 15)                   (* ifun *)
                (N.land (N.shiftr instruction 12) 15)     (* ra *)
                (N.land (N.shiftr instruction 8) 15)      (* rb *)
                ((N.shiftr instruction 16) mod two64)     (* disp: (instruction >> 16) as u64 *)
                ((N.shiftr instruction 8) mod two64).     (* dest: (instruction >> 8) as u64 *)

(* two lower-case hex digits: {:02x} *)
Definition hex2 (b : N) : string := pad_left "0"%char 2 (hex b).

Fixpoint trace_bytes (value : N) (i : nat) (count : nat) : string :=
  match count with
  | O => ""
  | S c => hex2 (N.land (N.shiftr value (8 * N.of_nat i)) 255) ++ " " ++ trace_bytes value (S i) c
  end.

(* "pc = 0x..; loaded [.. .. : instr]\n" *)
Definition trace_line (pc : N) (value : N) : string :=
  let '(n, text) := disassemble value in
  "pc = 0x" ++ hex pc ++ "; loaded [" ++ trace_bytes value 0 (N.to_nat n) ++ ": " ++ text ++ "]" ++ nl.
