(* C15: what loading a yas listing must do. Statements about Yo.load_line / load_from_y86. *)
From HclV Require Import Base Expr Machine Yo.
Open Scope N_scope.

(* bytes b0 b1 ... at consecutive addresses from a *)
Fixpoint put_bytes (m : memory) (a : N) (bs : list N) : memory :=
  match bs with [] => m | b :: r => put_bytes (mem_put m a b) (a + 1) r end.

(* the byte values denoted by a string of hex digit characters, two per byte *)
Fixpoint pair_values (ds : list N) : list N :=
  match ds with
  | d1 :: d2 :: r => (16 * hexv d1 + hexv d2) :: pair_values r
  | _ => []
  end.

(* a data line:  0xAAA: <2k hex digits><filler to column 27> |<rest>
   the filler is empty (k = 10) or starts with a blank *)
Definition data_line (ad bd filler rest : list N) : list N :=
  [48; 120] ++ ad ++ [58; 32] ++ bd ++ filler ++ [32; 124] ++ rest.

Definition data_line_ok (ad bd filler rest : list N) : Prop :=
  List.length ad = 3%nat /\ forallb is_hex ad = true /\
  forallb is_hex bd = true /\ Nat.even (List.length bd) = true /\
  (List.length bd + List.length filler = 20)%nat /\
  (filler = [] \/ exists t, filler = 32 :: t) /\
  forallb (fun b => negb (is_cont b)) (firstn 1 filler) = true /\
  (forall i, (i < List.length filler)%nat -> is_cont (nth i filler 0) = false) /\
  (rest = [] \/ exists b t, rest = b :: t /\ is_cont b = false).

Definition has_pipe (l : list N) : bool := existsb (N.eqb 124) l.

(* a well-formed data line loads exactly its bytes at consecutive addresses from AAA *)
Definition stmt_load_data_line : Prop :=
  forall m ad bd filler rest,
    data_line_ok ad bd filler rest ->
    load_line m (data_line ad bd filler rest) = Some (put_bytes m (hex_value ad 0) (pair_values bd)).

(* comment-only lines and lines without '|' contribute nothing *)
Definition stmt_ignored_lines : Prop :=
  forall m l,
    (starts_with comment_prefix l = true \/ has_pipe l = false) -> load_line m l = Some m.

(* everything else is refused: an accepted line is a well-formed data line, a comment-only line
   or a pipe-free line *)
Definition stmt_accepts_only : Prop :=
  forall m l m',
    load_line m l = Some m' ->
    (exists ad bd filler rest,
        l = data_line ad bd filler rest /\ List.length ad = 3%nat /\ forallb is_hex ad = true /\
        forallb is_hex bd = true /\ Nat.even (List.length bd) = true /\
        (List.length bd + List.length filler = 20)%nat /\ (filler = [] \/ exists t, filler = 32 :: t) /\
        m' = put_bytes m (hex_value ad 0) (pair_values bd)) \/
    (m' = m /\ (starts_with comment_prefix l = true \/ has_pipe l = false)).

(* a whole file: refused iff it has no line or some line is refused; otherwise the lines'
   effects in order (so overlapping lines: the later one wins) and nothing else *)
Fixpoint apply_lines (m : memory) (lines : list (list N)) : option memory :=
  match lines with
  | [] => Some m
  | l :: r => match load_line m l with Some m1 => apply_lines m1 r | None => None end
  end.

Definition stmt_load_file : Prop :=
  forall m data,
    load_from_y86 m data =
    match split_lines data [] with
    | [] => err1 EmptyFile []
    | lines => match apply_lines m lines with
               | Some m' => Ok m'
               | None => err1 UnparseableLine []
               end
    end.

(* loading keeps the memory invariant; addresses stay below 0x1000 + 10 *)
Definition stmt_put_bytes_get : Prop :=
  forall bs m a x,
    mem_get (put_bytes m a bs) x =
    (if (a <=? x) && (x <? a + N.of_nat (List.length bs))
     then Some (nth (N.to_nat (x - a)) bs 0) else mem_get m x).
