(* Specification side of the expression language (C02, C07, C08, C17): what HCL defines,
   in plain arithmetic on unbounded numbers, independent of masks, shifts-with-wrap,
   dynamic widths and error plumbing.  The statements the proofs must establish are given
   here as named propositions so that they cannot drift. *)
From HclV Require Import Base Expr.
Open Scope N_scope.

(* ---- well-formedness: what lexer and grammar guarantee about any parsed expression ---- *)
Definition wf_width (w : width) : Prop := match w with Bits n => n <= 128 | Unl => True end.

Definition fits (v : wval) : Prop := bits v < 2 ^ bits_or_128 (wd v) /\ wf_width (wd v).

Fixpoint wf_expr (e : expr) : Prop :=
  match e with
  | EConst v => fits v
  | EBin _ l r => wf_expr l /\ wf_expr r
  | EUn _ e1 => wf_expr e1
  | EMux a => wf_arms a
  | EWire _ => True
  | ESlice e1 lo hi => wf_expr e1 /\ lo <= 128 /\ hi <= 128
  | ECat l r => wf_expr l /\ wf_expr r
  | EIn e1 items => wf_expr e1 /\ wf_items items
  end
with wf_arms (a : arms) : Prop :=
  match a with
  | ANil => True
  | ACons c v rest => wf_expr c /\ wf_expr v /\ wf_arms rest
  end
with wf_items (items : exprs) : Prop :=
  match items with
  | XNil => True
  | XCons e1 rest => wf_expr e1 /\ wf_items rest
  end.

(* the run-time environment agrees with the declarations: every declared wire holds a value
   of exactly its declared width that fits in it *)
Definition env_ok (G : string -> option width) (rho : string -> option wval) : Prop :=
  forall n w, G n = Some w -> exists v, rho n = Some v /\ wd v = w /\ fits v.

(* ---- static width: the width the checker assigns (when it accepts) --------------------- *)
Definition width_env (G : string -> option width) : string -> option wval :=
  fun n => match G n with Some w => Some (mkV 0 w) | None => None end.

Definition sw (f : features) (G : string -> option width) (e : expr) : width :=
  dynw f (width_env G) e.

Definition nbits (w : width) : N := bits_or_128 w.     (* unsized counts as 128 bits *)

(* ---- denotation: the value HCL defines ---------------------------------------------------- *)
Definition zsub_mod (x y m : N) : N := Z.to_N ((Z.of_N x - Z.of_N y) mod Z.of_N m).

Definition den_bin (op : binop) (W : N) (x y : N) : N :=
  match op with
  | Add => (x + y) mod 2 ^ W
  | Sub => zsub_mod x y (2 ^ W)
  | Mul => (x * y) mod 2 ^ W
  | Div => (x / y) mod 2 ^ W
  | Or => (N.lor x y) mod 2 ^ W
  | Xor => (N.lxor x y) mod 2 ^ W
  | And => (N.land x y) mod 2 ^ W
  | Equal => b2n (x =? y)
  | NotEqual => b2n (negb (x =? y))
  | LessEqual => b2n (x <=? y)
  | GreaterEqual => b2n (y <=? x)
  | Less => b2n (x <? y)
  | Greater => b2n (y <? x)
  | LogicalAnd => b2n (negb (x =? 0) && negb (y =? 0))
  | LogicalOr => b2n (negb (x =? 0) || negb (y =? 0))
  | LeftShift => if 128 <=? y then 0 else (x * 2 ^ y) mod 2 ^ W
  | RightShift => if 128 <=? y then 0 else (x / 2 ^ y) mod 2 ^ W
  end.

Definition den_un (op : unop) (W : N) (x : N) : N :=
  match op with
  | Plus => x
  | Negate => zsub_mod 0 x (2 ^ W)
  | Complement => 2 ^ W - 1 - x
  | Not => b2n (x =? 0)
  end.

Section Den.
  Variable f : features.
  Variable G : string -> option width.
  Variable rho : string -> option wval.

  Fixpoint den (e : expr) : N :=
    match e with
    | EConst v => bits v
    | EBin op l r => den_bin op (nbits (sw f G e)) (den l) (den r)
    | EUn op e1 => den_un op (nbits (sw f G e1)) (den e1)
    | EMux a => (den_arms a) mod 2 ^ nbits (sw f G e)
    | EWire n => match rho n with Some v => bits v | None => 0 end
    | ESlice e1 lo hi => (den e1 / 2 ^ lo) mod 2 ^ (hi - lo)
    | ECat l r => den l * 2 ^ nbits (sw f G r) + den r
    | EIn e1 items => b2n (den_items (den e1) items)
    end
  with den_arms (a : arms) : N :=        (* first arm whose condition is non-zero; 0 if none *)
    match a with
    | ANil => 0
    | ACons c v rest => if 0 <? den c then den v else den_arms rest
    end
  with den_items (x : N) (items : exprs) : bool :=
    match items with
    | XNil => false
    | XCons e1 rest => (x =? den e1) || den_items x rest
    end.
End Den.

Definition div_zero_only (es : list err) : Prop := es = [mkErr DivisionByZero []].

(* ---- the statements ----------------------------------------------------------------------- *)

(* static and dynamic width discipline agree on everything the checker accepts *)
Definition stmt_check_width : Prop :=
  forall f G C rho e w,
    wf_expr e -> env_ok G rho -> check f G C e = Ok w ->
    dynw f rho e = w /\ sw f G e = w /\ wf_width w.

(* type soundness: an accepted expression evaluates to a value of the static width that
   fits in it; the only possible failure is division by zero *)
Definition stmt_eval_sound : Prop :=
  forall f G C rho e w,
    wf_expr e -> env_ok G rho -> check f G C e = Ok w ->
    match eval f rho e with
    | Ok v => wd v = w /\ bits v < 2 ^ nbits w
    | Err es => div_zero_only es
    end.

(* functional correctness: the value is the one HCL defines *)
Definition stmt_eval_den : Prop :=
  forall f G C rho e w v,
    wf_expr e -> env_ok G rho -> check f G C e = Ok w ->
    eval f rho e = Ok v -> bits v = den f G rho e.

(* what is stored on a wire of declared width [dw] *)
Definition stmt_assign_truncates : Prop :=
  forall dw v, wf_width dw -> bits (as_width dw v) = bits v mod 2 ^ nbits dw /\ wd (as_width dw v) = dw.

(* the strictness options: acceptance is monotone, and they never change a value *)
Definition feat_le (a b : features) : Prop :=       (* b is at least as strict as a *)
  (f_sbo a = true -> f_sbo b = true) /\ (f_swb a = true -> f_swb b = true) /\
  (f_rmd a = true -> f_rmd b = true) /\ (f_dmd a = true -> f_dmd b = true) /\
  (f_duo a = true -> f_duo b = true).

(* the constants visible to the always-true test are declared with their own widths *)
Definition consts_ok (G : string -> option width) (C : string -> option wval) : Prop :=
  forall n v, C n = Some v -> G n = Some (wd v) /\ fits v.

Definition stmt_features_monotone : Prop :=
  forall a b G C e w,
    wf_expr e -> consts_ok G C -> feat_le a b -> check b G C e = Ok w -> check a G C e = Ok w.

Definition stmt_features_same_value : Prop :=
  forall a b G C rho e w w',
    wf_expr e -> env_ok G rho ->
    check a G C e = Ok w -> check b G C e = Ok w' ->
    w = w' /\ eval a rho e = eval b rho e.
