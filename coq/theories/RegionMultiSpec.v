(* C14, spans covering several lines, and the helpers FileContents::{line, file_and_line, range}.
   Statements only; proofs are in RegionMultiProofs.v.  Vocabulary of RegionSpec.v is reused:
   line_no / col_of / line_text are computed in the USER's text alone. *)
From HclV Require Import Base Yo Region RegionSpec.
Open Scope list_scope.
Open Scope N_scope.

(* ---- the property's vocabulary ------------------------------------------------------------- *)

(* the bytes of the span [s, e) *)
Definition span (user : list N) (s e : nat) : list N := firstn (e - s) (skipn s user).

(* the offsets, counted from o, of the LF characters of l *)
Fixpoint lf_offsets (l : list N) (o : nat) : list nat :=
  match l with
  | [] => []
  | b :: r => if is_lf b then o :: lf_offsets r (S o) else lf_offsets r (S o)
  end.

(* one offset on every line the span [s, e) covers: s itself, then column 0 of every line that
   begins just after an LF of the span.  There are (count_lf (span user s e)) + 1 of them and they
   lie on the consecutive lines line_no user s, line_no user s + 1, ... (stmt_span_lines_numbered) *)
Definition span_line_offsets (user : list N) (s e : nat) : list nat :=
  s :: map S (lf_offsets (span user s e) s).

Definition region_header (fname : list N) (number : nat) : list N :=
  sp 5 ++ [45; 62; 32] ++ fname ++ [58] ++ dec_bytes number ++ [10] ++      (* "     -> fname:number" *)
  sp 5 ++ [124; 10].                                                         (* "     |"              *)

Definition echoed_line (number : nat) (text : list N) (col count : nat) : list N :=
  pad4 (dec_bytes number) ++ [32; 124; 32] ++ text ++ [10] ++                (* "   n | text"         *)
  sp 5 ++ [124; 32] ++ sp col ++ repeat_byte 94 count ++ [10].               (* "     | " blanks carets *)

(* where the carets begin and end (byte columns) on the line containing offset o:
   they begin at the column of s on the line of s and at column 0 on every later line;
   they end at the column of e on the line of e and at the end of the line's text on every
   earlier line *)
Definition caret_from (user : list N) (s o : nat) : nat :=
  if (line_no user o =? line_no user s)%nat then col_of user s else O.
Definition caret_to (user : list N) (e o : nat) : nat :=
  if (line_no user o =? line_no user e)%nat then col_of user e else List.length (line_text user o).

Definition echo_of (user : list N) (s e o : nat) : list N :=
  echoed_line (line_no user o) (line_text user o)
              (caret_from user s o) (caret_to user e o - caret_from user s o).

(* the expected rendering of the span [s, e) of the text `user` of the file `fname` *)
Definition multi_line_region (fname user : list N) (s e : nat) : list N :=
  region_header fname (line_no user s) ++ flat_map (echo_of user s e) (span_line_offsets user s e).

(* the line containing offset o is an empty line at the very end of the text (o = length user and
   the text is empty or ends with LF): str::lines yields no such line *)
Definition on_final_empty_line (user : list N) (o : nat) : Prop :=
  skipn (o - col_of user o) user = [].

(* ---- sanity of the vocabulary --------------------------------------------------------------- *)

(* the offsets of span_line_offsets lie in the user's text, on consecutive lines starting with
   the line of s and ending with the line of e *)
Definition stmt_span_lines_numbered : Prop :=
  forall user s e,
    (s <= e)%nat -> (e <= List.length user)%nat ->
    map (line_no user) (span_line_offsets user s e) =
      seq (line_no user s) (S (count_lf (span user s e))) /\
    line_no user e = (line_no user s + count_lf (span user s e))%nat /\
    Forall (fun o => (s <= o)%nat /\ (o <= e)%nat) (span_line_offsets user s e).

(* ---- C14 for spans of several lines --------------------------------------------------------- *)

(* A span [s, e) of the user's own text covering k+1 lines is shown with the user's file name,
   the 1-based number (counted in the user's text, whatever the preamble is) of the line of s,
   and then, for each of the lines L .. L+k, that line's number and text (without LF, without the
   CR of CRLF) and a caret line: first line from the column of s to the end of the text, middle
   lines under the whole text, last line from column 0 to the column of e.
   Side condition: the line of e is not an empty line at the very end of the text. *)
Definition stmt_locate_multi_line : Prop :=
  forall pre user fname s e,
    wf_text pre -> wf_text user ->
    (s <= e)%nat -> (e <= List.length user)%nat ->
    ~ on_final_empty_line user e ->
    show_region (new_from_data pre user fname) (List.length pre + s) (List.length pre + e) =
    Some (multi_line_region fname user s e).

(* the excluded case: e = length user and the text is empty or ends with LF.  Then the line of e
   (which would carry no caret) is not echoed; everything else is as above *)
Definition stmt_locate_multi_line_at_end : Prop :=
  forall pre user fname s e,
    wf_text pre -> wf_text user ->
    (s <= e)%nat -> (e <= List.length user)%nat ->
    on_final_empty_line user e ->
    e = List.length user /\
    show_region (new_from_data pre user fname) (List.length pre + s) (List.length pre + e) =
    Some (region_header fname (line_no user s) ++
          flat_map (echo_of user s e) (removelast (span_line_offsets user s e))).

(* the one-line theorem of RegionSpec.v is the case k = 0 *)
Definition stmt_one_line_is_special_case : Prop :=
  stmt_locate_multi_line -> stmt_locate_one_line.

(* What the English sentence promises is a little less than what stmt_locate_multi_line says:
   only lines that contain a byte of the span should be echoed.  The lines touched by the bytes
   of [s, e) are the line of s and the lines beginning after an LF that is followed by another byte
   of the span, i.e. an LF at an offset < e - 1.  This STRICT reading is false of the model when
   the span ends just after an LF (see RegionMultiProofs.locate_multi_line_strict_refuted). *)
Definition strict_region (fname user : list N) (s e : nat) : list N :=
  region_header fname (line_no user s) ++
  flat_map (echo_of user s e) (span_line_offsets user s (Nat.pred e)).

Definition stmt_locate_multi_line_strict : Prop :=
  forall pre user fname s e,
    wf_text pre -> wf_text user ->
    (s <= e)%nat -> (e <= List.length user)%nat ->
    ~ on_final_empty_line user e ->
    show_region (new_from_data pre user fname) (List.length pre + s) (List.length pre + e) =
    Some (strict_region fname user s e).

(* ... and true when the span is empty or its last byte is not an LF *)
Definition stmt_locate_multi_line_strict_no_trailing_lf : Prop :=
  forall pre user fname s e,
    wf_text pre -> wf_text user ->
    (s <= e)%nat -> (e <= List.length user)%nat ->
    ~ on_final_empty_line user e ->
    (s = e \/ nth (e - 1) user 0 <> 10) ->
    show_region (new_from_data pre user fname) (List.length pre + s) (List.length pre + e) =
    Some (strict_region fname user s e).

(* ---- C14: never the preamble, spans of several lines ---------------------------------------- *)

(* what "headed by the user's file and every echoed line is a line of the user's text" means:
   the output is the header with the user's file name and the number of a line of the user's text,
   followed by echoed lines each of which shows line_no / line_text of an offset of the user's text *)
Definition shows_only_user_lines (fname user out : list N) : Prop :=
  exists s0 echoed,
    (s0 <= List.length user)%nat /\
    Forall (fun x => exists o col count, (o <= List.length user)%nat /\
                       x = echoed_line (line_no user o) (line_text user o) col count) echoed /\
    out = region_header fname (line_no user s0) ++ List.concat echoed.

(* full strength: any end offset.  FALSE (a reversed span ending inside the preamble) *)
Definition stmt_never_preamble_multi : Prop :=
  forall pre user fname s e,
    wf_text pre -> wf_text user ->
    (List.length pre <= s)%nat ->
    exists out, show_region (new_from_data pre user fname) s e = Some out /\
                shows_only_user_lines fname user out.

(* true variant: ADDED hypothesis (List.length pre <= e) *)
Definition stmt_never_preamble_multi_partial : Prop :=
  forall pre user fname s e,
    wf_text pre -> wf_text user ->
    (List.length pre <= s)%nat -> (List.length pre <= e)%nat ->
    exists out, show_region (new_from_data pre user fname) s e = Some out /\
                shows_only_user_lines fname user out.

(* ============================================================================================ *)
(* model extension: FileContents::{filename (with its table), line, file_and_line, range}       *)
(* (src/io.rs lines 62-99), mirrored statement by statement; None = the Rust code would panic    *)
(* ============================================================================================ *)

(* self.filenames = vec!((0, "<builtin>"), (preamble.len(), filename)) *)
Definition fc_filenames (fc : file_contents) : list (nat * list N) :=
  [(0%nat, builtin_name); (fc_plen fc, fc_filename fc)].

(* match v.binary_search_by_key(&index, |x| x.0) { Ok(x) => x, Err(x) => x - 1 } on a table sorted
   by key: Region.last_le (the index of the last entry with key <= index); None when there is no
   such entry, where Rust computes 0 - 1 (panic in debug builds, then an out-of-range index) *)
Definition search_index (keys : list nat) (index : nat) : option nat :=
  last_le (map (fun k => (k, 0%nat)) keys) index 0 None.

(* fn filename(&self, index) -> &str *)
Definition filename_tbl (fc : file_contents) (index : nat) : option (list N) :=
  match search_index (map fst (fc_filenames fc)) index with
  | None => None
  | Some i => nth_error (map snd (fc_filenames fc)) i               (* &self.filenames[index].1 *)
  end.

(* fn line(&self, index) -> usize { self.line_number_and_bounds(index).1 }
   NOTE .1 of (cur_line.1, cur_line.0, next_line_loc) is cur_line.0: the byte offset at which the
   line starts, not the line number (which is .0) *)
Definition line_of (fc : file_contents) (index : nat) : option nat :=
  match line_number_and_bounds fc index with
  | None => None
  | Some (_, begin_loc, _) => Some begin_loc
  end.

(* format!("{}:{}", filename, line) *)
Definition file_and_line (fc : file_contents) (index : nat) : option (list N) :=
  match filename_tbl fc index, line_of fc index with
  | Some f, Some l => Some (f ++ [58] ++ dec_bytes l)
  | _, _ => None
  end.

(* fn range(&self, start, end) -> String *)
Definition range (fc : file_contents) (start end_ : nat) : option (list N) :=
  match filename_tbl fc start, line_of fc start, line_of fc end_ with
  | Some f, Some start_line, Some end_line =>
      if (start_line =? end_line)%nat
      then Some (f ++ [58] ++ dec_bytes start_line)                               (* "{}:{}"    *)
      else Some (f ++ [58] ++ dec_bytes start_line ++ [45] ++ dec_bytes end_line) (* "{}:{}-{}" *)
  | _, _, _ => None
  end.

(* ---- statements about the helpers ----------------------------------------------------------- *)

(* the table search of `filename` agrees with Region.filename, for every index *)
Definition stmt_filename_tbl_total : Prop :=
  forall pre user fname index,
    filename_tbl (new_from_data pre user fname) index =
    Some (filename (new_from_data pre user fname) index).

(* no panic, for arbitrary indices and arbitrary texts (no slicing is involved) *)
Definition stmt_range_total : Prop :=
  forall pre user fname s e,
    line_of (new_from_data pre user fname) s <> None /\
    file_and_line (new_from_data pre user fname) s <> None /\
    range (new_from_data pre user fname) s e <> None.

(* what one expects of the helpers: for offsets of the user's text they name the user's file and
   the 1-based line numbers.  FALSE: `line` returns the byte offset of the line's start *)
Definition stmt_range_names_lines : Prop :=
  forall pre user fname s e,
    (s <= e)%nat -> (e <= List.length user)%nat ->
    file_and_line (new_from_data pre user fname) (List.length pre + s) =
      Some (fname ++ [58] ++ dec_bytes (line_no user s)) /\
    range (new_from_data pre user fname) (List.length pre + s) (List.length pre + e) =
      Some (if (line_no user s =? line_no user e)%nat
            then fname ++ [58] ++ dec_bytes (line_no user s)
            else fname ++ [58] ++ dec_bytes (line_no user s) ++ [45] ++ dec_bytes (line_no user e)).

(* what they really print: the user's file name, and in place of line numbers the byte offsets
   (in preamble ++ user) at which the lines of s and e begin *)
Definition line_start (user : list N) (o : nat) : nat := (o - col_of user o)%nat.

Definition stmt_range_names_offsets : Prop :=
  forall pre user fname s e,
    (s <= e)%nat -> (e <= List.length user)%nat ->
    file_and_line (new_from_data pre user fname) (List.length pre + s) =
      Some (fname ++ [58] ++ dec_bytes (List.length pre + line_start user s)) /\
    range (new_from_data pre user fname) (List.length pre + s) (List.length pre + e) =
      Some (if (line_no user s =? line_no user e)%nat
            then fname ++ [58] ++ dec_bytes (List.length pre + line_start user s)
            else fname ++ [58] ++ dec_bytes (List.length pre + line_start user s) ++ [45] ++
                 dec_bytes (List.length pre + line_start user e)).

(* the line NUMBER is the first component of line_number_and_bounds: the helpers would be right
   with `.0` in place of `.1` *)
Definition stmt_lnb_names_line : Prop :=
  forall pre user fname o,
    (o <= List.length user)%nat ->
    exists nx,
      line_number_and_bounds (new_from_data pre user fname) (List.length pre + o) =
      Some (line_no user o, (List.length pre + line_start user o)%nat, nx).
