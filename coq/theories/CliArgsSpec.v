(* Property C19 over the raw argument vector: statements.

   "hclrs exits with status 0 exactly when it did what was asked - printed help/version, found
    the file acceptable under --check (printing 'syntax OK' and simulating nothing), or simulated
    to halt, error status or timeout and printed the final state - and with status 1, a message
    on standard error (or the usage text) and no final state, when the HCL file is unreadable or
    rejected, the memory image is missing, not named *.yo or unloadable, the timeout is not a
    number that fits 32 bits, the arguments are malformed, or the simulation aborts.  The timeout
    argument is honoured exactly and defaults to 9999 cycles."

   `main_argv args hcl yo sim` (CliArgs.v) is (exit status, what happened) for the arguments
   `args` (those after the program name), where `hcl`, `yo`, `sim` say what the first positional
   argument is for the front end (unreadable / rejected / accepted), what the second one is for
   the loader (missing / unloadable / loadable) and how the simulation ends (completes = halt,
   error status or timeout / aborts). *)
From Coq Require Import Permutation.
From HclV Require Import Base Cli CliArgs.
Open Scope string_scope.
Open Scope N_scope.

(* ------------------------------------------------------------------------------------------ *)
(* Vocabulary                                                                                   *)
(* ------------------------------------------------------------------------------------------ *)

(* -- how the command line is read (independent of the functions of CliArgs.v) -- *)

(* an argument that is not an option: the empty string, a lone '-', anything not starting with '-' *)
Definition positional (a : string) : Prop :=
  a = "" \/ a = "-" \/ exists c r, a = String c r /\ c <> "-"%char.

(* `spelled a fs`: the option argument `a` gives the flags `fs`:
   --NAME; --L for a flag with the letter L (the crate reads a one-letter long name as the short
   name); -L1L2...Ln, n >= 1, a group of letters *)
Inductive spelled : string -> list flag -> Prop :=
| sp_long (f : flag) : spelled ("--" ++ long_name f) [f]
| sp_long_letter (f : flag) (c : ascii) :
    short_name f = Some c -> spelled (String "-" (String "-" (String c ""))) [f]
| sp_group (cs : list ascii) (fs : list flag) :
    cs <> [] -> Forall2 (fun c f => short_name f = Some c) cs fs ->
    spelled (String "-" (string_of_list_ascii cs)) fs.

(* `reads args fs ps`: reading `args` from left to right gives the flag occurrences `fs` and the
   positional arguments `ps`; `--` ends the options and is itself dropped *)
Inductive reads : list string -> list flag -> list string -> Prop :=
| rd_nil : reads [] [] []
| rd_end (rest : list string) : reads ("--" :: rest) [] rest
| rd_pos (a : string) (rest : list string) (fs : list flag) (ps : list string) :
    positional a -> reads rest fs ps -> reads (a :: rest) fs (a :: ps)
| rd_opt (a : string) (rest : list string) (fs1 fs : list flag) (ps : list string) :
    spelled a fs1 -> reads rest fs ps -> reads (a :: rest) (fs1 ++ fs)%list ps.

(* the model of getopts accepts exactly the argument vectors that can be read in this way with no
   flag occurring twice (in whatever spelling), and returns that reading *)
Definition stmt_parse_argv_characterised : Prop :=
  forall args fs ps, parse_argv args = Some (fs, ps) <-> reads args fs ps /\ NoDup fs.

(* -- derived vocabulary for the statements below -- *)
Definition well_formed (args : list string) : Prop :=
  exists fs free, parse_argv args = Some (fs, free).
Definition given (args : list string) (f : flag) : Prop :=
  exists fs free, parse_argv args = Some (fs, free) /\ In f fs.
Definition positionals (args : list string) (free : list string) : Prop :=
  exists fs, parse_argv args = Some (fs, free).

(* -- numerals -- *)
Definition is_digit (c : ascii) : Prop := 48 <= N_of_ascii c <= 57.
Definition decimal_value (ds : list ascii) : N :=
  fold_left (fun acc d => 10 * acc + (N_of_ascii d - 48)) ds 0.
(* `s` is an optional '+' followed by one or more decimal digits, and denotes t < 2^32 *)
Definition denotes_u32 (s : string) (t : N) : Prop :=
  exists ds, ds <> [] /\ Forall is_digit ds /\
    (s = string_of_list_ascii ds \/ s = String "+" (string_of_list_ascii ds)) /\
    t = decimal_value ds /\ t < 2 ^ 32.

Definition ends_in_dot_yo (y : string) : Prop := exists p, y = p ++ ".yo".

(* ------------------------------------------------------------------------------------------ *)
(* (a) exit status 0 exactly when hclrs did what was asked                                      *)
(* ------------------------------------------------------------------------------------------ *)
Definition asked_help (args : list string) : Prop := given args FHelp.
Definition asked_version (args : list string) : Prop := given args FVersion /\ ~ given args FHelp.
(* --check: one to three positionals (the second and third are ignored), file accepted *)
Definition check_passes (args : list string) (hcl : hcl_kind) : Prop :=
  given args FCheck /\ ~ given args FHelp /\ ~ given args FVersion /\
  (exists free, positionals args free /\ (1 <= List.length free <= 3)%nat) /\
  hcl = HclAccepted.
(* a simulation with budget t that prints its final state *)
Definition simulated (args : list string) (hcl : hcl_kind) (yo : yo_kind) (sim : sim_kind) (t : N)
  : Prop :=
  exists f y rest,
    positionals args (f :: y :: rest) /\
    ~ given args FHelp /\ ~ given args FVersion /\ ~ given args FCheck /\
    hcl = HclAccepted /\ ends_in_dot_yo y /\
    ((rest = [] /\ t = 9999) \/ (exists ts, rest = [ts] /\ denotes_u32 ts t)) /\
    yo = YoLoadable /\ sim = SimCompletes.

Definition stmt_exit_zero_iff : Prop :=
  forall args hcl yo sim,
    let r := main_argv args hcl yo sim in
    (r = (0, PrintedUsage) <-> asked_help args) /\
    (r = (0, PrintedVersion) <-> asked_version args) /\
    (r = (0, SyntaxOK) <-> check_passes args hcl) /\
    (forall t, r = (0, FinalState t) <-> simulated args hcl yo sim t) /\
    (fst r = 0 <-> asked_help args \/ asked_version args \/ check_passes args hcl \/
                   exists t, simulated args hcl yo sim t) /\
    (fst r <> 0 -> fst r = 1).

(* every cause of failure named in the sentence leads to exit status 1 (unless help or the version
   was asked for, which are served first; the causes after "without --check" do not arise under
   --check, which stops before the memory image is looked at) *)
Definition stmt_each_failure_cause_exits_one : Prop :=
  forall args hcl yo sim,
    let r := main_argv args hcl yo sim in
    (* malformed arguments: the options *)
    (~ well_formed args -> r = (1, Message "getopts")) /\
    (forall free, positionals args free -> ~ given args FHelp -> ~ given args FVersion ->
       (* malformed arguments: no file, or more than three positionals *)
       (free = [] -> r = (1, PrintedUsage)) /\
       ((3 < List.length free)%nat -> fst r = 1) /\
       (free <> [] -> hcl = HclUnreadable -> r = (1, Message "Error reading")) /\
       (hcl = HclRejected -> fst r = 1) /\
       (~ given args FCheck ->
          (List.length free = 1%nat -> fst r = 1) /\
          (forall y, nth_error free 1 = Some y -> ~ ends_in_dot_yo y -> fst r = 1) /\
          (forall ts, nth_error free 2 = Some ts -> (~ exists t, denotes_u32 ts t) -> fst r = 1) /\
          (yo = YoMissing -> fst r = 1) /\
          (yo = YoUnloadable -> fst r = 1) /\
          (sim = SimAborts -> fst r = 1))).

(* ------------------------------------------------------------------------------------------ *)
(* (b) failure: a message or the usage text, never a final state; and conversely the version,   *)
(*     'syntax OK' and a final state only come with exit status 0                               *)
(* ------------------------------------------------------------------------------------------ *)
Definition stmt_no_final_state_on_failure : Prop :=
  forall args hcl yo sim,
    let r := main_argv args hcl yo sim in
    (fst r = 1 ->
       (snd r = PrintedUsage \/ exists m, snd r = Message m) /\ forall t, snd r <> FinalState t) /\
    (snd r = PrintedVersion \/ snd r = SyntaxOK \/ (exists t, snd r = FinalState t) -> fst r = 0) /\
    (forall m, snd r = Message m -> fst r = 1).

(* ------------------------------------------------------------------------------------------ *)
(* (c) --check simulates nothing, whatever the other arguments                                  *)
(* ------------------------------------------------------------------------------------------ *)
Definition stmt_check_simulates_nothing : Prop :=
  forall args hcl yo sim t, given args FCheck -> snd (main_argv args hcl yo sim) <> FinalState t.

(* ------------------------------------------------------------------------------------------ *)
(* (d) the timeout                                                                              *)
(* ------------------------------------------------------------------------------------------ *)
Definition stmt_timeout_honoured : Prop :=
  forall args hcl yo sim,
    (forall e t, main_argv args hcl yo sim = (e, FinalState t) ->
       exists free, positionals args free /\
         ((List.length free = 2%nat /\ t = 9999) \/
          (List.length free = 3%nat /\ exists ts, nth_error free 2 = Some ts /\ denotes_u32 ts t))) /\
    (* a third positional that is not such a numeral: exit status 1, unless help, the version or
       --check was asked for *)
    (forall free ts, positionals args free -> nth_error free 2 = Some ts ->
       (~ exists t, denotes_u32 ts t) ->
       ~ given args FHelp -> ~ given args FVersion -> ~ given args FCheck ->
       fst (main_argv args hcl yo sim) = 1).

(* DRAFT (false): "a third positional that is not a numeral gives exit status 1" without the
   exceptions: under --check the second and third positionals are not looked at *)
Definition stmt_bad_timeout_always_fails_draft : Prop :=
  forall args hcl yo sim free ts, positionals args free -> nth_error free 2 = Some ts ->
    (~ exists t, denotes_u32 ts t) -> fst (main_argv args hcl yo sim) = 1.

(* ------------------------------------------------------------------------------------------ *)
(* (e) the memory image must be named *.yo                                                      *)
(* ------------------------------------------------------------------------------------------ *)
Definition stmt_yo_name_rule : Prop :=
  forall args hcl yo sim e t, main_argv args hcl yo sim = (e, FinalState t) ->
    exists free y, positionals args free /\ nth_error free 1 = Some y /\ ends_in_dot_yo y.

(* ------------------------------------------------------------------------------------------ *)
(* (f) the order and the spelling of the options do not matter                                  *)
(* ------------------------------------------------------------------------------------------ *)

(* first byte '-' and something after it: an option (or the terminator), not a positional *)
Definition looks_like_option (a : string) : bool :=
  match a with String c (String _ _) => Ascii.eqb c "-"%char | _ => false end.
Definition positional_part (l : list string) : list string :=
  filter (fun a => negb (looks_like_option a)) l.

(* `pre` is the part of the command line before any `--`: rearranging it in any way that keeps the
   positional arguments in their order (permuting the options among themselves, moving them
   between, before or after the positionals) changes nothing.  `tail` is the rest: empty, or `--`
   and what follows (or indeed anything). *)
Definition stmt_option_order_free : Prop :=
  forall pre pre' tail hcl yo sim,
    ~ In "--" pre -> Permutation pre pre' -> positional_part pre = positional_part pre' ->
    main_argv (pre ++ tail) hcl yo sim = main_argv (pre' ++ tail) hcl yo sim.

(* the same when the kinds of the files are functions of their names: the positionals are the same *)
Definition stmt_option_order_free_in_world : Prop :=
  forall w pre pre' tail,
    ~ In "--" pre -> Permutation pre pre' -> positional_part pre = positional_part pre' ->
    main_in_world w (pre ++ tail) = main_in_world w (pre' ++ tail).

(* a short flag and its long form are interchangeable (before any `--`) *)
Definition stmt_spelling_free : Prop :=
  forall pre post f c hcl yo sim,
    ~ In "--" pre -> short_name f = Some c ->
    main_argv (pre ++ String "-" (String c "") :: post) hcl yo sim
    = main_argv (pre ++ ("--" ++ long_name f) :: post) hcl yo sim.

(* -dq is -d -q: a group of letters is the sequence of its letters (g1, g2 non-empty and not
   starting with '-', so that -g1 and -g2 are groups themselves) *)
Definition stmt_group_is_sequence : Prop :=
  forall pre post c1 r1 c2 r2 hcl yo sim,
    ~ In "--" pre -> c1 <> "-"%char -> c2 <> "-"%char ->
    main_argv (pre ++ ("-" ++ String c1 r1 ++ String c2 r2) :: post) hcl yo sim
    = main_argv (pre ++ ("-" ++ String c1 r1) :: ("-" ++ String c2 r2) :: post) hcl yo sim.

(* ------------------------------------------------------------------------------------------ *)
(* (g) the output options d q t i ungroup-debug-wires trace-assignments change neither the exit *)
(*     status nor what happens                                                                  *)
(* ------------------------------------------------------------------------------------------ *)
Definition is_output_flag (f : flag) : Prop :=
  f = FDebug \/ f = FQuiet \/ f = FTesting \/ f = FInteractive \/ f = FUngroup \/ f = FTrace.

(* two well-formed command lines with the same positionals that differ only in output options *)
Definition stmt_output_options_irrelevant : Prop :=
  forall args args' fs fs' free hcl yo sim,
    parse_argv args = Some (fs, free) -> parse_argv args' = Some (fs', free) ->
    (forall f, ~ is_output_flag f -> (In f fs <-> In f fs')) ->
    main_argv args hcl yo sim = main_argv args' hcl yo sim.

(* removing an output option argument from a well-formed command line *)
Definition stmt_output_option_removal : Prop :=
  forall pre o fs_o post hcl yo sim,
    ~ In "--" pre -> spelled o fs_o -> Forall is_output_flag fs_o ->
    well_formed (pre ++ o :: post) ->
    main_argv (pre ++ o :: post) hcl yo sim = main_argv (pre ++ post) hcl yo sim.

(* DRAFT (false): the same without the hypothesis that the longer command line is well formed -
   getopts rejects an option given twice *)
Definition stmt_output_option_insertion_draft : Prop :=
  forall pre o fs_o post hcl yo sim,
    ~ In "--" pre -> spelled o fs_o -> Forall is_output_flag fs_o ->
    main_argv (pre ++ o :: post) hcl yo sim = main_argv (pre ++ post) hcl yo sim.
