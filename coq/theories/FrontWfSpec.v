(* Closing the gap "Forall wf_stmt stmts - what the grammar guarantees": statements about program
   TEXTS.  FrontSpec.v states three propositions (stmt_lex_tokens_wf, stmt_parse_wf,
   stmt_text_to_program_ok).  FrontWfProofs.v proves the second exactly as stated and REFUTES the
   first and the third: they quantify over arbitrary byte lists, and on ill-formed UTF-8 (which a
   Rust &str never is) the model's decoder turns an over-long encoding such as C0 B0 into the
   character "0", so that the "binary literal" 0b<C0><B0> gets the width 2 and the value 299.
   The statements below are the strongest true variants: the text is the UTF-8 encoding of a
   sequence of characters (TriviaSpec.utf8 / scalar, the vocabulary of LexLocSpec, TriviaSpec,
   SpanParserSpec: every Rust String is such an encoding) - or, weaker and sufficient, a byte
   list in which every character the decoder reads as ASCII is one byte (ascii_exact).

   With them the hypothesis [Forall wf_stmt stmts] of the program-level theorems (BuildProofs,
   Props/C07.v, ToolSpec (f), ...) disappears for every program text.  Definitions only. *)
From Coq Require Import List NArith String.
From HclV Require Import Base Expr ExprSpec Machine MachineSpec MemSpec SchedSpec Build BuildSpec
     Generated Lexer Parser LexParseSpec TriviaSpec FrontSpec HistorySpec SpanParser Yo Tool ToolSpec.
Import ListNotations.
Open Scope list_scope.
Open Scope N_scope.

(* ====================================================================================== *)
(* 1. lexer: literal tokens fit their width                                               *)
(* ====================================================================================== *)
(* the text is the encoding of characters *)
Definition stmt_lex_tokens_wf_utf8 : Prop :=
  forall uc text toks err, Forall scalar text -> lex uc (utf8 text) = (toks, err) ->
    Forall (fun t => token_wf (tk t)) toks.

(* weaker hypothesis, on arbitrary bytes: whenever the decoder (Lexer.char_indices, the model of
   Rust's char_indices) reads a character below 128 at byte offset pos, that character is the byte
   at pos - i.e. no multi-byte sequence is read as an ASCII character (no over-long encoding, no
   lead byte whose continuation is missing or wrong decoding below 128) *)
Definition ascii_exact (bytes : list N) : Prop :=
  forall pos c, In (pos, c) (char_indices (S (List.length bytes)) bytes 0) -> c < 128 ->
    nth_error bytes pos = Some c.

Definition stmt_lex_tokens_wf_ascii_exact : Prop :=
  forall uc bytes toks err, ascii_exact bytes -> lex uc bytes = (toks, err) ->
    Forall (fun t => token_wf (tk t)) toks.

(* every encoded text is such a byte list *)
Definition stmt_utf8_ascii_exact : Prop :=
  forall text, Forall scalar text -> ascii_exact (utf8 text).

(* ====================================================================================== *)
(* 2. text -> statements: grammar-well-formed, whatever the table and the classification  *)
(* ====================================================================================== *)
Definition stmt_text_stmts_wf : Prop :=
  forall uc tiers text stmts, Forall scalar text ->
    parse_text uc tiers (utf8 text) = Some stmts -> Forall wf_stmt stmts.

Definition stmt_text_stmts_wf_ascii_exact : Prop :=
  forall uc tiers bytes stmts, ascii_exact bytes ->
    parse_text uc tiers bytes = Some stmts -> Forall wf_stmt stmts.

(* the spanned parser (SpanParser.v, the parser with the source spans of the grammar actions):
   its statements, spans erased, are grammar-well-formed *)
Definition stmt_parse_sp_wf : Prop :=
  forall tiers toks sstmts,
    Forall (fun t => token_wf (tk t)) toks -> parse_sp tiers toks = Some sstmts ->
    Forall wf_stmt (map erase_stmt sstmts).

Definition stmt_parse_text_sp_wf : Prop :=
  forall uc tiers text sstmts, Forall scalar text ->
    parse_text_sp uc tiers (utf8 text) = Some sstmts -> Forall wf_stmt (map erase_stmt sstmts).

(* ====================================================================================== *)
(* 3. text -> program: FrontSpec.stmt_text_to_program_ok for texts                        *)
(* ====================================================================================== *)
Definition stmt_text_to_program_ok_utf8 : Prop :=
  forall uc tiers f is_lower is_upper text stmts p,
    Forall scalar text ->
    parse_text uc tiers (utf8 text) = Some stmts ->
    build_program f gen_fixed is_lower is_upper stmts = Ok p ->
    exists G, program_ok f G p.

Definition stmt_text_to_program_ok_ascii_exact : Prop :=
  forall uc tiers f is_lower is_upper bytes stmts p,
    ascii_exact bytes ->
    parse_text uc tiers bytes = Some stmts ->
    build_program f gen_fixed is_lower is_upper stmts = Ok p ->
    exists G, program_ok f G p.

(* ====================================================================================== *)
(* 4. C07 for texts: an accepted program text never fails or misbehaves at run time       *)
(* ====================================================================================== *)
(* the states a program can be in: its initial state; any memory image put in place of the
   memory (HistorySpec.load_image = Tool.with_mem; an image only has to satisfy the memory
   invariant MemSpec.wf_mem, as every image Yo.load_from_y86 returns does); the state after one
   more cycle, under any output options *)
Inductive reachable (f : features) (p : program) : mstate -> Prop :=
| reach_init s0 : initial_state p = Ok s0 -> reachable f p s0
| reach_load s img : reachable f p s -> wf_mem img -> reachable f p (load_image s img)
| reach_step o s s' out : reachable f p s -> step f o p s = Ok (s', out) -> reachable f p s'.

(* For every text accepted by the front end (any Unicode classification, any precedence table)
   and by Program::new (Build.build_program with the built-in table of the compiled
   implementation; any feature set - in particular gen_features -, any hash order): some width
   environment G types the program; the initial state exists and is well typed; every reachable
   state is well typed (every wire holds a value of exactly its declared width that fits it, 16
   registers below 2^64, memory well formed); from a reachable state one cycle gives a reachable
   state or the explicit division-by-zero report, and so does a run of any length with enough
   fuel for the cycle budget - never a Panicked value (a Rust panic), never OutOfFuel, never a
   width or undeclared-wire error. *)
Definition stmt_text_accepted_program_ok_and_runs : Prop :=
  forall uc tiers f is_lower is_upper text stmts p,
    Forall scalar text ->
    parse_text uc tiers (utf8 text) = Some stmts ->
    build_program f gen_fixed is_lower is_upper stmts = Ok p ->
    exists G,
      program_ok f G p /\
      (exists s0, initial_state p = Ok s0 /\ state_ok G p s0) /\
      (forall s, reachable f p s -> state_ok G p s) /\
      (forall o s, reachable f p s ->
         match step f o p s with
         | Ok (s', _) => reachable f p s'
         | Err es => es = [mkErr DivisionByZero []]
         end) /\
      (forall fuel o s, reachable f p s -> (N.to_nat (o_timeout o - cycle s) <= fuel)%nat ->
         match run fuel f o p s with
         | Ok (s', _) => state_ok G p s'
         | Err es => es = [mkErr DivisionByZero []]
         end).

(* ====================================================================================== *)
(* 5. the tool: ToolSpec (f) without its hypothesis [Forall wf_stmt stmts]                *)
(* ====================================================================================== *)
(* whenever the HCL file is a text (the only case in which Tool.v represents the Rust program:
   see the head of ToolSpec.v - Rust replaces ill-formed bytes by U+FFFD before lexing), the only
   error the simulation of the tool can end in - with the cycle budget as fuel, under any options
   - is a division by zero: never a Panicked value (exit status 101), never OutOfFuel *)
Definition stmt_tool_abort_is_division_by_zero_unconditional : Prop :=
  forall files f y utext p start o es,
    files f = Some (utf8 utext) -> Forall scalar utext ->
    start_of files f y = Some (p, start) ->
    run (N.to_nat (o_timeout o)) gen_features o p start = Err es ->
    es = [mkErr DivisionByZero []].

(* the hypothesis of ToolSpec.stmt_tool_abort_is_division_by_zero always holds for such a file *)
Definition stmt_tool_statements_wf : Prop :=
  forall files f utext stmts,
    files f = Some (utf8 utext) -> Forall scalar utext ->
    statements_of files f = Some stmts -> Forall wf_stmt stmts.

(* the same for a file of arbitrary bytes, provided the text handed to the lexer (preamble, then
   the file) is ascii_exact *)
Definition stmt_tool_abort_is_division_by_zero_ascii_exact : Prop :=
  forall files f y b p start o es,
    files f = Some b -> ascii_exact (bytes_of gen_preamble ++ b) ->
    start_of files f y = Some (p, start) ->
    run (N.to_nat (o_timeout o)) gen_features o p start = Err es ->
    es = [mkErr DivisionByZero []].

(* NOT proved and NOT refuted: the same for a file of arbitrary bytes
     forall files f y p start o es, start_of files f y = Some (p, start) ->
       run (N.to_nat (o_timeout o)) gen_features o p start = Err es -> es = [mkErr DivisionByZero []].
   For ill-formed UTF-8 the compiled program need not be program_ok (section 3 is refuted there),
   so the statement does not follow by composition; no counterexample is known either (the
   evaluator masks every result to its width). *)
