(* Proofs of the statements of FrontTotalSpec.v (C13: totality of the model's front end). *)
From Coq Require Import ZifyBool ZifyNat ZifyN Permutation.
From HclV Require Import Base Expr Machine Graph GraphSpec GraphProofs Build Lexer Parser
                         LexParseSpec LexParseProofs ExprSpec ExprLemmas ExprProofs MachineSpec BuildSpec Generated BuildProofs FrontTotalSpec.
Open Scope list_scope.

(* ====================================================================================== *)
(* Part A: the lexer                                                                       *)
(* ====================================================================================== *)

(* ---- suffixes ---------------------------------------------------------------------------- *)
Definition suffix {A} (r l : list A) : Prop := exists pre, l = pre ++ r.

Lemma suffix_refl {A} (l : list A) : suffix l l.
Proof. exists []. reflexivity. Qed.

Lemma suffix_cons {A} (x : A) r l : suffix r l -> suffix r (x :: l).
Proof. intros [pre ->]. exists (x :: pre). reflexivity. Qed.

Lemma suffix_trans {A} (a b c : list A) : suffix a b -> suffix b c -> suffix a c.
Proof. intros [p ->] [q ->]. exists (q ++ p). rewrite app_assoc. reflexivity. Qed.

Lemma suffix_length {A} (r l : list A) : suffix r l -> (List.length r <= List.length l)%nat.
Proof. intros [pre ->]. rewrite app_length. lia. Qed.

Lemma suffix_proper_cons {A} (x : A) r l : suffix r l -> proper_suffix r (x :: l).
Proof. intros [pre ->]. exists (x :: pre). split; [discriminate | reflexivity]. Qed.

Lemma proper_suffix_length {A} (r l : list A) : proper_suffix r l -> (List.length r < List.length l)%nat.
Proof.
  intros [pre [Hne ->]]. rewrite app_length. destruct pre as [|x pre]; [contradiction|]. cbn [List.length]. lia.
Qed.

Lemma suffix_nil {A} (l : list A) : suffix [] l.
Proof. exists l. rewrite app_nil_r. reflexivity. Qed.

(* ---- the decoder --------------------------------------------------------------------------- *)
Lemma take_cont_skipn : forall n l acc, snd (take_cont l n acc) = skipn n l.
Proof.
  induction n as [|n IH]; intros l acc; destruct l as [|b r]; cbn [take_cont skipn]; try reflexivity.
  apply IH.
Qed.

Lemma utf8_len_pos b : (1 <= utf8_len b)%nat.
Proof. unfold utf8_len. destruct (b <? 128)%N, (b <? 224)%N, (b <? 240)%N; lia. Qed.

Lemma char_indices_cons f b r pos :
  char_indices (S f) (b :: r) pos =
  (pos, fst (take_cont r (utf8_len b - 1)
               (if (b <? 128)%N then b else if (b <? 224)%N then (b mod 32)%N
                else if (b <? 240)%N then (b mod 16)%N else (b mod 8)%N)))
    :: char_indices f (skipn (utf8_len b - 1) r) (pos + utf8_len b).
Proof.
  cbn [char_indices].
  rewrite <- (take_cont_skipn (utf8_len b - 1) r
                (if (b <? 128)%N then b else if (b <? 224)%N then (b mod 32)%N
                 else if (b <? 240)%N then (b mod 16)%N else (b mod 8)%N)).
  destruct (take_cont r (utf8_len b - 1) _) as [cp rest]. reflexivity.
Qed.

Lemma char_indices_nil f pos : char_indices f [] pos = [].
Proof. destruct f; reflexivity. Qed.

Lemma char_indices_fuel2 : forall f1 f2 l pos,
  (List.length l < f1)%nat -> (List.length l < f2)%nat -> char_indices f1 l pos = char_indices f2 l pos.
Proof.
  induction f1 as [|f1 IH]; intros f2 l pos H1 H2; [lia|].
  destruct f2 as [|f2]; [lia|].
  destruct l as [|b r]; [reflexivity|].
  rewrite !char_indices_cons. f_equal. cbn [List.length] in H1, H2.
  pose proof (skipn_length (utf8_len b - 1) r) as Hs.
  apply IH; lia.
Qed.

Theorem char_indices_fuel_holds : stmt_char_indices_fuel.
Proof. intros fuel l pos H. apply char_indices_fuel2; lia. Qed.

Theorem char_indices_length_holds : stmt_char_indices_length.
Proof.
  intros fuel. induction fuel as [|f IH]; intros l pos; [cbn; lia|].
  destruct l as [|b r]; [cbn; lia|].
  rewrite char_indices_cons. cbn [List.length].
  pose proof (IH (skipn (utf8_len b - 1) r) (pos + utf8_len b)%nat) as H.
  pose proof (skipn_length (utf8_len b - 1) r) as Hs. lia.
Qed.

(* ---- offsets: strictly increasing and inside the text -------------------------------------- *)
Definition lb (cs : list (nat * N)) (len : nat) : nat :=
  match cs with [] => len | (i, _) :: _ => i end.

Fixpoint offs_ok (lo len : nat) (cs : list (nat * N)) : Prop :=
  match cs with
  | [] => (lo <= len)%nat
  | (i, _) :: r => (lo <= i)%nat /\ offs_ok (S i) len r
  end.

Lemma offs_weaken : forall cs lo lo' len, (lo' <= lo)%nat -> offs_ok lo len cs -> offs_ok lo' len cs.
Proof.
  destruct cs as [|[i c] r]; intros lo lo' len Hle H; cbn [offs_ok] in *; [lia|].
  destruct H as [H1 H2]. split; [lia | exact H2].
Qed.

Lemma offs_lb : forall cs lo len, offs_ok lo len cs -> (lo <= lb cs len)%nat /\ (lb cs len <= len)%nat.
Proof.
  induction cs as [|[i c] r IH]; intros lo len H; cbn [offs_ok lb] in *; [lia|].
  destruct H as [H1 H2]. apply IH in H2. destruct r as [|[j d] r']; cbn [lb] in H2; lia.
Qed.

Lemma offs_app : forall pre r lo len, offs_ok lo len (pre ++ r) -> offs_ok (lo + List.length pre) len r.
Proof.
  induction pre as [|[i c] pre IH]; intros r lo len H; cbn [app List.length] in *.
  - rewrite Nat.add_0_r. exact H.
  - cbn [offs_ok] in H. destruct H as [H1 H2]. apply IH in H2.
    apply (offs_weaken r (S i + List.length pre) _ len); [lia | exact H2].
Qed.

Lemma offs_suffix r cs lo len : suffix r cs -> offs_ok lo len cs -> offs_ok lo len r.
Proof.
  intros [pre ->] H. apply offs_app in H. apply (offs_weaken r _ lo len) in H; [exact H | lia].
Qed.

Lemma offs_proper r cs lo len : proper_suffix r cs -> offs_ok lo len cs -> offs_ok (S (lb cs len)) len r.
Proof.
  intros [pre [Hne ->]] H. destruct pre as [|[i c] pre]; [contradiction|].
  cbn [app lb]. cbn [app offs_ok] in H. destruct H as [_ H].
  apply (offs_suffix r (pre ++ r)); [exists pre; reflexivity | exact H].
Qed.

Lemma char_indices_offs : forall fuel l pos len,
  (pos + List.length l = len)%nat -> offs_ok pos len (char_indices fuel l pos).
Proof.
  induction fuel as [|f IH]; intros l pos len H; [cbn; lia|].
  destruct l as [|b r]; [cbn; lia|].
  rewrite char_indices_cons. cbn [offs_ok List.length] in *. split; [lia|].
  pose proof (utf8_len_pos b) as Hn.
  destruct (skipn (utf8_len b - 1) r) as [|b2 r2] eqn:Es.
  - rewrite char_indices_nil. cbn [offs_ok]. lia.
  - assert (Hl : (List.length (skipn (utf8_len b - 1) r) = List.length r - (utf8_len b - 1))%nat)
      by apply skipn_length.
    rewrite Es in Hl. cbn [List.length] in Hl.
    apply (offs_weaken _ (pos + utf8_len b) (S pos) len); [lia|].
    apply IH. cbn [List.length]. lia.
Qed.

(* ---- get_while ----------------------------------------------------------------------------- *)
Lemma get_while_spec p : forall cs len rest last,
  get_while p cs len = (rest, last) -> suffix rest cs /\ last = lb rest len.
Proof.
  induction cs as [|[i c] r IH]; intros len rest last H; cbn [get_while] in H.
  - injection H as <- <-. split; [apply suffix_refl | reflexivity].
  - destruct (p c).
    + apply IH in H. destruct H as [H1 H2]. split; [apply suffix_cons; exact H1 | exact H2].
    + injection H as <- <-. split; [apply suffix_refl | reflexivity].
Qed.

(* ---- block comments ------------------------------------------------------------------------ *)
Lemma skip_block_comment_fuel2 : forall f1 f2 cs len,
  (List.length cs < f1)%nat -> (List.length cs < f2)%nat ->
  skip_block_comment f1 cs len = skip_block_comment f2 cs len.
Proof.
  induction f1 as [|f1 IH]; intros f2 cs len H1 H2; [lia|].
  destruct f2 as [|f2]; [lia|]. cbn [skip_block_comment].
  destruct (get_while is_not_star cs len) as [rest last] eqn:Eg.
  apply get_while_spec in Eg. destruct Eg as [Hs _]. apply suffix_length in Hs.
  destruct rest as [|[i c] r]; [reflexivity|].
  cbn [List.length] in Hs.
  destruct r as [|[j d] r2]; [apply IH; cbn [List.length]; lia|].
  assert (Hrec : skip_block_comment f1 ((j, d) :: r2) len = skip_block_comment f2 ((j, d) :: r2) len)
    by (apply IH; cbn [List.length] in *; lia).
  destruct d as [|p]; [exact Hrec|].
  do 6 (destruct p as [p|p|]; try exact Hrec). reflexivity.
Qed.

Theorem skip_block_comment_fuel_holds : stmt_skip_block_comment_fuel.
Proof. intros fuel cs len H. apply skip_block_comment_fuel2; lia. Qed.

Lemma skip_block_comment_suffix : forall f cs len rest,
  skip_block_comment f cs len = Some rest -> proper_suffix rest cs.
Proof.
  induction f as [|f IH]; intros cs len rest H; [discriminate H|].
  cbn [skip_block_comment] in H.
  destruct (get_while is_not_star cs len) as [rest0 last] eqn:Eg.
  apply get_while_spec in Eg. destruct Eg as [[pre ->] _].
  destruct rest0 as [|[i c] r]; [discriminate H|].
  assert (Hgen : forall r', suffix r' r -> proper_suffix r' (pre ++ (i, c) :: r)).
  { intros r' [q ->]. exists (pre ++ (i, c) :: q). split.
    - destruct pre; discriminate.
    - rewrite <- app_assoc. reflexivity. }
  assert (Hrec : skip_block_comment f r len = Some rest -> proper_suffix rest (pre ++ (i, c) :: r)).
  { intros Hr. apply IH in Hr. destruct Hr as [q [_ ->]]. apply Hgen. exists q. reflexivity. }
  destruct r as [|[j d] r2]; [apply Hrec; exact H|].
  destruct d as [|p]; [apply Hrec; exact H|].
  do 6 (destruct p as [p|p|]; try (apply Hrec; exact H)).
  injection H as <-. apply Hgen. exists [(j, 47%N)]. reflexivity.
Qed.

(* ---- one step of Lexer::next, with the big character match factored out --------------------- *)
Inductive pclass :=
| PHash | PSlash | PDot | PBad
| PTwo (dflt : token) (options : list (N * token))
| PSimple (t : token).

Definition classify (c : N) : pclass :=
  match c with
  | 35 => PHash
  | 47 => PSlash
  | 38 => PTwo TAnd [(38, TAndAnd)]
  | 124 => PTwo TOr [(124, TOrOr)]
  | 61 => PTwo TAssign [(61, TEqual)]
  | 62 => PTwo TGreater [(62, TRightShift); (61, TGreaterEqual)]
  | 60 => PTwo TLess [(60, TLeftShift); (61, TLessEqual)]
  | 33 => PTwo TNot [(61, TNotEqual)]
  | 58 => PSimple TColon
  | 126 => PSimple TComplement
  | 44 => PSimple TComma
  | 59 => PSimple TSemicolon
  | 46 => PDot
  | 43 => PSimple TPlus
  | 45 => PSimple TMinus
  | 94 => PSimple TXor
  | 42 => PSimple TTimes
  | 40 => PSimple TOpenParen
  | 41 => PSimple TCloseParen
  | 91 => PSimple TOpenBracket
  | 93 => PSimple TCloseBracket
  | 123 => PSimple TOpenBrace
  | 125 => PSimple TCloseBrace
  | _ => PBad
  end%N.

(* is the head of r the character d ? *)
Definition head_is (d : N) (r : list (nat * N)) : bool :=
  match r with (_, c) :: _ => (c =? d)%N | [] => false end.

Definition punct (rec : list (nat * N) -> lex_step) (len i : nat) (c : N) (r : list (nat * N)) : lex_step :=
  match classify c with
  | PHash => rec (fst (get_while is_not_newline r len))
  | PSlash =>
      if head_is 47 r then rec (fst (get_while is_not_newline r len))
      else if head_is 42 r then
        match skip_block_comment (S (List.length (tl r))) (tl r) len with
        | Some rest => rec rest
        | None => LexErr (LexUnterminatedComment i) []
        end
      else LexTok (i, TDivide, (i + 1)%nat) r
  | PDot => if head_is 46 r then LexTok (i, TDotDot, (i + 2)%nat) (tl r) else LexErr (LexLexicalError i) r
  | PBad => LexErr (LexLexicalError i) r
  | PTwo dflt options => LexTok (fst (two_char i dflt options r)) (snd (two_char i dflt options r))
  | PSimple t => LexTok (i, t, (i + 1)%nat) r
  end.

Ltac destruct_pos p n :=
  lazymatch n with
  | O => idtac
  | S ?m => try (destruct p as [p|p|]; [destruct_pos p m | destruct_pos p m | ]; try reflexivity)
  end.

Lemma head_is_cases d r :
  (exists j r2, r = (j, d) :: r2 /\ head_is d r = true) \/ (head_is d r = false).
Proof.
  destruct r as [|[j c] r2]; [right; reflexivity|]. cbn [head_is].
  destruct (c =? d)%N eqn:E; [|right; reflexivity].
  apply N.eqb_eq in E. subst c. left. exists j, r2. split; reflexivity.
Qed.

Lemma lex_next_S uc f bytes len i c r :
  lex_next uc (S f) bytes len ((i, c) :: r) =
  if is_whitespace uc c then lex_next uc f bytes len r
  else if is_start_identifier_char uc c then
    LexTok (i, resolve_identifier (slice bytes i (snd (get_while (is_identifier_char uc) r len))),
            snd (get_while (is_identifier_char uc) r len))
           (fst (get_while (is_identifier_char uc) r len))
  else if is_decimal_char c then
    match fst (handle_constant bytes len i r) with
    | inl t => LexTok t (snd (handle_constant bytes len i r))
    | inr e => LexErr e (snd (handle_constant bytes len i r))
    end
  else punct (lex_next uc f bytes len) len i c r.
Proof.
  cbn [lex_next].
  destruct (is_whitespace uc c); [reflexivity|].
  destruct (is_start_identifier_char uc c).
  { destruct (get_while (is_identifier_char uc) r len) as [rest last]. reflexivity. }
  destruct (is_decimal_char c).
  { destruct (handle_constant bytes len i r) as [[t|e] rest]; reflexivity. }
  unfold punct.
  assert (Hsl : forall A (k : lex_step -> A),
             k match r with
               | (_, 47%N) :: _ => let '(rest, _) := get_while is_not_newline r len in lex_next uc f bytes len rest
               | (_, 42%N) :: r2 =>
                   match skip_block_comment (S (List.length r2)) r2 len with
                   | Some rest => lex_next uc f bytes len rest
                   | None => LexErr (LexUnterminatedComment i) []
                   end
               | _ => LexTok (i, TDivide, (i + 1)%nat) r
               end =
             k (if head_is 47 r then lex_next uc f bytes len (fst (get_while is_not_newline r len))
                else if head_is 42 r then
                  match skip_block_comment (S (List.length (tl r))) (tl r) len with
                  | Some rest => lex_next uc f bytes len rest
                  | None => LexErr (LexUnterminatedComment i) []
                  end
                else LexTok (i, TDivide, (i + 1)%nat) r)).
  { intros A k. f_equal. destruct r as [|[j d] r2]; [reflexivity|]. cbn [head_is tl].
    destruct d as [|p]; [reflexivity|].
    destruct (get_while is_not_newline ((j, N.pos p) :: r2) len) as [rest last] eqn:Eg. cbn [fst].
    destruct_pos p 7%nat; rewrite Eg; reflexivity. }
  assert (Hdot : match r with
                 | (_, 46%N) :: r2 => LexTok (i, TDotDot, (i + 2)%nat) r2
                 | _ => LexErr (LexLexicalError i) r
                 end =
                 if head_is 46 r then LexTok (i, TDotDot, (i + 2)%nat) (tl r) else LexErr (LexLexicalError i) r).
  { destruct r as [|[j d] r2]; [reflexivity|]. cbn [head_is tl].
    destruct d as [|p]; [reflexivity|]. destruct_pos p 7%nat. }
  destruct c as [|p]; [reflexivity|].
  destruct_pos p 8%nat; cbv beta iota delta [classify];
    try (destruct (get_while is_not_newline r len) as [rest last]; reflexivity);
    try (apply (Hsl lex_step (fun x => x)));
    try exact Hdot;
    try (match goal with |- context [two_char ?a ?b ?c ?d] => destruct (two_char a b c d) as [t rest] end; reflexivity).
Qed.

Lemma lex_next_nil uc f bytes len : lex_next uc f bytes len [] = LexEnd.
Proof. destruct f; reflexivity. Qed.

Lemma head_is_tl d r : head_is d r = true -> exists j, r = (j, d) :: tl r.
Proof.
  destruct r as [|[j c] r2]; cbn [head_is tl]; [discriminate|]. intros H. apply N.eqb_eq in H. subst c.
  exists j. reflexivity.
Qed.

Lemma punct_ext (rec1 rec2 : list (nat * N) -> lex_step) len i c r :
  (forall x, suffix x r -> rec1 x = rec2 x) -> punct rec1 len i c r = punct rec2 len i c r.
Proof.
  intros H. unfold punct.
  assert (Hnl : rec1 (fst (get_while is_not_newline r len)) = rec2 (fst (get_while is_not_newline r len))).
  { destruct (get_while is_not_newline r len) as [rest last] eqn:Eg. apply get_while_spec in Eg.
    apply H. apply Eg. }
  destruct (classify c); try reflexivity; [exact Hnl|].
  destruct (head_is 47 r); [exact Hnl|].
  destruct (head_is 42 r) eqn:E42; [|reflexivity].
  destruct (skip_block_comment (S (List.length (tl r))) (tl r) len) as [rest|] eqn:Es; [|reflexivity].
  apply H. apply skip_block_comment_suffix in Es. destruct Es as [pre [_ Hp]].
  apply head_is_tl in E42. destruct E42 as [j ->]. cbn [tl] in Hp. rewrite Hp.
  exists ((j, 42%N) :: pre). reflexivity.
Qed.

Lemma lex_next_fuel2 uc bytes len : forall f1 f2 cs,
  (List.length cs < f1)%nat -> (List.length cs < f2)%nat ->
  lex_next uc f1 bytes len cs = lex_next uc f2 bytes len cs.
Proof.
  induction f1 as [|f1 IH]; intros f2 cs H1 H2; [lia|].
  destruct f2 as [|f2]; [lia|].
  destruct cs as [|[i c] r]; [reflexivity|].
  cbn [List.length] in H1, H2. rewrite !lex_next_S.
  destruct (is_whitespace uc c); [apply IH; lia|].
  destruct (is_start_identifier_char uc c); [reflexivity|].
  destruct (is_decimal_char c); [reflexivity|].
  apply punct_ext. intros x Hx. apply suffix_length in Hx. apply IH; lia.
Qed.

Theorem lex_next_fuel_holds : stmt_lex_next_fuel.
Proof. intros uc fuel bytes len cs H. apply lex_next_fuel2; lia. Qed.

Theorem lex_next_end_stable_holds : stmt_lex_next_end_stable.
Proof.
  intros uc fuel bytes len cs H He fuel' Hle. rewrite <- He. apply lex_next_fuel2; lia.
Qed.

(* ---- what one step guarantees --------------------------------------------------------------- *)
Definition err_ok (lo len : nat) (er : lex_error) : Prop :=
  match er with
  | LexLexicalError loc => (lo <= loc)%nat /\ (loc <= len)%nat
  | LexUnterminatedComment loc => (lo <= loc)%nat /\ (loc < len)%nat
  | LexInvalidConstant s e => (lo <= s)%nat /\ (s < e)%nat /\ (e <= len)%nat
  end.

Definition step_ok (len : nat) (cs : list (nat * N)) (st : lex_step) : Prop :=
  match st with
  | LexTok t rest =>
      proper_suffix rest cs /\
      forall lo, offs_ok lo len cs ->
        (lb cs len <= fst (fst t))%nat /\ (fst (fst t) < snd t)%nat /\ (snd t <= lb rest len)%nat
  | LexErr er rest =>
      proper_suffix rest cs /\ forall lo, offs_ok lo len cs -> err_ok (lb cs len) len er
  | LexEnd => True
  end.

Lemma err_ok_weaken lo lo' len er : (lo' <= lo)%nat -> err_ok lo len er -> err_ok lo' len er.
Proof. destruct er; cbn [err_ok]; lia. Qed.

Lemma lb_suffix r cs lo len : suffix r cs -> offs_ok lo len cs -> (lb cs len <= lb r len)%nat.
Proof.
  intros [pre ->] H. destruct pre as [|[i c] pre]; [cbn [app]; lia|].
  cbn [app lb]. cbn [app offs_ok] in H. destruct H as [_ H]. apply offs_app in H. apply offs_lb in H. lia.
Qed.

Lemma proper_suffix_trans_l {A} (a b c : list A) : proper_suffix a b -> suffix b c -> proper_suffix a c.
Proof.
  intros [p [Hp ->]] [q ->]. exists (q ++ p). split; [|rewrite app_assoc; reflexivity].
  destruct q; [exact Hp | discriminate].
Qed.

Lemma proper_suffix_trans_r {A} (a b c : list A) : suffix a b -> proper_suffix b c -> proper_suffix a c.
Proof.
  intros [p ->] [q [Hq ->]]. exists (q ++ p). split; [|rewrite app_assoc; reflexivity].
  destruct q; [contradiction | discriminate].
Qed.

Lemma proper_is_suffix {A} (a b : list A) : proper_suffix a b -> suffix a b.
Proof. intros [p [_ ->]]. exists p. reflexivity. Qed.

Lemma step_ok_suffix len r cs st : suffix r cs -> step_ok len r st -> step_ok len cs st.
Proof.
  intros Hs. destruct st as [t rest|er rest|]; cbn [step_ok]; [| |trivial].
  - intros [Hp Hsp]. split; [apply (proper_suffix_trans_l _ _ _ Hp Hs)|].
    intros lo Ho. pose proof (lb_suffix r cs lo len Hs Ho) as Hl.
    destruct (Hsp lo (offs_suffix r cs lo len Hs Ho)) as [H1 [H2 H3]]. lia.
  - intros [Hp Hsp]. split; [apply (proper_suffix_trans_l _ _ _ Hp Hs)|].
    intros lo Ho. pose proof (lb_suffix r cs lo len Hs Ho) as Hl.
    apply (err_ok_weaken (lb r len)); [exact Hl|]. apply (Hsp lo). apply (offs_suffix r cs lo len Hs Ho).
Qed.

Lemma constant_of_cases bytes radix ts te s e w :
  (exists t, constant_of bytes radix ts te s e w = inl (s, t, e)) \/
  constant_of bytes radix ts te s e w = inr (LexInvalidConstant s e).
Proof.
  unfold constant_of. destruct (_ <? two128)%N; [|right; reflexivity].
  destruct w as [n|]; [|left; eexists; reflexivity].
  destruct (n <=? 128)%N; [left; eexists; reflexivity | right; reflexivity].
Qed.

Definition hc_ok (len i : nat) (res : (nat * token * nat) + lex_error) (rest : list (nat * N)) : Prop :=
  match res with
  | inl t => fst (fst t) = i /\ (i < snd t)%nat /\ (snd t <= lb rest len)%nat
  | inr er => err_ok i len er
  end.

Lemma constant_of_ok bytes radix ts te i e w len rest :
  (i < e)%nat -> (e <= lb rest len)%nat -> (lb rest len <= len)%nat ->
  hc_ok len i (constant_of bytes radix ts te i e w) rest.
Proof.
  intros H1 H2 H3. destruct (constant_of_cases bytes radix ts te i e w) as [[t ->]| ->]; cbn; lia.
Qed.

Lemma handle_constant_eq bytes len i cs :
  handle_constant bytes len i cs =
  match cs with
  | [] => (constant_of bytes 10 i (i + 1) i (i + 1) None, cs)
  | (j0, c0) :: r =>
      if (c0 =? 120)%N then
        match r with
        | [] => (inr (LexLexicalError len), [])
        | (j, c) :: r2 =>
            if is_hexadecimal_char c then
              (constant_of bytes 16 (i + 2) (snd (get_while is_hexadecimal_char r2 len)) i
                           (snd (get_while is_hexadecimal_char r2 len)) None,
               fst (get_while is_hexadecimal_char r2 len))
            else (inr (LexLexicalError j), r2)
        end
      else if (c0 =? 98)%N then
        match r with
        | [] => (inr (LexLexicalError len), [])
        | (j, c) :: r2 =>
            if is_binary_char c then
              let rest := fst (get_while is_binary_char r2 len) in
              let last := snd (get_while is_binary_char r2 len) in
              match rest with
              | (k, c2) :: rest2 =>
                  if is_decimal_char c2 then (inr (LexLexicalError k), rest2)
                  else (constant_of bytes 2 (i + 2) last i last (Some (N.of_nat (last - (i + 2)))), rest)
              | [] => (constant_of bytes 2 (i + 2) last i last (Some (N.of_nat (last - (i + 2)))), rest)
              end
            else (inr (LexLexicalError j), r2)
        end
      else if is_decimal_char c0 then
        (constant_of bytes 10 i (snd (get_while is_decimal_char cs len)) i
                     (snd (get_while is_decimal_char cs len)) None,
         fst (get_while is_decimal_char cs len))
      else (constant_of bytes 10 i (i + 1) i (i + 1) None, cs)
  end.
Proof.
  destruct cs as [|[j0 c0] r]; [reflexivity|].
  assert (Hhex : forall r,
            match r with
            | [] => (inr (LexLexicalError len), [])
            | (j, c) :: r2 =>
                if is_hexadecimal_char c
                then let '(rest, last) := get_while is_hexadecimal_char r2 len in
                     (constant_of bytes 16 (i + 2) last i last None, rest)
                else (inr (LexLexicalError j), r2)
            end =
            match r with
            | [] => (inr (LexLexicalError len), [])
            | (j, c) :: r2 =>
                if is_hexadecimal_char c then
                  (constant_of bytes 16 (i + 2) (snd (get_while is_hexadecimal_char r2 len)) i
                               (snd (get_while is_hexadecimal_char r2 len)) None,
                   fst (get_while is_hexadecimal_char r2 len))
                else (inr (LexLexicalError j), r2)
            end).
  { intros r0. destruct r0 as [|[j c] r2]; [reflexivity|].
    destruct (get_while is_hexadecimal_char r2 len) as [rest last]. reflexivity. }
  assert (Hbin : forall r,
            match r with
            | [] => (inr (LexLexicalError len), [])
            | (j, c) :: r2 =>
                if is_binary_char c
                then let '(rest, last) := get_while is_binary_char r2 len in
                     match rest with
                     | (k, c2) :: rest2 =>
                         if is_decimal_char c2 then (inr (LexLexicalError k), rest2)
                         else (constant_of bytes 2 (i + 2) last i last (Some (N.of_nat (last - (i + 2)))), rest)
                     | [] => (constant_of bytes 2 (i + 2) last i last (Some (N.of_nat (last - (i + 2)))), rest)
                     end
                else (inr (LexLexicalError j), r2)
            end =
            match r with
            | [] => (inr (LexLexicalError len), [])
            | (j, c) :: r2 =>
                if is_binary_char c then
                  let rest := fst (get_while is_binary_char r2 len) in
                  let last := snd (get_while is_binary_char r2 len) in
                  match rest with
                  | (k, c2) :: rest2 =>
                      if is_decimal_char c2 then (inr (LexLexicalError k), rest2)
                      else (constant_of bytes 2 (i + 2) last i last (Some (N.of_nat (last - (i + 2)))), rest)
                  | [] => (constant_of bytes 2 (i + 2) last i last (Some (N.of_nat (last - (i + 2)))), rest)
                  end
                else (inr (LexLexicalError j), r2)
            end).
  { intros r0. destruct r0 as [|[j c] r2]; [reflexivity|].
    destruct (get_while is_binary_char r2 len) as [rest last]. reflexivity. }
  assert (Hdec : forall c0,
            (if is_decimal_char c0
             then let '(rest, last) := get_while is_decimal_char ((j0, c0) :: r) len in
                  (constant_of bytes 10 i last i last None, rest)
             else (constant_of bytes 10 i (i + 1) i (i + 1) None, (j0, c0) :: r)) =
            (if is_decimal_char c0 then
               (constant_of bytes 10 i (snd (get_while is_decimal_char ((j0, c0) :: r) len)) i
                            (snd (get_while is_decimal_char ((j0, c0) :: r) len)) None,
                fst (get_while is_decimal_char ((j0, c0) :: r) len))
             else (constant_of bytes 10 i (i + 1) i (i + 1) None, (j0, c0) :: r))).
  { intros c. destruct (get_while is_decimal_char ((j0, c) :: r) len) as [rest last]. reflexivity. }
  unfold handle_constant.
  destruct c0 as [|p]; [exact (Hdec 0%N)|].
  destruct_pos p 8%nat;
    try (match goal with |- _ = if (?c =? 120)%N then _ else _ => exact (Hdec c) end);
    try (apply Hhex); try (apply Hbin).
Qed.

Lemma get_while_fst_suffix p cs len : suffix (fst (get_while p cs len)) cs.
Proof. destruct (get_while p cs len) as [rest last] eqn:E. apply get_while_spec in E. apply E. Qed.

Lemma get_while_snd p cs len : snd (get_while p cs len) = lb (fst (get_while p cs len)) len.
Proof. destruct (get_while p cs len) as [rest last] eqn:E. apply get_while_spec in E. apply E. Qed.

Lemma offs_cons_inv lo len j c r : offs_ok lo len ((j, c) :: r) -> (lo <= j)%nat /\ offs_ok (S j) len r /\ (j < len)%nat.
Proof.
  cbn [offs_ok]. intros [H1 H2]. split; [exact H1|]. split; [exact H2|]. apply offs_lb in H2. lia.
Qed.

Lemma handle_constant_ok bytes len i r :
  suffix (snd (handle_constant bytes len i r)) r /\
  (offs_ok (S i) len r ->
   hc_ok len i (fst (handle_constant bytes len i r)) (snd (handle_constant bytes len i r))).
Proof.
  rewrite handle_constant_eq.
  destruct r as [|[j0 c0] r1].
  { cbn [fst snd]. split; [apply suffix_refl|]. cbn [offs_ok]. intros Ho.
    apply constant_of_ok; cbn [lb]; lia. }
  destruct (c0 =? 120)%N.
  { destruct r1 as [|[j c] r2].
    - cbn [fst snd]. split; [apply suffix_nil|]. intros Ho. apply offs_cons_inv in Ho. cbn [hc_ok err_ok]. lia.
    - destruct (is_hexadecimal_char c); cbn [fst snd].
      + pose proof (get_while_fst_suffix is_hexadecimal_char r2 len) as Hs. split.
        * apply suffix_cons, suffix_cons. exact Hs.
        * intros Ho. apply offs_cons_inv in Ho. destruct Ho as [Ha [Ho _]].
          apply offs_cons_inv in Ho. destruct Ho as [Hb [Ho _]].
          apply (offs_suffix _ _ _ _ Hs) in Ho. apply offs_lb in Ho.
          rewrite get_while_snd. apply constant_of_ok; lia.
      + split; [apply suffix_cons, suffix_cons, suffix_refl|].
        intros Ho. apply offs_cons_inv in Ho. destruct Ho as [Ha [Ho _]].
        apply offs_cons_inv in Ho. cbn [hc_ok err_ok]. lia. }
  destruct (c0 =? 98)%N.
  { destruct r1 as [|[j c] r2].
    - cbn [fst snd]. split; [apply suffix_nil|]. intros Ho. apply offs_cons_inv in Ho. cbn [hc_ok err_ok]. lia.
    - destruct (is_binary_char c); cbn [fst snd].
      + pose proof (get_while_fst_suffix is_binary_char r2 len) as Hs.
        pose proof (get_while_snd is_binary_char r2 len) as Hl. cbv zeta.
        destruct (fst (get_while is_binary_char r2 len)) as [|[k c2] rest2] eqn:Er.
        * cbn [fst snd]. split; [apply suffix_nil|].
          intros Ho. apply offs_cons_inv in Ho. destruct Ho as [Ha [Ho _]].
          apply offs_cons_inv in Ho. destruct Ho as [Hb [Ho Hc]]. rewrite Hl. cbn [lb].
          apply constant_of_ok; cbn [lb]; lia.
        * destruct (is_decimal_char c2); cbn [fst snd].
          -- split.
             ++ apply suffix_cons, suffix_cons. apply (suffix_trans _ ((k, c2) :: rest2)); [|exact Hs].
                apply suffix_cons, suffix_refl.
             ++ intros Ho. apply offs_cons_inv in Ho. destruct Ho as [Ha [Ho _]].
                apply offs_cons_inv in Ho. destruct Ho as [Hb [Ho _]].
                apply (offs_suffix _ _ _ _ Hs) in Ho. apply offs_cons_inv in Ho. cbn [hc_ok err_ok]. lia.
          -- split; [apply suffix_cons, suffix_cons; exact Hs|].
             intros Ho. apply offs_cons_inv in Ho. destruct Ho as [Ha [Ho _]].
             apply offs_cons_inv in Ho. destruct Ho as [Hb [Ho _]].
             apply (offs_suffix _ _ _ _ Hs) in Ho. apply offs_lb in Ho. rewrite Hl.
             apply constant_of_ok; lia.
      + split; [apply suffix_cons, suffix_cons, suffix_refl|].
        intros Ho. apply offs_cons_inv in Ho. destruct Ho as [Ha [Ho _]].
        apply offs_cons_inv in Ho. cbn [hc_ok err_ok]. lia. }
  destruct (is_decimal_char c0); cbn [fst snd].
  - pose proof (get_while_fst_suffix is_decimal_char ((j0, c0) :: r1) len) as Hs.
    split; [exact Hs|]. intros Ho. apply (offs_suffix _ _ _ _ Hs) in Ho. apply offs_lb in Ho.
    rewrite get_while_snd. apply constant_of_ok; lia.
  - split; [apply suffix_refl|]. intros Ho. apply offs_lb in Ho. apply constant_of_ok; lia.
Qed.

Lemma two_char_cases i dflt options r :
  (exists t, two_char i dflt options r = ((i, t, (i + 1)%nat), r)) \/
  (exists t j c r', r = (j, c) :: r' /\ two_char i dflt options r = ((i, t, (i + 2)%nat), r')).
Proof.
  unfold two_char. destruct r as [|[j c] r']; [left; eexists; reflexivity|].
  destruct (find (fun o => (fst o =? c)%N) options) as [[x t]|].
  - right. exists t, j, c, r'. split; reflexivity.
  - left. eexists; reflexivity.
Qed.

Lemma punct_ok (rec : list (nat * N) -> lex_step) len i c r :
  (forall x, suffix x r -> step_ok len x (rec x)) ->
  step_ok len ((i, c) :: r) (punct rec len i c r).
Proof.
  intros Hrec.
  assert (Hsimple : forall t, step_ok len ((i, c) :: r) (LexTok (i, t, (i + 1)%nat) r)).
  { intros t. cbn [step_ok fst snd lb]. split; [apply suffix_proper_cons, suffix_refl|].
    intros lo Ho. apply offs_cons_inv in Ho. destruct Ho as [_ [Ho _]]. apply offs_lb in Ho. lia. }
  assert (Hbad : step_ok len ((i, c) :: r) (LexErr (LexLexicalError i) r)).
  { cbn [step_ok lb err_ok]. split; [apply suffix_proper_cons, suffix_refl|].
    intros lo Ho. apply offs_cons_inv in Ho. lia. }
  assert (Hsub : forall x, suffix x r -> step_ok len ((i, c) :: r) (rec x)).
  { intros x Hx. apply (step_ok_suffix len x); [apply suffix_cons; exact Hx | apply Hrec; exact Hx]. }
  unfold punct. destruct (classify c) as [| | | |dflt options|t].
  - apply Hsub. apply get_while_fst_suffix.
  - destruct (head_is 47 r); [apply Hsub; apply get_while_fst_suffix|].
    destruct (head_is 42 r) eqn:E42; [|apply Hsimple].
    destruct (skip_block_comment (S (List.length (tl r))) (tl r) len) as [rest|] eqn:Es.
    + apply Hsub. apply skip_block_comment_suffix in Es. apply proper_is_suffix in Es.
      apply (suffix_trans _ (tl r)); [exact Es|]. apply head_is_tl in E42. destruct E42 as [j E42].
      rewrite E42 at 2. apply suffix_cons, suffix_refl.
    + cbn [step_ok lb err_ok]. split; [apply suffix_proper_cons, suffix_nil|].
      intros lo Ho. apply offs_cons_inv in Ho. lia.
  - destruct (head_is 46 r) eqn:E46; [|apply Hbad].
    apply head_is_tl in E46. destruct E46 as [j E46]. cbn [step_ok fst snd lb]. split.
    + apply suffix_proper_cons. rewrite E46 at 2. apply suffix_cons, suffix_refl.
    + intros lo Ho. apply offs_cons_inv in Ho. destruct Ho as [_ [Ho _]]. rewrite E46 in Ho.
      apply offs_cons_inv in Ho. destruct Ho as [Ha [Ho _]]. apply offs_lb in Ho. lia.
  - apply Hbad.
  - destruct (two_char_cases i dflt options r) as [[t ->]|[t [j [c' [r' [-> ->]]]]]]; cbn [fst snd].
    + apply Hsimple.
    + cbn [step_ok fst snd lb]. split; [apply suffix_proper_cons, suffix_cons, suffix_refl|].
      intros lo Ho. apply offs_cons_inv in Ho. destruct Ho as [_ [Ho _]].
      apply offs_cons_inv in Ho. destruct Ho as [Ha [Ho _]]. apply offs_lb in Ho. lia.
  - apply Hsimple.
Qed.

Lemma lex_next_ok uc bytes len : forall f cs, step_ok len cs (lex_next uc f bytes len cs).
Proof.
  induction f as [|f IH]; intros cs; [exact I|].
  destruct cs as [|[i c] r]; [exact I|].
  rewrite lex_next_S.
  destruct (is_whitespace uc c).
  { apply (step_ok_suffix len r); [apply suffix_cons, suffix_refl | apply IH]. }
  destruct (is_start_identifier_char uc c).
  { pose proof (get_while_fst_suffix (is_identifier_char uc) r len) as Hs.
    cbn [step_ok fst snd lb]. split; [apply suffix_proper_cons; exact Hs|].
    intros lo Ho. apply offs_cons_inv in Ho. destruct Ho as [_ [Ho _]].
    apply (offs_suffix _ _ _ _ Hs) in Ho. apply offs_lb in Ho. rewrite get_while_snd. lia. }
  destruct (is_decimal_char c).
  { destruct (handle_constant_ok bytes len i r) as [Hs Hok].
    destruct (fst (handle_constant bytes len i r)) as [t|er]; cbn [step_ok hc_ok lb] in *.
    - split; [apply suffix_proper_cons; exact Hs|].
      intros lo Ho. apply offs_cons_inv in Ho. destruct Ho as [_ [Ho _]]. apply Hok in Ho. lia.
    - split; [apply suffix_proper_cons; exact Hs|].
      intros lo Ho. apply offs_cons_inv in Ho. destruct Ho as [_ [Ho _]]. apply Hok. exact Ho. }
  apply punct_ok. intros x _. apply IH.
Qed.

Theorem lex_next_progress_holds : stmt_lex_next_progress.
Proof.
  intros uc fuel bytes len cs. pose proof (lex_next_ok uc bytes len fuel cs) as H.
  destruct (lex_next uc fuel bytes len cs) as [t rest|er rest|]; cbn [step_ok] in H; [apply H | apply H | exact I].
Qed.

(* ---- the token loop -------------------------------------------------------------------------- *)
Lemma lex_loop_fuel2 uc bytes len : forall f1 f2 cs acc,
  (List.length cs < f1)%nat -> (List.length cs < f2)%nat ->
  lex_loop uc f1 bytes len cs acc = lex_loop uc f2 bytes len cs acc.
Proof.
  induction f1 as [|f1 IH]; intros f2 cs acc H1 H2; [lia|].
  destruct f2 as [|f2]; [lia|]. cbn [lex_loop].
  pose proof (lex_next_ok uc bytes len (S (List.length cs)) cs) as Hok.
  destruct (lex_next uc (S (List.length cs)) bytes len cs) as [t rest|er rest|]; try reflexivity.
  cbn [step_ok] in Hok. destruct Hok as [Hp _]. apply proper_suffix_length in Hp. apply IH; lia.
Qed.

Theorem lex_loop_fuel_holds : stmt_lex_loop_fuel.
Proof. intros uc fuel bytes len cs acc H. apply lex_loop_fuel2; lia. Qed.

Theorem lex_fuel_holds : stmt_lex_fuel.
Proof.
  intros uc bytes f1 f2 H1 H2. unfold lex.
  rewrite (char_indices_fuel2 f1 (S (List.length bytes)) bytes 0) by lia.
  pose proof (char_indices_length_holds (S (List.length bytes)) bytes 0%nat) as Hl.
  apply lex_loop_fuel2; lia.
Qed.

(* tokens in text order inside [lo, len], then the error (if any) *)
Fixpoint chain (len lo : nat) (toks : list tok) (err : option lex_error) : Prop :=
  match toks with
  | [] => match err with None => True | Some e => err_ok lo len e end
  | t :: r => (lo <= tok_start t)%nat /\ (tok_start t < tok_end t)%nat /\ (tok_end t <= len)%nat /\
              chain len (tok_end t) r err
  end.

Lemma lex_loop_chain uc bytes len : forall f cs acc lo,
  offs_ok lo len cs ->
  exists more err, lex_loop uc f bytes len cs acc = (rev acc ++ more, err) /\ chain len (lb cs len) more err.
Proof.
  induction f as [|f IH]; intros cs acc lo Ho; cbn [lex_loop].
  - exists [], None. rewrite app_nil_r. split; [reflexivity | exact I].
  - pose proof (lex_next_ok uc bytes len (S (List.length cs)) cs) as Hok.
    destruct (lex_next uc (S (List.length cs)) bytes len cs) as [t rest|er rest|]; cbn [step_ok] in Hok.
    + destruct Hok as [Hp Hsp]. destruct (Hsp lo Ho) as [H1 [H2 H3]].
      pose proof (offs_proper rest cs lo len Hp Ho) as Ho'.
      destruct (IH rest (t :: acc) _ Ho') as [more [err [E Hc]]].
      exists (t :: more), err. split.
      * rewrite E. cbn [rev]. rewrite <- app_assoc. reflexivity.
      * cbn [chain]. unfold tok_start, tok_end. apply offs_lb in Ho'.
        split; [lia|]. split; [lia|]. split; [lia|].
        destruct more as [|t2 more]; cbn [chain] in *.
        -- destruct err as [e|]; [|exact I]. apply (err_ok_weaken (lb rest len)); [lia | exact Hc].
        -- unfold tok_start, tok_end in *. destruct Hc as [Hc1 Hc2]. split; [lia | exact Hc2].
    + exists [], (Some er). rewrite app_nil_r. split; [reflexivity|]. cbn [chain].
      destruct Hok as [_ Hsp]. apply (Hsp lo Ho).
    + exists [], None. rewrite app_nil_r. split; [reflexivity | exact I].
Qed.

Lemma chain_facts len : forall toks lo err, chain len lo toks err ->
  (forall t, In t toks -> (lo <= tok_start t)%nat /\ (tok_start t < tok_end t)%nat /\ (tok_end t <= len)%nat) /\
  (forall i j ti tj, nth_error toks i = Some ti -> nth_error toks j = Some tj -> (i < j)%nat ->
     (tok_end ti <= tok_start tj)%nat) /\
  (forall e, err = Some e -> err_ok lo len e /\ forall t, In t toks -> (tok_end t <= lex_error_start e)%nat).
Proof.
  induction toks as [|t r IH]; intros lo err H; cbn [chain] in H.
  - split; [intros t []|]. split; [intros i j ti tj Hi; destruct i; discriminate Hi|].
    intros e ->. split; [exact H | intros t []].
  - destruct H as [H1 [H2 [H3 H4]]]. destruct (IH _ _ H4) as [I1 [I2 I3]].
    split; [|split].
    + intros t0 [<-|Hin]; [lia|]. destruct (I1 t0 Hin). lia.
    + intros i j ti tj Hi Hj Hlt. destruct j as [|j]; [lia|]. cbn [nth_error] in Hj.
      destruct i as [|i]; cbn [nth_error] in Hi.
      * injection Hi as <-. apply nth_error_In in Hj. destruct (I1 tj Hj). lia.
      * apply (I2 i j ti tj Hi Hj). lia.
    + intros e He. destruct (I3 e He) as [J1 J2]. split.
      * apply (err_ok_weaken (tok_end t)); [lia | exact J1].
      * intros t0 [<-|Hin]; [|apply J2; exact Hin].
        destruct e; cbn [err_ok lex_error_start] in *; lia.
Qed.

Theorem lex_spans_holds : stmt_lex_spans.
Proof.
  intros uc bytes toks err H. unfold lex in H.
  pose proof (char_indices_offs (S (List.length bytes)) bytes 0%nat (List.length bytes) eq_refl) as Ho.
  destruct (lex_loop_chain uc bytes (List.length bytes) (S (List.length bytes)) _ [] 0%nat Ho)
    as [more [err' [E Hc]]].
  rewrite E in H. cbn [rev app] in H. injection H as <- <-.
  apply chain_facts in Hc. destruct Hc as [C1 [C2 C3]].
  split; [|split].
  - intros t Hin. destruct (C1 t Hin). lia.
  - exact C2.
  - intros e He. destruct (C3 e He) as [J1 J2]. split; [|exact J2].
    destruct e; cbn [err_ok lex_error_in_range] in *; lia.
Qed.

(* ====================================================================================== *)
(* Part B: the parser                                                                      *)
(* ====================================================================================== *)
Section ParserTotal.
  Variable tiers : list tier.

  (* ---- progress: how many tokens a successful parse leaves ----------------------------------- *)
  Definition prog_at (f : nat) : Prop :=
    (forall ts toks r, parse_tiers tiers f ts toks = Some r -> (List.length (snd r) < List.length toks)%nat) /\
    (forall rest ops l toks r, left_loop tiers f rest ops l toks = Some r ->
                               (List.length (snd r) <= List.length toks)%nat) /\
    (forall toks r, parse_term tiers f toks = Some r -> (List.length (snd r) < List.length toks)%nat) /\
    (forall toks r, parse_simple tiers f toks = Some r -> (List.length (snd r) < List.length toks)%nat) /\
    (forall toks r, parse_mux_options tiers f toks = Some r -> (List.length (snd r) <= List.length toks)%nat) /\
    (forall toks r, parse_commas_exprs tiers f toks = Some r -> (List.length (snd r) <= List.length toks)%nat).

  Ltac prog_step IH1 IH2 IH3 IH4 IH5 IH6 :=
    match goal with
    | H : None = Some _ |- _ => discriminate H
    | H : Some _ = Some _ |- _ => injection H as <-; cbn [snd List.length] in *; lia
    | H : parse_tiers _ _ _ _ = Some _ |- _ => apply IH1 in H; cbn [snd List.length] in *; lia
    | H : left_loop _ _ _ _ _ _ = Some _ |- _ => apply IH2 in H; cbn [snd List.length] in *; lia
    | H : parse_term _ _ _ = Some _ |- _ => apply IH3 in H; cbn [snd List.length] in *; lia
    | H : parse_simple _ _ _ = Some _ |- _ => apply IH4 in H; cbn [snd List.length] in *; lia
    | H : parse_mux_options _ _ _ = Some _ |- _ => apply IH5 in H; cbn [snd List.length] in *; lia
    | H : parse_commas_exprs _ _ _ = Some _ |- _ => apply IH6 in H; cbn [snd List.length] in *; lia
    | H : context [match parse_tiers ?t ?f ?ts ?toks with _ => _ end] |- _ =>
        let E := fresh "E" in
        destruct (parse_tiers t f ts toks) as [[? ?]|] eqn:E; [apply IH1 in E; cbn [snd] in E|]
    | H : context [match parse_simple ?t ?f ?toks with _ => _ end] |- _ =>
        let E := fresh "E" in
        destruct (parse_simple t f toks) as [[? ?]|] eqn:E; [apply IH4 in E; cbn [snd] in E|]
    | H : context [match parse_mux_options ?t ?f ?toks with _ => _ end] |- _ =>
        let E := fresh "E" in
        destruct (parse_mux_options t f toks) as [[? ?]|] eqn:E; [apply IH5 in E; cbn [snd] in E|]
    | H : context [match parse_commas_exprs ?t ?f ?toks with _ => _ end] |- _ =>
        let E := fresh "E" in
        destruct (parse_commas_exprs t f toks) as [[? ?]|] eqn:E; [apply IH6 in E; cbn [snd] in E|]
    | H : context [match op_of_token ?o ?t with _ => _ end] |- _ => destruct (op_of_token o t)
    | H : context [match unop_of_token ?t with _ => _ end] |- _ => destruct (unop_of_token t)
    | H : context [match small_constant ?t with _ => _ end] |- _ => destruct (small_constant t)
    | H : context [if ?b then _ else _] |- _ => destruct b
    | H : context [match tk ?t with _ => _ end] |- _ => destruct (tk t)
    | H : context [match ?l with [] => _ | _ :: _ => _ end] |- _ => destruct l
    end.

  Lemma prog_all : forall f, prog_at f.
  Proof.
    induction f as [|f IH].
    - unfold prog_at. repeat split; intros; discriminate.
    - destruct IH as (IH1 & IH2 & IH3 & IH4 & IH5 & IH6).
      unfold prog_at. repeat split.
      + intros ts toks r H. rewrite parse_tiers_S in H.
        destruct ts as [|[[| | |] ops] rest]; repeat prog_step IH1 IH2 IH3 IH4 IH5 IH6.
      + intros rest ops l toks r H. rewrite left_loop_S in H. repeat prog_step IH1 IH2 IH3 IH4 IH5 IH6.
      + intros toks r H. rewrite parse_term_S in H. repeat prog_step IH1 IH2 IH3 IH4 IH5 IH6.
      + intros toks r H. rewrite parse_simple_S in H. repeat prog_step IH1 IH2 IH3 IH4 IH5 IH6.
      + intros toks r H. rewrite parse_mux_options_S in H. repeat prog_step IH1 IH2 IH3 IH4 IH5 IH6.
      + intros toks r H. rewrite parse_commas_exprs_S in H. repeat prog_step IH1 IH2 IH3 IH4 IH5 IH6.
  Qed.

  Lemma prog_pt f ts toks r : parse_tiers tiers f ts toks = Some r -> (List.length (snd r) < List.length toks)%nat.
  Proof. apply (prog_all f). Qed.
  Lemma prog_ll f rest ops l toks r :
    left_loop tiers f rest ops l toks = Some r -> (List.length (snd r) <= List.length toks)%nat.
  Proof. apply (prog_all f). Qed.
  Lemma prog_ptm f toks r : parse_term tiers f toks = Some r -> (List.length (snd r) < List.length toks)%nat.
  Proof. apply (prog_all f). Qed.
  Lemma prog_ps f toks r : parse_simple tiers f toks = Some r -> (List.length (snd r) < List.length toks)%nat.
  Proof. apply (prog_all f). Qed.
  Lemma prog_pm f toks r : parse_mux_options tiers f toks = Some r -> (List.length (snd r) <= List.length toks)%nat.
  Proof. apply (prog_all f). Qed.
  Lemma prog_pc f toks r : parse_commas_exprs tiers f toks = Some r -> (List.length (snd r) <= List.length toks)%nat.
  Proof. apply (prog_all f). Qed.
End ParserTotal.

Section ParserSettle.
  Variable tiers : list tier.
  Notation T := (List.length tiers).
  Notation BT k n := (tiers_fuel tiers k n).

  Definition BTm (n : nat) : nat := ((T + 4) * n + 2)%nat.
  Definition BS (n : nat) : nat := ((T + 4) * n + 1)%nat.
  Definition BM (n : nat) : nat := ((T + 4) * (n + 1))%nat.

  Definition settle_at (f1 : nat) : Prop :=
    forall f2,
    (forall ts toks, (BT (List.length ts) (List.length toks) <= f1)%nat ->
                     (BT (List.length ts) (List.length toks) <= f2)%nat ->
                     parse_tiers tiers f1 ts toks = parse_tiers tiers f2 ts toks) /\
    (forall rest ops l toks, (BT (List.length rest) (List.length toks) <= f1)%nat ->
                             (BT (List.length rest) (List.length toks) <= f2)%nat ->
                             left_loop tiers f1 rest ops l toks = left_loop tiers f2 rest ops l toks) /\
    (forall toks, (BTm (List.length toks) <= f1)%nat -> (BTm (List.length toks) <= f2)%nat ->
                  parse_term tiers f1 toks = parse_term tiers f2 toks) /\
    (forall toks, (BS (List.length toks) <= f1)%nat -> (BS (List.length toks) <= f2)%nat ->
                  parse_simple tiers f1 toks = parse_simple tiers f2 toks) /\
    (forall toks, (BM (List.length toks) <= f1)%nat -> (BM (List.length toks) <= f2)%nat ->
                  parse_mux_options tiers f1 toks = parse_mux_options tiers f2 toks) /\
    (forall toks, (BM (List.length toks) <= f1)%nat -> (BM (List.length toks) <= f2)%nat ->
                  parse_commas_exprs tiers f1 toks = parse_commas_exprs tiers f2 toks).

  Ltac bound_tac := unfold tiers_fuel, BTm, BS, BM in *; cbn [List.length snd] in *; nia.

  Ltac settle_step IH1 IH2 IH3 IH4 IH5 IH6 :=
    first
    [ reflexivity
    | match goal with
      | |- parse_tiers _ _ ?ts ?toks = _ => apply (IH1 ts toks); bound_tac
      | |- left_loop _ _ ?rest ?ops ?l ?toks = _ => apply (IH2 rest ops l toks); bound_tac
      | |- parse_term _ _ ?toks = _ => apply (IH3 toks); bound_tac
      | |- parse_simple _ _ ?toks = _ => apply (IH4 toks); bound_tac
      | |- match parse_tiers ?t ?f ?ts ?toks with _ => _ end = _ =>
          rewrite (IH1 ts toks) by bound_tac;
          let E := fresh "E" in
          match goal with |- match ?x with _ => _ end = _ =>
            destruct x as [[? ?]|] eqn:E; [apply prog_pt in E|] end
      | |- match parse_simple ?t ?f ?toks with _ => _ end = _ =>
          rewrite (IH4 toks) by bound_tac;
          let E := fresh "E" in
          match goal with |- match ?x with _ => _ end = _ =>
            destruct x as [[? ?]|] eqn:E; [apply prog_ps in E|] end
      | |- match parse_mux_options ?t ?f ?toks with _ => _ end = _ =>
          rewrite (IH5 toks) by bound_tac;
          let E := fresh "E" in
          match goal with |- match ?x with _ => _ end = _ =>
            destruct x as [[? ?]|] eqn:E; [apply prog_pm in E|] end
      | |- match parse_commas_exprs ?t ?f ?toks with _ => _ end = _ =>
          rewrite (IH6 toks) by bound_tac;
          let E := fresh "E" in
          match goal with |- match ?x with _ => _ end = _ =>
            destruct x as [[? ?]|] eqn:E; [apply prog_pc in E|] end
      | |- match ?x with _ => _ end = _ => destruct x
      end ].

  Lemma settle_all : forall f1, settle_at f1.
  Proof.
    induction f1 as [|f1 IH].
    - intros f2. repeat split; intros; exfalso; bound_tac.
    - intros f2. destruct f2 as [|f2]; [repeat split; intros; exfalso; bound_tac|].
      destruct (IH f2) as (IH1 & IH2 & IH3 & IH4 & IH5 & IH6). repeat split.
      + intros ts toks H1 H2. rewrite !parse_tiers_S.
        destruct ts as [|[[| | |] ops] rest]; repeat settle_step IH1 IH2 IH3 IH4 IH5 IH6.
      + intros rest ops l toks H1 H2. rewrite !left_loop_S. repeat settle_step IH1 IH2 IH3 IH4 IH5 IH6.
      + intros toks H1 H2. rewrite !parse_term_S. repeat settle_step IH1 IH2 IH3 IH4 IH5 IH6.
      + intros toks H1 H2. rewrite !parse_simple_S. repeat settle_step IH1 IH2 IH3 IH4 IH5 IH6.
      + intros toks H1 H2. rewrite !parse_mux_options_S. repeat settle_step IH1 IH2 IH3 IH4 IH5 IH6.
      + intros toks H1 H2. rewrite !parse_commas_exprs_S. repeat settle_step IH1 IH2 IH3 IH4 IH5 IH6.
  Qed.

  Lemma settle_pt f1 f2 ts toks :
    (BT (List.length ts) (List.length toks) <= f1)%nat -> (BT (List.length ts) (List.length toks) <= f2)%nat ->
    parse_tiers tiers f1 ts toks = parse_tiers tiers f2 ts toks.
  Proof. apply (settle_all f1 f2). Qed.

  Lemma settle_expr f1 f2 toks :
    (expr_fuel tiers (List.length toks) <= f1)%nat -> (expr_fuel tiers (List.length toks) <= f2)%nat ->
    parse_expr tiers f1 toks = parse_expr tiers f2 toks.
  Proof. unfold parse_expr, expr_fuel. apply settle_pt. Qed.

  Lemma prog_expr f toks r : parse_expr tiers f toks = Some r -> (List.length (snd r) < List.length toks)%nat.
  Proof. unfold parse_expr. apply prog_pt. Qed.

  (* ---- declaration level: progress ---------------------------------------------------------- *)
  Lemma prog_targets : forall f toks,
    (List.length (snd (parse_targets f toks)) <= List.length toks)%nat /\
    (fst (parse_targets f toks) <> [] -> (List.length (snd (parse_targets f toks)) + 2 <= List.length toks)%nat).
  Proof.
    induction f as [|f IH]; intros toks; cbn [parse_targets].
    - cbn [fst snd]. split; [lia | intros H; contradiction].
    - destruct toks as [|t1 [|t2 toks1]]; cbn [fst snd]; try (split; [lia | intros H; contradiction]).
      destruct (tk t1); cbn [fst snd]; try (split; [cbn [List.length]; lia | intros H; contradiction]).
      destruct (token_eqb (tk t2) TAssign); cbn [fst snd]; [|split; [cbn [List.length]; lia | intros H; contradiction]].
      destruct (IH toks1) as [I1 _]. destruct (parse_targets f toks1) as [more rest]. cbn [fst snd List.length] in *.
      split; [lia | intros _; lia].
  Qed.

  Lemma targets_fuel2 : forall f1 f2 toks, (List.length toks <= f1)%nat -> (List.length toks <= f2)%nat ->
    parse_targets f1 toks = parse_targets f2 toks.
  Proof.
    induction f1 as [|f1 IH]; intros f2 toks H1 H2.
    - destruct toks; [|cbn [List.length] in H1; lia]. destruct f2; reflexivity.
    - destruct f2 as [|f2].
      + destruct toks; [reflexivity | cbn [List.length] in H2; lia].
      + cbn [parse_targets]. destruct toks as [|t1 [|t2 toks1]]; try reflexivity.
        destruct (tk t1); try reflexivity. destruct (token_eqb (tk t2) TAssign); [|reflexivity].
        cbn [List.length] in H1, H2. rewrite (IH f2 toks1) by lia. reflexivity.
  Qed.

  Ltac dprog_step IHrec :=
    match goal with
    | H : None = Some _ |- _ => discriminate H
    | H : Some _ = Some _ |- _ => injection H as <-; cbn [snd List.length] in *; lia
    | H : context [match parse_expr ?t ?f ?toks with _ => _ end] |- _ =>
        let E := fresh "E" in
        destruct (parse_expr t f toks) as [[? ?]|] eqn:E; [apply prog_expr in E; cbn [snd] in E|]
    | H : context [match parse_wire_decls ?f ?toks with _ => _ end] |- _ =>
        let E := fresh "E" in
        destruct (parse_wire_decls f toks) as [[? ?]|] eqn:E; [apply IHrec in E; cbn [snd] in E|]
    | H : context [match parse_const_decls ?t ?f ?toks with _ => _ end] |- _ =>
        let E := fresh "E" in
        destruct (parse_const_decls t f toks) as [[? ?]|] eqn:E; [apply IHrec in E; cbn [snd] in E|]
    | H : context [match parse_register_decls ?t ?f ?toks with _ => _ end] |- _ =>
        let E := fresh "E" in
        destruct (parse_register_decls t f toks) as [[? ?]|] eqn:E; [apply IHrec in E; cbn [snd] in E|]
    | H : context [match parse_assignments ?t ?f ?toks with _ => _ end] |- _ =>
        let E := fresh "E" in
        destruct (parse_assignments t f toks) as [[? ?]|] eqn:E; [apply IHrec in E; cbn [snd] in E|]
    | H : context [match small_constant ?t with _ => _ end] |- _ => destruct (small_constant t)
    | H : context [if ?b then _ else _] |- _ => destruct b
    | H : context [match tk ?t with _ => _ end] |- _ => destruct (tk t)
    | H : context [match ?l with [] => _ | _ :: _ => _ end] |- _ => destruct l
    end.

  Lemma prog_wire : forall f toks r, parse_wire_decls f toks = Some r -> (List.length (snd r) <= List.length toks)%nat.
  Proof.
    induction f as [|f IH]; intros toks r H; [discriminate H|].
    cbn [parse_wire_decls] in H. repeat dprog_step IH.
  Qed.

  Lemma prog_const : forall f toks r,
    parse_const_decls tiers f toks = Some r -> (List.length (snd r) <= List.length toks)%nat.
  Proof.
    induction f as [|f IH]; intros toks r H; [discriminate H|].
    cbn [parse_const_decls] in H. repeat dprog_step IH.
  Qed.

  Lemma prog_reg : forall f toks r,
    parse_register_decls tiers f toks = Some r -> (List.length (snd r) <= List.length toks)%nat.
  Proof.
    induction f as [|f IH]; intros toks r H; [discriminate H|].
    cbn [parse_register_decls] in H. repeat dprog_step IH.
  Qed.

  Lemma prog_assign : forall f toks r,
    parse_assignments tiers f toks = Some r -> (List.length (snd r) + 2 < List.length toks)%nat.
  Proof.
    induction f as [|f IH]; intros toks r H; [discriminate H|].
    cbn [parse_assignments] in H.
    pose proof (prog_targets (List.length toks) toks) as [_ Hp].
    destruct (parse_targets (List.length toks) toks) as [names toks1]. cbn [fst snd] in Hp.
    destruct names as [|n names]; [discriminate H|].
    assert (Hl : (List.length toks1 + 2 <= List.length toks)%nat) by (apply Hp; discriminate). clear Hp.
    repeat dprog_step IH.
  Qed.

  Lemma prog_statement f toks s k rest :
    parse_statement tiers f toks = Some (s, k, rest) -> (List.length rest < List.length toks)%nat.
  Proof.
    unfold parse_statement. intros H.
    destruct toks as [|t toks1]; [discriminate H|].
    destruct (tk t); try discriminate H.
    - destruct (parse_wire_decls f toks1) as [[d r]|] eqn:E; [|discriminate H].
      apply prog_wire in E. injection H as <- <- <-. cbn [snd List.length] in *. lia.
    - destruct (parse_const_decls tiers f toks1) as [[d r]|] eqn:E; [|discriminate H].
      apply prog_const in E. injection H as <- <- <-. cbn [snd List.length] in *. lia.
    - destruct toks1 as [|t1 [|t2 toks2]]; try discriminate H.
      destruct (tk t1); try discriminate H.
      destruct (token_eqb (tk t2) TOpenBrace); [|discriminate H].
      destruct (parse_register_decls tiers f toks2) as [[regs [|t3 r]]|] eqn:E; try discriminate H.
      apply prog_reg in E. destruct (token_eqb (tk t3) TCloseBrace); [|discriminate H].
      injection H as <- <- <-. cbn [snd List.length] in *. lia.
    - destruct (parse_assignments tiers f (t :: toks1)) as [[a r]|] eqn:E; [|discriminate H].
      apply prog_assign in E. injection H as <- <- <-. cbn [snd List.length] in *. lia.
  Qed.

  (* ---- declaration level: above the bound the fuel is irrelevant -------------------------------- *)
  Ltac dbound_tac := unfold decl_fuel, expr_fuel, tiers_fuel in *; cbn [List.length snd] in *; nia.

  Ltac dsettle_step IHrec f2 :=
    first
    [ reflexivity
    | match goal with
      | |- match parse_expr ?t ?f ?toks with _ => _ end = _ =>
          rewrite (settle_expr f f2 toks) by dbound_tac;
          let E := fresh "E" in
          match goal with |- match ?x with _ => _ end = _ =>
            destruct x as [[? ?]|] eqn:E; [apply prog_expr in E|] end
      | |- match parse_wire_decls ?f ?toks with _ => _ end = _ =>
          rewrite (IHrec f2 toks) by dbound_tac
      | |- match parse_const_decls ?t ?f ?toks with _ => _ end = _ =>
          rewrite (IHrec f2 toks) by dbound_tac
      | |- match parse_register_decls ?t ?f ?toks with _ => _ end = _ =>
          rewrite (IHrec f2 toks) by dbound_tac
      | |- match parse_assignments ?t ?f ?toks with _ => _ end = _ =>
          rewrite (IHrec f2 toks) by dbound_tac
      | |- match ?x with _ => _ end = _ => destruct x
      end ].

  Lemma settle_wire : forall f1 f2 toks,
    (decl_fuel tiers (List.length toks) <= f1)%nat -> (decl_fuel tiers (List.length toks) <= f2)%nat ->
    parse_wire_decls f1 toks = parse_wire_decls f2 toks.
  Proof.
    induction f1 as [|f1 IH]; intros f2 toks H1 H2; [exfalso; dbound_tac|].
    destruct f2 as [|f2]; [exfalso; dbound_tac|].
    cbn [parse_wire_decls]. repeat dsettle_step IH f2.
  Qed.

  Lemma settle_const : forall f1 f2 toks,
    (decl_fuel tiers (List.length toks) <= f1)%nat -> (decl_fuel tiers (List.length toks) <= f2)%nat ->
    parse_const_decls tiers f1 toks = parse_const_decls tiers f2 toks.
  Proof.
    induction f1 as [|f1 IH]; intros f2 toks H1 H2; [exfalso; dbound_tac|].
    destruct f2 as [|f2]; [exfalso; dbound_tac|].
    cbn [parse_const_decls]. repeat dsettle_step IH f2.
  Qed.

  Lemma settle_reg : forall f1 f2 toks,
    (decl_fuel tiers (List.length toks) <= f1)%nat -> (decl_fuel tiers (List.length toks) <= f2)%nat ->
    parse_register_decls tiers f1 toks = parse_register_decls tiers f2 toks.
  Proof.
    induction f1 as [|f1 IH]; intros f2 toks H1 H2; [exfalso; dbound_tac|].
    destruct f2 as [|f2]; [exfalso; dbound_tac|].
    cbn [parse_register_decls]. repeat dsettle_step IH f2.
  Qed.

  Lemma settle_assign : forall f1 f2 toks,
    (decl_fuel tiers (List.length toks) <= f1)%nat -> (decl_fuel tiers (List.length toks) <= f2)%nat ->
    parse_assignments tiers f1 toks = parse_assignments tiers f2 toks.
  Proof.
    induction f1 as [|f1 IH]; intros f2 toks H1 H2; [exfalso; dbound_tac|].
    destruct f2 as [|f2]; [exfalso; dbound_tac|].
    cbn [parse_assignments].
    pose proof (prog_targets (List.length toks) toks) as [_ Hp].
    destruct (parse_targets (List.length toks) toks) as [names toks1]. cbn [fst snd] in Hp.
    destruct names as [|n names]; [reflexivity|].
    assert (Hl : (List.length toks1 + 2 <= List.length toks)%nat) by (apply Hp; discriminate). clear Hp.
    repeat dsettle_step IH f2.
  Qed.

  Lemma settle_statement f1 f2 toks :
    (decl_fuel tiers (List.length toks) <= f1)%nat -> (decl_fuel tiers (List.length toks) <= f2)%nat ->
    parse_statement tiers f1 toks = parse_statement tiers f2 toks.
  Proof.
    intros H1 H2. unfold parse_statement.
    destruct toks as [|t toks1]; [reflexivity|].
    destruct (tk t); try reflexivity.
    - rewrite (settle_wire f1 f2 toks1) by dbound_tac. reflexivity.
    - rewrite (settle_const f1 f2 toks1) by dbound_tac. reflexivity.
    - destruct toks1 as [|t1 [|t2 toks2]]; try reflexivity.
      rewrite (settle_reg f1 f2 toks2) by dbound_tac. reflexivity.
    - rewrite (settle_assign f1 f2 (t :: toks1)) by dbound_tac. reflexivity.
  Qed.

  Lemma settle_statements : forall f1 f2 toks seen acc,
    (List.length toks < f1)%nat -> (List.length toks < f2)%nat ->
    parse_statements tiers f1 toks seen acc = parse_statements tiers f2 toks seen acc.
  Proof.
    induction f1 as [|f1 IH]; intros f2 toks seen acc H1 H2; [lia|].
    destruct f2 as [|f2]; [lia|]. cbn [parse_statements].
    destruct toks as [|t toks1]; [reflexivity|]. cbn [List.length] in H1, H2.
    destruct (token_eqb (tk t) TSemicolon).
    { destruct seen; [apply IH; lia | reflexivity]. }
    destruct (parse_statement tiers (20 * S (List.length (t :: toks1))) (t :: toks1)) as [[[s k] rest]|] eqn:E;
      [|reflexivity].
    apply prog_statement in E. cbn [List.length] in E.
    destruct k.
    - destruct rest as [|t2 rest]; [reflexivity|]. cbn [List.length] in E.
      destruct (token_eqb (tk t2) TSemicolon); [apply IH; lia | reflexivity].
    - apply IH; lia.
  Qed.

  Lemma ps_with_settle (sf : nat -> nat) :
    (List.length tiers <= 16)%nat -> (forall n, (20 * S n <= sf n)%nat) ->
    forall f1 f2 toks seen acc,
      (List.length toks < f1)%nat -> (List.length toks < f2)%nat ->
      ps_with tiers sf f1 toks seen acc = parse_statements tiers f2 toks seen acc.
  Proof.
    intros HT Hsf. induction f1 as [|f1 IH]; intros f2 toks seen acc H1 H2; [lia|].
    destruct f2 as [|f2]; [lia|]. cbn [parse_statements ps_with].
    destruct toks as [|t toks1]; [reflexivity|]. cbn [List.length] in H1, H2.
    destruct (token_eqb (tk t) TSemicolon).
    { destruct seen; [apply IH; lia | reflexivity]. }
    rewrite (settle_statement (sf (List.length (t :: toks1))) (20 * S (List.length (t :: toks1))) (t :: toks1)).
    2:{ pose proof (Hsf (List.length (t :: toks1))) as Hs. unfold decl_fuel. nia. }
    2:{ unfold decl_fuel. nia. }
    destruct (parse_statement tiers (20 * S (List.length (t :: toks1))) (t :: toks1)) as [[[s k] rest]|] eqn:E;
      [|reflexivity].
    apply prog_statement in E. cbn [List.length] in E.
    destruct k.
    - destruct rest as [|t2 rest]; [reflexivity|]. cbn [List.length] in E.
      destruct (token_eqb (tk t2) TSemicolon); [apply IH; lia | reflexivity].
    - apply IH; lia.
  Qed.

  (* ---- declaration level: monotonicity ------------------------------------------------------------ *)
  Lemma expr_mono f f' toks r : parse_expr tiers f toks = Some r -> (f <= f')%nat -> parse_expr tiers f' toks = Some r.
  Proof. unfold parse_expr. apply pt_mono. Qed.

  Ltac dmono_step IHrec Hle :=
    match goal with
    | H : None = Some _ |- _ => discriminate H
    | H : ?x = Some _ |- ?x = Some _ => exact H
    | H : context [match parse_expr ?t ?f ?toks with _ => _ end] |- _ =>
        let E := fresh "E" in
        destruct (parse_expr t f toks) as [[? ?]|] eqn:E; [rewrite (expr_mono _ _ _ _ E Hle)|]
    | H : context [match parse_wire_decls ?f ?toks with _ => _ end] |- _ =>
        let E := fresh "E" in
        destruct (parse_wire_decls f toks) as [[? ?]|] eqn:E; [rewrite (IHrec _ _ E _ Hle)|]
    | H : context [match parse_const_decls ?t ?f ?toks with _ => _ end] |- _ =>
        let E := fresh "E" in
        destruct (parse_const_decls t f toks) as [[? ?]|] eqn:E; [rewrite (IHrec _ _ E _ Hle)|]
    | H : context [match parse_register_decls ?t ?f ?toks with _ => _ end] |- _ =>
        let E := fresh "E" in
        destruct (parse_register_decls t f toks) as [[? ?]|] eqn:E; [rewrite (IHrec _ _ E _ Hle)|]
    | H : context [match parse_assignments ?t ?f ?toks with _ => _ end] |- _ =>
        let E := fresh "E" in
        destruct (parse_assignments t f toks) as [[? ?]|] eqn:E; [rewrite (IHrec _ _ E _ Hle)|]
    | H : context [match small_constant ?t with _ => _ end] |- _ => destruct (small_constant t)
    | H : context [if ?b then _ else _] |- _ => destruct b
    | H : context [match tk ?t with _ => _ end] |- _ => destruct (tk t)
    | H : context [match ?l with [] => _ | _ :: _ => _ end] |- _ => destruct l
    end.

  Lemma mono_wire : forall f toks r, parse_wire_decls f toks = Some r ->
    forall f', (f <= f')%nat -> parse_wire_decls f' toks = Some r.
  Proof.
    induction f as [|f IH]; intros toks r H f' Hle0; [discriminate H|].
    destruct f' as [|f']; [lia|]. assert (Hle : (f <= f')%nat) by lia. clear Hle0.
    cbn [parse_wire_decls] in H |- *. repeat dmono_step IH Hle.
  Qed.

  Lemma mono_const : forall f toks r, parse_const_decls tiers f toks = Some r ->
    forall f', (f <= f')%nat -> parse_const_decls tiers f' toks = Some r.
  Proof.
    induction f as [|f IH]; intros toks r H f' Hle0; [discriminate H|].
    destruct f' as [|f']; [lia|]. assert (Hle : (f <= f')%nat) by lia. clear Hle0.
    cbn [parse_const_decls] in H |- *. repeat dmono_step IH Hle.
  Qed.

  Lemma mono_reg : forall f toks r, parse_register_decls tiers f toks = Some r ->
    forall f', (f <= f')%nat -> parse_register_decls tiers f' toks = Some r.
  Proof.
    induction f as [|f IH]; intros toks r H f' Hle0; [discriminate H|].
    destruct f' as [|f']; [lia|]. assert (Hle : (f <= f')%nat) by lia. clear Hle0.
    cbn [parse_register_decls] in H |- *. repeat dmono_step IH Hle.
  Qed.

  Lemma mono_assign : forall f toks r, parse_assignments tiers f toks = Some r ->
    forall f', (f <= f')%nat -> parse_assignments tiers f' toks = Some r.
  Proof.
    induction f as [|f IH]; intros toks r H f' Hle0; [discriminate H|].
    destruct f' as [|f']; [lia|]. assert (Hle : (f <= f')%nat) by lia. clear Hle0.
    cbn [parse_assignments] in H |- *.
    destruct (parse_targets (List.length toks) toks) as [names toks1].
    destruct names as [|n names]; [discriminate H|].
    repeat dmono_step IH Hle.
  Qed.

  Lemma mono_statement f toks r : parse_statement tiers f toks = Some r ->
    forall f', (f <= f')%nat -> parse_statement tiers f' toks = Some r.
  Proof.
    intros H f' Hle. unfold parse_statement in *.
    destruct toks as [|t toks1]; [discriminate H|].
    destruct (tk t); try discriminate H.
    - destruct (parse_wire_decls f toks1) as [[d rest]|] eqn:E; [|discriminate H].
      rewrite (mono_wire _ _ _ E _ Hle). exact H.
    - destruct (parse_const_decls tiers f toks1) as [[d rest]|] eqn:E; [|discriminate H].
      rewrite (mono_const _ _ _ E _ Hle). exact H.
    - destruct toks1 as [|t1 [|t2 toks2]]; try discriminate H.
      destruct (tk t1); try discriminate H.
      destruct (token_eqb (tk t2) TOpenBrace); [|discriminate H].
      destruct (parse_register_decls tiers f toks2) as [[regs rest]|] eqn:E; [|discriminate H].
      rewrite (mono_reg _ _ _ E _ Hle). exact H.
    - destruct (parse_assignments tiers f (t :: toks1)) as [[a rest]|] eqn:E; [|discriminate H].
      rewrite (mono_assign _ _ _ E _ Hle). exact H.
  Qed.

  Lemma mono_statements : forall f toks seen acc r, parse_statements tiers f toks seen acc = Some r ->
    forall f', (f <= f')%nat -> parse_statements tiers f' toks seen acc = Some r.
  Proof.
    induction f as [|f IH]; intros toks seen acc r H f' Hle0; [discriminate H|].
    destruct f' as [|f']; [lia|]. assert (Hle : (f <= f')%nat) by lia. clear Hle0.
    cbn [parse_statements] in H |- *.
    destruct toks as [|t toks1]; [exact H|].
    destruct (token_eqb (tk t) TSemicolon).
    { destruct seen; [apply (IH _ _ _ _ H _ Hle) | discriminate H]. }
    destruct (parse_statement tiers (20 * S (List.length (t :: toks1))) (t :: toks1)) as [[[s k] rest]|];
      [|discriminate H].
    destruct k.
    - destruct rest as [|t2 rest]; [exact H|].
      destruct (token_eqb (tk t2) TSemicolon); [apply (IH _ _ _ _ H _ Hle) | discriminate H].
    - apply (IH _ _ _ _ H _ Hle).
  Qed.

  (* ---- the statements of FrontTotalSpec, part B ----------------------------------------------------- *)
  Theorem parse_mono_expr_holds : stmt_parse_mono_expr tiers.
  Proof.
    intros fuel fuel' Hle.
    split; [intros ts toks r H; apply (pt_mono tiers fuel ts toks r fuel' H Hle)|].
    split; [intros rest ops l toks r H; apply (ll_mono tiers fuel rest ops l toks r fuel' H Hle)|].
    split; [intros toks r H; apply (ptm_mono tiers fuel toks r fuel' H Hle)|].
    split; [intros toks r H; apply (ps_mono tiers fuel toks r fuel' H Hle)|].
    split; [intros toks r H; apply (pm_mono tiers fuel toks r fuel' H Hle)|].
    split; [intros toks r H; apply (pc_mono tiers fuel toks r fuel' H Hle)|].
    intros toks r H. apply (expr_mono fuel fuel' toks r H Hle).
  Qed.

  Theorem parse_mono_decl_holds : stmt_parse_mono_decl tiers.
  Proof.
    intros fuel fuel' Hle.
    split; [intros toks r H; apply (mono_wire _ _ _ H _ Hle)|].
    split; [intros toks r H; apply (mono_const _ _ _ H _ Hle)|].
    split; [intros toks r H; apply (mono_assign _ _ _ H _ Hle)|].
    split; [intros toks r H; apply (mono_reg _ _ _ H _ Hle)|].
    split; [intros toks r H; apply (mono_statement _ _ _ H _ Hle)|].
    intros toks seen acc r H. apply (mono_statements _ _ _ _ _ H _ Hle).
  Qed.

  Theorem parse_tiers_fuel_holds : stmt_parse_tiers_fuel tiers.
  Proof. intros ts toks f1 f2 H1 H2. apply settle_pt; assumption. Qed.

  Theorem parse_expr_fuel_holds : stmt_parse_expr_fuel tiers.
  Proof. intros toks fuel H. apply settle_expr; [exact H | lia]. Qed.

  Theorem parse_targets_fuel_holds : stmt_parse_targets_fuel.
  Proof. intros toks fuel H. apply targets_fuel2; lia. Qed.

  Theorem parse_decls_fuel_holds : stmt_parse_decls_fuel tiers.
  Proof.
    intros toks fuel H.
    split; [apply settle_wire; [exact H | lia]|].
    split; [apply settle_const; [exact H | lia]|].
    split; [apply settle_assign; [exact H | lia]|].
    split; [apply settle_reg; [exact H | lia]|].
    apply settle_statement; [exact H | lia].
  Qed.

  Theorem parse_statement_fuel_holds : stmt_parse_statement_fuel tiers.
  Proof.
    intros HT toks fuel H. apply settle_statement; unfold decl_fuel; nia.
  Qed.

  Theorem parse_statements_fuel_holds : stmt_parse_statements_fuel tiers.
  Proof. intros toks seen acc fuel H. apply settle_statements; lia. Qed.

  Theorem parse_fuel_irrelevant_holds : stmt_parse_fuel_irrelevant tiers.
  Proof.
    intros HT toks sf fuel Hsf H. unfold parse. apply (ps_with_settle sf HT Hsf); lia.
  Qed.
End ParserSettle.

(* the bound on the table is needed *)
Definition many_tiers : list tier := repeat (KLeft, []) 200.
Definition x_eq_1 : list tok :=
  [(0, TIdentifier [120%N], 1); (2, TAssign, 3); (4, TLit (mkV 1 Unl), 5); (5, TSemicolon, 6)]%nat.

Lemma parse_statement_fuel_any_table_refuted : ~ stmt_parse_statement_fuel_any_table.
Proof.
  intros H. specialize (H many_tiers x_eq_1 1000%nat).
  assert (Hle : (20 * S (List.length x_eq_1) <= 1000)%nat) by (vm_compute; lia).
  specialize (H Hle). vm_compute in H. discriminate H.
Qed.

(* ... and this is visible at the top: [parse] rejects "x = 1;" under that table although the
   parser with more statement fuel accepts it *)
Example many_tiers_parse :
  parse many_tiers x_eq_1 = None /\
  ps_with many_tiers (fun _ => 1000%nat) 5 x_eq_1 false [] = Some [SAssign [(["x"%string], EConst (mkV 1 Unl))]].
Proof. vm_compute. split; reflexivity. Qed.

(* ====================================================================================== *)
(* Part C: Program::new never fails with an internal error                                 *)
(* ====================================================================================== *)
Definition kinds_ok (K : ekind -> bool) (es : list err) : Prop := forall x, In x es -> K (ek x) = true.

Lemma kinds_ok_one K k names : K k = true -> kinds_ok K [mkErr k names].
Proof. intros H x [<-|[]]. exact H. Qed.

Lemma kinds_ok_cons K e es : K (ek e) = true -> kinds_ok K es -> kinds_ok K (e :: es).
Proof. intros H1 H2 x [<-|Hx]; [exact H1 | apply H2; exact Hx]. Qed.

Lemma kinds_ok_nil K : kinds_ok K [].
Proof. intros x []. Qed.

Section CheckKinds.
  Variables (f : features) (G : string -> option width) (C : string -> option wval).

  Ltac kind_solve :=
    repeat match goal with
    | H : Err _ = Err _ |- _ => injection H as <-
    | H : Ok _ = Err _ |- _ => discriminate H
    | H : err1 _ _ = Err _ |- _ => unfold err1 in H
    | H : combine_exprs _ _ = Err _ |- _ => unfold combine_exprs in H
    | H : bind ?r _ = Err _ |- _ => let E := fresh "E" in destruct r eqn:E; cbn [bind] in H
    | H : (if ?b then _ else _) = Err _ |- _ => destruct b
    | H : match ?x with _ => _ end = Err _ |- _ => destruct x
    end; try discriminate; try (apply kinds_ok_one; reflexivity); eauto.

  Lemma check_kinds_all :
    (forall e es, check f G C e = Err es -> kinds_ok check_kind es) /\
    (forall a st es, check_arms f G C a st = Err es -> kinds_ok check_kind es) /\
    (forall items wl,
       (forall es, check_items f G C wl items = Err es -> kinds_ok check_kind es) /\
       (forall more, check_items f G C wl items = Ok more -> kinds_ok check_kind more)).
  Proof.
    apply expr_arms_exprs_ind.
    - intros v es H. cbn [check] in H. discriminate H.
    - intros op l IHl r IHr es H. cbn [check] in H. kind_solve.
    - intros op e IHe es H. cbn [check] in H. kind_solve.
    - intros a IHa es H. rewrite check_mux_eq in H. kind_solve.
    - intros n es H. cbn [check] in H. kind_solve.
    - intros e IHe lo hi es H. cbn [check] in H. kind_solve.
    - intros l IHl r IHr es H. cbn [check] in H. kind_solve.
    - intros e IHe items IHi es H. rewrite check_in_eq in H.
      destruct (check f G C e) as [wl|es1] eqn:E1; cbn [bind] in H; [|injection H as <-; eauto].
      destruct (IHi wl) as [IHi1 IHi2].
      destruct (check_items f G C wl items) as [more|es2] eqn:E2; cbn [bind] in H; [|injection H as <-; eauto].
      destruct more as [|m more]; [discriminate H|]. injection H as <-. eauto.
    - intros st es H. cbn [check_arms] in H. discriminate H.
    - intros c IHc v IHv rest IHr st es H. rewrite check_arms_cons_eq in H. kind_solve.
    - intros wl. split; [intros es H; cbn [check_items] in H; discriminate H|].
      intros more H. cbn [check_items] in H. injection H as <-. apply kinds_ok_nil.
    - intros e IHe rest IHr wl. destruct (IHr wl) as [IHr1 IHr2]. split.
      + intros es H. rewrite check_items_cons_eq in H.
        destruct (check f G C e) as [wi|es1] eqn:E1; cbn [bind] in H; [|injection H as <-; eauto].
        destruct (check_items f G C wl rest) as [more|es2] eqn:E2; cbn [bind] in H; [|injection H as <-; eauto].
        destruct (wcombine wl wi); discriminate H.
      + intros more H. rewrite check_items_cons_eq in H.
        destruct (check f G C e) as [wi|es1] eqn:E1; cbn [bind] in H; [|discriminate H].
        destruct (check_items f G C wl rest) as [more0|es2] eqn:E2; cbn [bind] in H; [|discriminate H].
        destruct (wcombine wl wi); injection H as <-; [eauto|].
        apply kinds_ok_cons; [reflexivity | eauto].
  Qed.
End CheckKinds.

Section EvalKinds.
  Variables (f : features) (rho : string -> option wval).
  Variable P : list err -> Prop.
  Hypothesis P1 : forall k names, eval_kind k = true -> P [mkErr k names].

  Lemma apply_kinds op l r es : apply f op l r = Err es -> P es.
  Proof.
    unfold apply. intros H.
    destruct (kind op); cbn [bind] in H.
    - destruct (is_div op && (bits r =? 0)%N); [|discriminate H].
      unfold err1 in H. injection H as <-. apply P1; reflexivity.
    - destruct (is_div op && (bits r =? 0)%N); [|discriminate H].
      unfold err1 in H. injection H as <-. apply P1; reflexivity.
    - destruct (wcombine (wd l) (wd r)); cbn [bind] in H.
      + destruct (is_div op && (bits r =? 0)%N); [|discriminate H].
        unfold err1 in H. injection H as <-. apply P1; reflexivity.
      + unfold err1 in H. cbn [bind] in H. injection H as <-. apply P1; reflexivity.
    - destruct (f_swb f).
      + destruct (wcombine (wd l) (wd r)); cbn [bind] in H.
        * destruct (is_div op && (bits r =? 0)%N); [|discriminate H].
          unfold err1 in H. injection H as <-. apply P1; reflexivity.
        * unfold err1 in H. cbn [bind] in H. injection H as <-. apply P1; reflexivity.
      + cbn [bind] in H. destruct (is_div op && (bits r =? 0)%N); [|discriminate H].
        unfold err1 in H. injection H as <-. apply P1; reflexivity.
  Qed.

  Lemma eval_kinds_all :
    (forall e es, eval f rho e = Err es -> P es) /\
    (forall a es, eval_arms f rho a = Err es -> P es) /\
    (forall items x es, eval_items f rho x items = Err es -> P es).
  Proof.
    apply expr_arms_exprs_ind.
    - intros v es H. cbn [eval] in H. discriminate H.
    - intros op l IHl r IHr es H. cbn [eval] in H.
      destruct (eval f rho l) as [lv|es1]; cbn [bind] in H; [|injection H as <-; eauto].
      destruct (eval f rho r) as [rv|es2]; cbn [bind] in H; [|injection H as <-; eauto].
      apply apply_kinds in H. exact H.
    - intros op e IHe es H. cbn [eval] in H.
      destruct (eval f rho e) as [v|es1]; cbn [bind] in H; [discriminate H | injection H as <-; eauto].
    - intros a IHa es H. rewrite eval_mux in H.
      destruct (eval_arms f rho a) as [v|es1]; cbn [bind] in H; [discriminate H | injection H as <-; eauto].
    - intros n es H. cbn [eval] in H. destruct (rho n); [discriminate H|].
      unfold err1 in H. injection H as <-. apply P1; reflexivity.
    - intros e IHe lo hi es H. cbn [eval] in H.
      destruct (eval f rho e) as [v|es1]; cbn [bind] in H; [discriminate H | injection H as <-; eauto].
    - intros l IHl r IHr es H. cbn [eval] in H.
      destruct (eval f rho l) as [lv|es1]; cbn [bind] in H; [|injection H as <-; eauto].
      destruct (eval f rho r) as [rv|es2]; cbn [bind] in H; [|injection H as <-; eauto].
      destruct (wd rv); [destruct (wd lv); [discriminate H|]|];
        unfold err1 in H; injection H as <-; apply P1; reflexivity.
    - intros e IHe items IHi es H. rewrite eval_in in H.
      destruct (eval f rho e) as [v|es1]; cbn [bind] in H; [|injection H as <-; eauto]. eauto.
    - intros es H. rewrite eval_arms_nil in H. discriminate H.
    - intros c IHc v IHv rest IHr es H. rewrite eval_arms_cons in H.
      destruct (eval f rho c) as [cv|es1]; cbn [bind] in H; [|injection H as <-; eauto].
      destruct (is_true cv); eauto.
    - intros x es H. rewrite eval_items_nil in H. discriminate H.
    - intros e IHe rest IHr x es H. rewrite eval_items_cons in H.
      destruct (eval f rho e) as [r|es1]; cbn [bind] in H; [|injection H as <-; eauto].
      destruct (x =? bits r)%N; [discriminate H | eauto].
  Qed.
End EvalKinds.

Theorem check_error_kinds_holds : stmt_check_error_kinds.
Proof.
  intros f G C e es H. split; [apply (check_err f G C e es H)|].
  apply (proj1 (check_kinds_all f G C) e es H).
Qed.

Lemma eval_kinds f rho e es : eval f rho e = Err es -> kinds_ok eval_kind es.
Proof.
  apply (proj1 (eval_kinds_all f rho (kinds_ok eval_kind) (fun k names H => kinds_ok_one eval_kind k names H))).
Qed.

Lemma eval_err f rho e es : eval f rho e = Err es -> es <> [].
Proof.
  assert (P1 : forall (k : ekind) (names : list string), eval_kind k = true -> [mkErr k names] <> [])
    by (intros k names _; discriminate).
  apply (proj1 (eval_kinds_all f rho (fun es => es <> []) P1)).
Qed.

Theorem eval_error_kinds_holds : stmt_eval_error_kinds.
Proof. intros f rho e es H. split; [apply (eval_err f rho e es H) | apply (eval_kinds f rho e es H)]. Qed.

(* ---- C2: the sorter ---------------------------------------------------------------------------- *)
Theorem toposort_total_holds : stmt_toposort_total.
Proof.
  intros node eqb Hspec g Hwf. unfold toposort.
  destruct (kahn_total node eqb Hspec g Hwf) as [order [visited Hk]]. rewrite Hk. cbn [bind].
  destruct (N.of_nat (List.length visited) =? g_num_edges g)%N eqn:E; [eexists; reflexivity|].
  assert (Hc : has_cycle node eqb g).
  { apply (kahn_stuck_implies_cycle node eqb Hspec g order visited Hwf Hk). apply N.eqb_neq. exact E. }
  destruct (find_cycle_total node eqb Hspec g Hwf Hc) as [c Hc']. rewrite Hc'. cbn [bind].
  eexists; reflexivity.
Qed.

Lemma insert_ins_nodes (o : string) : forall ins g x,
  In x (g_nodes (fold_left (fun g1 i => graph_insert g1 i o) ins g)) ->
  In x (g_nodes g) \/ In x ins \/ x = o.
Proof.
  induction ins as [|i ins IH]; intros g x H; cbn [fold_left] in H; [left; exact H|].
  apply IH in H. destruct H as [H|[H|H]].
  - apply graph_insert_nodes in H. destruct H as [H|[H|H]]; [left; exact H | right; left; left; symmetry; exact H | right; right; exact H].
  - right. left. right. exact H.
  - right. right. exact H.
Qed.

Lemma const_graph_fold_wf : forall (consts : list (string * expr)) g,
  gwf g -> NoDup (map fst consts) ->
  (forall n, In n (map fst consts) -> forall x, ~ gedge g x n) ->
  let g' := fold_left (fun g ne =>
                         graph_add_node (fold_left (fun g1 r => graph_insert g1 r (fst ne))
                                                   (nodup_str (refs (snd ne))) g) (fst ne))
                      consts g in
  gwf g' /\
  (forall x, In x (g_nodes g') ->
     In x (g_nodes g) \/ In x (map fst consts) \/ exists n e, In (n, e) consts /\ In x (refs e)).
Proof.
  induction consts as [|[n e] consts IH]; intros g Hwf Hnd Hne; cbn [fold_left].
  - split; [exact Hwf | intros x Hx; left; exact Hx].
  - cbn [map fst] in Hnd, Hne. apply NoDup_cons_iff in Hnd. destruct Hnd as [Hn Hnd]. cbn [fst snd].
    destruct (insert_ins_wf n (nodup_str (refs e)) g Hwf (nodup_str_NoDup (refs e))) as [J1 [J2 J3]].
    { intros i _. apply (Hne n (or_introl eq_refl)). }
    cbv zeta in J1, J2, J3.
    set (g1 := fold_left (fun g1 r => graph_insert g1 r n) (nodup_str (refs e)) g) in *.
    assert (Hwf2 : gwf (graph_add_node g1 n)) by (apply graph_add_node_wf; exact J1).
    assert (Hne2 : forall n0, In n0 (map fst consts) -> forall x, ~ gedge (graph_add_node g1 n) x n0).
    { intros n0 H0 x He. apply graph_add_node_edge in He. apply J2 in He. destruct He as [He|[He _]].
      - apply (Hne n0 (or_intror H0) x). exact He.
      - subst n0. apply Hn. exact H0. }
    destruct (IH _ Hwf2 Hnd Hne2) as [I1 I2]. cbv zeta in I1, I2.
    split; [exact I1|].
    intros x Hx. apply I2 in Hx. destruct Hx as [Hx|[Hx|[n0 [e0 [Hx1 Hx2]]]]].
    + apply graph_add_node_nodes in Hx. destruct Hx as [Hx|Hx].
      * apply insert_ins_nodes in Hx. destruct Hx as [Hx|[Hx|Hx]].
        -- left. exact Hx.
        -- right. right. exists n, e. split; [left; reflexivity | apply nodup_str_In; exact Hx].
        -- right. left. left. symmetry. exact Hx.
      * right. left. left. symmetry. exact Hx.
    + right. left. right. exact Hx.
    + right. right. exists n0, e0. split; [right; exact Hx1 | exact Hx2].
Qed.

Lemma const_graph_facts (consts : list (string * expr)) :
  NoDup (map fst consts) ->
  gwf (const_graph consts) /\
  (forall x, In x (g_nodes (const_graph consts)) ->
     In x (map fst consts) \/ exists n e, In (n, e) consts /\ In x (refs e)).
Proof.
  intros Hnd.
  destruct (const_graph_fold_wf consts empty_graph empty_graph_wf Hnd) as [I1 I2].
  { intros n _ x. apply empty_graph_edge. }
  cbv zeta in I1, I2. fold (const_graph consts) in I1, I2.
  split; [exact I1|]. intros x Hx. apply I2 in Hx. destruct Hx as [[]|Hx]. exact Hx.
Qed.

Theorem const_graph_wf_holds : stmt_const_graph_wf.
Proof. intros consts Hnd. apply (const_graph_facts consts Hnd). Qed.

Theorem assign_graph_wf_holds : stmt_assign_graph_wf.
Proof. intros assigns known Hnd. apply (assign_graph_facts assigns known Hnd). Qed.

(* ---- user errors ---------------------------------------------------------------------------------- *)
Lemma ue_nil : user_errors [].
Proof. intros e []. Qed.

Lemma ue_app a b : user_errors a -> user_errors b -> user_errors (a ++ b).
Proof. intros Ha Hb e He. apply in_app_iff in He. destruct He as [He|He]; [apply Ha | apply Hb]; exact He. Qed.

Lemma ue_one k names : user_kind k -> user_errors [mkErr k names].
Proof. intros H e [<-|[]]. exact H. Qed.

Lemma ue_flat_map {A} (g : A -> list err) l : (forall x, user_errors (g x)) -> user_errors (flat_map g l).
Proof. intros H e He. apply in_flat_map in He. destruct He as [x [_ He]]. apply (H x e He). Qed.

Lemma ue_map {A} (g : A -> err) l : (forall x, user_kind (ek (g x))) -> user_errors (map g l).
Proof. intros H e He. apply in_map_iff in He. destruct He as [x [<- _]]. apply H. Qed.

Lemma ue_errs_for k n c : user_kind k -> user_errors (errs_for k n c).
Proof. intros H e He. unfold errs_for in He. apply repeat_spec in He. subst e. exact H. Qed.

Lemma ue_check f G C e es : check f G C e = Err es -> user_errors es.
Proof.
  intros H x Hx. pose proof (proj1 (check_kinds_all f G C) e es H x Hx) as Hk.
  split; intros E; rewrite E in Hk; discriminate Hk.
Qed.

Lemma ue_eval f rho e es : eval f rho e = Err es -> user_errors es.
Proof.
  intros H x Hx. pose proof (eval_kinds f rho e es H x Hx) as Hk.
  split; intros E; rewrite E in Hk; discriminate Hk.
Qed.

Ltac uk := (split; discriminate).
Ltac ue :=
  repeat first
    [ assumption
    | apply ue_nil
    | apply ue_app
    | apply ue_one; uk
    | apply ue_errs_for; uk
    | apply ue_flat_map; intros ?
    | apply ue_map; intros ?; uk
    | match goal with
      | |- user_errors (if ?b then _ else _) => destruct b
      | |- user_errors (match ?x with _ => _ end) => destruct x
      end ].

Lemma fold_left_preserve {A B} (P : A -> Prop) (g : A -> B -> A) (l : list B) :
  (forall a x, P a -> P (g a x)) -> forall a, P a -> P (fold_left g l a).
Proof. intros H. induction l as [|x l IH]; intros a Ha; cbn [fold_left]; [exact Ha | apply IH, H, Ha]. Qed.

(* ---- resolve_constants ------------------------------------------------------------------------- *)
Lemma eval_consts_ue f cs : forall order vals errs vals' errs',
  (forall n, In n order -> has cs n = true) -> user_errors errs ->
  eval_consts f cs order vals errs = (vals', errs') -> user_errors errs'.
Proof.
  induction order as [|n r IH]; intros vals errs vals' errs' Hall Hue H; cbn [eval_consts] in H.
  - injection H as <- <-. exact Hue.
  - assert (Hall' : forall n0, In n0 r -> has cs n0 = true) by (intros n0 H0; apply Hall; right; exact H0).
    pose proof (Hall n (or_introl eq_refl)) as Hn. unfold has in Hn.
    destruct (lookup cs n) as [e|]; [|discriminate Hn].
    match type of H with
    | context [check ?a ?b ?c ?d] => destruct (check a b c d) as [wc|esc] eqn:Ec
    end.
    + destruct (eval f (lookup vals) e) as [v|es] eqn:Ee.
      * apply (IH _ _ _ _ Hall' Hue H).
      * apply (IH _ _ _ _ Hall' (ue_app _ _ Hue (ue_eval _ _ _ _ Ee)) H).
    + apply (IH _ _ _ _ Hall' (ue_app _ _ Hue (ue_check _ _ _ _ _ Ec)) H).
Qed.

Theorem resolve_constants_no_internal_holds : stmt_resolve_constants_no_internal.
Proof.
  intros f consts es Hnd Hcl H. split; [apply (resolve_constants_err f consts es H)|].
  unfold resolve_constants in H.
  destruct (const_graph_facts consts Hnd) as [Hwf Hnodes].
  destruct (toposort_total_holds string String.eqb String.eqb_eq _ Hwf) as [r Hr].
  rewrite Hr in H. cbn [bind] in H. destruct r as [order|cyc].
  - destruct (eval_consts f consts order [] []) as [vals errs] eqn:Ee.
    destruct errs as [|e0 errs]; [discriminate H|]. injection H as <-.
    apply (eval_consts_ue f consts order [] [] vals (e0 :: errs)); [|apply ue_nil | exact Ee].
    intros n Hn.
    destruct (order_valid string String.eqb String.eqb_eq _ order Hwf Hr) as [_ [Hin _]].
    apply Hin in Hn. apply has_In. apply Hnodes in Hn. destruct Hn as [Hn|[n0 [e [H1 H2]]]]; [exact Hn|].
    apply (Hcl n0 e n H1 H2).
  - unfold err1 in H. injection H as <-. apply ue_one. uk.
Qed.

(* ---- assignments_to_actions -------------------------------------------------------------------- *)
Lemma preprocess_one_user f consts assigns acc ff :
  user_errors (snd acc) -> user_errors (snd (preprocess_one f consts assigns acc ff)).
Proof.
  destruct acc as [[[g by_out] no_out] errs]. cbn [snd]. intros Hue.
  unfold preprocess_one. cbv zeta.
  destruct (filter (fun n => negb (has assigns n)) (fixed_in_names ff)) as [|m ms].
  - destruct (ff_out ff) as [[o w]|]; cbn [snd]; exact Hue.
  - destruct (ff_mandatory ff).
    + destruct (ff_out ff) as [[o w]|]; cbn [snd]; ue.
    + cbn [snd]. ue.
Qed.

Lemma preprocess_fold_user f consts assigns : forall l acc,
  user_errors (snd acc) -> user_errors (snd (fold_left (preprocess_one f consts assigns) l acc)).
Proof.
  intros l acc H.
  apply (fold_left_preserve (fun a => user_errors (snd a)) (preprocess_one f consts assigns) l); [|exact H].
  intros a x Ha. apply preprocess_one_user. exact Ha.
Qed.

Lemma schedule_user f widths consts assigns by_out decls : forall order acts errs und acts' errs' und',
  user_errors errs ->
  schedule f widths consts assigns by_out decls order acts errs und = (acts', errs', und') ->
  user_errors errs'.
Proof.
  induction order as [|n r IH]; intros acts errs und acts' errs' und' Hue H; cbn [schedule] in H.
  - injection H as <- <- <-. exact Hue.
  - destruct (lookup assigns n) as [e|].
    + destruct (lookup widths n) as [w|].
      * destruct (check f (lookup widths) (lookup consts) e) as [we|es] eqn:Ec.
        -- eapply IH; [|exact H]; ue.
        -- apply (IH _ _ _ _ _ _ (ue_app _ _ Hue (ue_check _ _ _ _ _ Ec)) H).
      * eapply IH; [|exact H]; ue.
    + destruct (lookup by_out n) as [ff|].
      * apply (IH _ _ _ _ _ _ Hue H).
      * destruct (mem_str n decls).
        -- eapply IH; [|exact H]; ue.
        -- apply (IH _ _ _ _ _ _ Hue H).
Qed.

Lemma fixed_distinct_inv fixed : fixed_distinct fixed ->
  Forall (fun ff => NoDup (fixed_in_names ff)) fixed /\ NoDup (fixed_out_names fixed).
Proof. intros [H1 H2]. split; [exact H1 | rewrite fixed_out_names_eq; exact H2]. Qed.

Theorem scheduler_graph_wf_holds : stmt_scheduler_graph_wf.
Proof.
  intros f fixed consts assigns known g by_out no_out Hd Hnd Hno Hf.
  destruct (fixed_distinct_inv fixed Hd) as [Tins Touts].
  destruct (assign_graph_facts assigns known Hnd) as [G1 [G2 _]].
  assert (Hnoe : forall o, In o (fixed_out_names fixed) -> forall x, ~ gedge (assign_graph assigns known) x o).
  { intros o Ho x Hxo. apply G2 in Hxo. destruct Hxo as [e [Hoe _]].
    apply (Hno o); [|rewrite <- fixed_out_names_eq; exact Ho]. apply (in_map fst) in Hoe. exact Hoe. }
  apply (preprocess_graph f consts assigns fixed _ _ _ _ _ _ G1 Touts Tins Hnoe Hf).
Qed.

Theorem assignments_to_actions_no_internal_holds : stmt_assignments_to_actions_no_internal.
Proof.
  intros f fixed widths consts assigns known decls es Hd Hnd Hno H.
  split; [apply (assignments_to_actions_err f fixed widths consts assigns known decls es H)|].
  unfold assignments_to_actions in H.
  pose proof (preprocess_fold_user f consts assigns fixed (assign_graph assigns known, [], [], []) ue_nil) as Hpre.
  destruct (fold_left (preprocess_one f consts assigns) fixed (assign_graph assigns known, [], [], []))
    as [[[g by_out] no_out] errs0] eqn:Ef.
  cbn [snd] in Hpre.
  destruct errs0 as [|e0 errs0]; [|injection H as <-; exact Hpre].
  pose proof (scheduler_graph_wf_holds f fixed consts assigns known g by_out no_out Hd Hnd Hno Ef) as Hwf.
  destruct (toposort_total_holds string String.eqb String.eqb_eq g Hwf) as [r Hr].
  rewrite Hr in H. cbn [bind] in H. destruct r as [order|cyc].
  - destruct (schedule f widths consts assigns by_out decls order [] [] []) as [[acts errs] und] eqn:Es.
    pose proof (schedule_user f widths consts assigns by_out decls order [] [] [] acts errs und ue_nil Es) as Hs.
    destruct (errs ++ map (fun n => mkErr UnsetUndeclaredWire [n]) und) as [|e1 errs1] eqn:Ee; [discriminate H|].
    injection H as <-. rewrite <- Ee. ue.
  - unfold err1 in H. injection H as <-. apply ue_one. uk.
Qed.

(* ---- the phases of Program::new ------------------------------------------------------------------ *)
Section BuildTotal.
  Variable f : features.
  Variable fixed : list fixed_fn.
  Variable is_lower : string -> bool.
  Variable is_upper : string -> bool.

  Lemma cdd_user s n : user_errors (check_double_declare fixed s n).
  Proof. unfold check_double_declare. ue. Qed.

  Lemma step1_user s x : user_errors (s_errs s) -> user_errors (s_errs (step1 fixed s x)).
  Proof.
    intros Hue. destruct x as [decls|decls|assigns|name regs]; cbn [step1].
    - apply (fold_left_preserve (fun s => user_errors (s_errs s))); [|exact Hue].
      intros a [n e] Ha. cbn [step1_const s_errs]. apply ue_app; [exact Ha | apply cdd_user].
    - apply (fold_left_preserve (fun s => user_errors (s_errs s))); [|exact Hue].
      intros a [n w] Ha. cbn [step1_wire s_errs]. apply ue_app; [exact Ha | apply cdd_user].
    - apply (fold_left_preserve (fun s => user_errors (s_errs s))); [|exact Hue].
      intros a [names e] Ha. cbn [fst snd].
      apply (fold_left_preserve (fun s => user_errors (s_errs s))); [|exact Ha].
      intros a0 n Ha0. unfold step1_assign_name. cbn [s_errs]. ue.
    - cbn [s_errs]. exact Hue.
  Qed.

  Lemma S1_user stmts : user_errors (s_errs (fold_left (step1 fixed) stmts (init1 fixed))).
  Proof.
    apply (fold_left_preserve (fun s => user_errors (s_errs s))); [|cbn [init1 s_errs]; apply ue_nil].
    intros a x Ha. apply step1_user. exact Ha.
  Qed.

  Lemma step3_register_user s consts bn inp outp acc r :
    user_errors (t_errs (fst (fst acc))) ->
    user_errors (t_errs (fst (fst (step3_register f s consts bn inp outp acc r)))).
  Proof.
    destruct acc as [[t sigs] defaults]. destruct r as [[rname w] dflt]. cbn [fst]. intros Hue.
    unfold step3_register. cbv zeta.
    match goal with
    | |- context [match ?p with [] => _ | _ :: _ => _ end] =>
        assert (Hpre : user_errors p) by ue; destruct p as [|e0 pre]
    end.
    - match goal with
      | |- context [check ?a ?b ?c ?d] => destruct (check a b c d) as [wc|esc] eqn:Ec
      end.
      + destruct (eval f (lookup consts) dflt) as [v|es] eqn:Ee; cbn [fst t_errs].
        * ue.
        * apply ue_app; [exact Hue | apply (ue_eval _ _ _ _ Ee)].
      + cbn [fst t_errs]. apply ue_app; [exact Hue | apply (ue_check _ _ _ _ _ Ec)].
    - cbn [fst t_errs]. apply ue_app; [exact Hue | exact Hpre].
  Qed.

  Lemma step3_bank_user s consts t b :
    user_errors (t_errs t) -> user_errors (t_errs (step3_bank f is_lower is_upper s consts t b)).
  Proof.
    intros Hue. destruct b as [name regs]. unfold step3_bank.
    destruct (utf8_chars name "") as [|inp [|outp [|x l]]]; cbn [t_errs]; try (ue; fail).
    destruct (negb (is_lower inp) || negb (is_upper outp)); cbn [t_errs]; [ue|].
    cbv zeta.
    match goal with
    | |- context [fold_left ?g regs ?a0] =>
        assert (Hf : user_errors (t_errs (fst (fst (fold_left g regs a0)))))
    end.
    { apply (fold_left_preserve (fun a => user_errors (t_errs (fst (fst a))))).
      - intros a r Ha. apply step3_register_user. exact Ha.
      - cbn [fst t_errs]. ue. }
    match goal with
    | |- context [fold_left ?g regs ?a0] => destruct (fold_left g regs a0) as [[t2 sigs] defaults]
    end.
    cbn [fst t_errs] in *. exact Hf.
  Qed.

  Lemma T3_user s consts :
    user_errors (t_errs (fold_left (step3_bank f is_lower is_upper s consts) (s_banks s)
                                   (mkSt3 [] [] (s_types s) [] [] []))).
  Proof.
    apply (fold_left_preserve (fun t => user_errors (t_errs t))); [|cbn [t_errs]; apply ue_nil].
    intros a x Ha. apply step3_bank_user. exact Ha.
  Qed.

  Theorem build_no_internal_error_distinct_at :
    fixed_distinct fixed -> stmt_build_no_internal_error f fixed is_lower is_upper.
  Proof.
    intros Hd stmts es H. split; [apply (reject_has_diag_ok f fixed is_lower is_upper stmts es H)|].
    unfold build_program in H.
    set (s := fold_left (step1 fixed) stmts (init1 fixed)) in H.
    pose proof (S1_user stmts) as Hs1. fold s in Hs1.
    destruct (s_errs s ++ const_assigned_errors s ++ const_ref_errors s) as [|e0 es0] eqn:E1.
    2:{ injection H as <-. rewrite <- E1. unfold const_assigned_errors, const_ref_errors. ue. }
    apply app_eq_nil in E1. destruct E1 as [E1a E1]. apply app_eq_nil in E1. destruct E1 as [E1b E1c].
    destruct (resolve_constants f (s_consts s)) as [consts|es2] eqn:E2; cbn [bind] in H.
    2:{ injection H as <-.
        apply (resolve_constants_no_internal_holds f (s_consts s) es2); [apply S1_consts_NoDup | | exact E2].
        intros n e r Hne Hr. apply has_In. apply (const_ref_errors_nil s E1c n e r Hne Hr). }
    set (t := fold_left (step3_bank f is_lower is_upper s consts) (s_banks s) (mkSt3 [] [] (s_types s) [] [] [])) in H.
    pose proof (T3_user s consts) as Ht3. fold t in Ht3.
    match type of H with
    | match ?x with [] => _ | _ :: _ => _ end = _ => destruct x as [|e1 es1] eqn:E3
    end.
    2:{ injection H as <-. rewrite <- E3. unfold unset_errors. ue. }
    match type of H with
    | bind ?r _ = _ => destruct r as [acts|es4] eqn:E4; cbn [bind] in H
    end; [discriminate H|].
    injection H as <-.
    apply (assignments_to_actions_no_internal_holds f fixed _ _ _ _ _ es4 Hd) in E4; [apply E4 | apply S1_assigns_NoDup |].
    intros n Hn. apply has_In in Hn. apply (S1_assigns_has fixed is_lower is_upper) in Hn.
    rewrite <- fixed_out_names_eq.
    apply (proj2 (S1_assigned_fresh fixed is_lower is_upper stmts E1a) n Hn).
  Qed.
End BuildTotal.

Theorem build_no_internal_error_distinct_holds : stmt_build_no_internal_error_distinct.
Proof. intros f fixed is_lower is_upper Hd. apply build_no_internal_error_distinct_at. exact Hd. Qed.

(* ---- the table of the compiled implementation ------------------------------------------------------ *)
Lemma gen_fixed_distinct : fixed_distinct gen_fixed.
Proof.
  pose proof gen_fixed_ok2 as H. unfold fixed_table_ok2 in H. apply andb_true_iff in H. destruct H as [H _].
  destruct (fixed_sched_ok_inv gen_fixed H) as [H1 [H2 _]].
  split; [exact H1 | rewrite <- fixed_out_names_eq; exact H2].
Qed.

Theorem build_no_internal_error_gen_holds : stmt_build_no_internal_error_gen.
Proof. intros f is_lower is_upper. apply build_no_internal_error_distinct_at. exact gen_fixed_distinct. Qed.

(* ---- the draft for an arbitrary table is false ------------------------------------------------------- *)
(* a component that lists its input twice: the edge a -> o is inserted twice, num_edges = 2 but
   the edge set has one element, the sorter concludes "cycle" and find_cycle panics *)
Definition dup_in_fixed : list fixed_fn :=
  [mkFixed "x" [("a"%string, 1%N); ("a"%string, 1%N)] (Some ("o"%string, 1%N)) None false (AReadReg "a" "o")].
(* two components driving the same output from the same input: same effect *)
Definition dup_out_fixed : list fixed_fn :=
  [mkFixed "x" [("a"%string, 1%N)] (Some ("o"%string, 1%N)) None false (AReadReg "a" "o");
   mkFixed "y" [("a"%string, 1%N)] (Some ("o"%string, 1%N)) None false (AReadReg "a" "o")].
Definition set_a : list stmt := [SAssign [(["a"%string], EConst (mkV 0 (Bits 1)))]].

Lemma dup_tables_panic :
  fixed_table_ok dup_in_fixed = true /\ fixed_table_ok dup_out_fixed = true /\
  build_program gen_features dup_in_fixed ascii_lower ascii_upper set_a = Err [mkErr Panicked []] /\
  build_program gen_features dup_out_fixed ascii_lower ascii_upper set_a = Err [mkErr Panicked []].
Proof. vm_compute. repeat split; reflexivity. Qed.

Lemma build_no_internal_error_table_ok_refuted : ~ stmt_build_no_internal_error_table_ok.
Proof.
  intros H. destruct dup_tables_panic as [H1 [_ [H3 _]]].
  destruct (H gen_features dup_in_fixed ascii_lower ascii_upper H1 set_a _ H3) as [_ Hu].
  destruct (Hu (mkErr Panicked []) (or_introl eq_refl)) as [Hp _]. apply Hp. reflexivity.
Qed.

Lemma build_no_internal_error_any_table_refuted : ~ stmt_build_no_internal_error_any_table.
Proof.
  intros H. apply build_no_internal_error_table_ok_refuted.
  intros f fixed il iu _. apply H.
Qed.

(* resolve_constants does need its hypothesis: a constant reading an undeclared name makes the
   unwrap() of exprs.get(name) panic - Program::new reports UndeclaredWireRead before calling it *)
Example resolve_constants_needs_closed :
  resolve_constants gen_features [("a"%string, EWire "b")] = Err [mkErr Panicked ["b"%string]].
Proof. vm_compute. reflexivity. Qed.

(* ---- the whole front end ----------------------------------------------------------------------------- *)
Theorem front_end_total_holds : stmt_front_end_total.
Proof.
  intros uc f il iu bytes.
  destruct (parse_text uc doc_tiers bytes) as [stmts|]; [|left; reflexivity].
  right. exists stmts. split; [reflexivity|].
  destruct (build_program f gen_fixed il iu stmts) as [p|es] eqn:E.
  - left. exists p. reflexivity.
  - right. exists es. split; [reflexivity|]. apply (build_no_internal_error_gen_holds f il iu stmts es E).
Qed.

(* ---- C6 ------------------------------------------------------------------------------------------ *)
Theorem scheduler_call_faithful_holds : stmt_scheduler_call_faithful.
Proof.
  intros f fixed il iu stmts. unfold scheduler_call, build_program.
  set (s := fold_left (step1 fixed) stmts (init1 fixed)).
  destruct (s_errs s ++ const_assigned_errors s ++ const_ref_errors s) as [|e0 es0]; [|eexists; reflexivity].
  destruct (resolve_constants f (s_consts s)) as [consts|es2]; cbn [bind]; [|eexists; reflexivity].
  cbv zeta.
  match goal with
  | |- match (match ?x with [] => _ | _ :: _ => _ end) with _ => _ end => destruct x as [|e1 es1]
  end; [reflexivity | eexists; reflexivity].
Qed.

Lemma drop_cont_skip s : drop_cont_bytes s = skip_cont s.
Proof. induction s as [|c r IH]; cbn [drop_cont_bytes skip_cont]; [reflexivity|]. rewrite IH. reflexivity. Qed.

Lemma bank_signal_shaped_like n : bank_signal_shaped n = bank_like n.
Proof. destruct n as [|a r]; [reflexivity|]. cbn [bank_signal_shaped bank_like]. rewrite drop_cont_skip. reflexivity. Qed.

Lemma starts_with_sprefix p : forall s, starts_with p s = sprefix p s.
Proof.
  induction p as [|a p IH]; intros s; cbn [starts_with sprefix]; [reflexivity|].
  destruct s as [|b s]; [reflexivity|]. rewrite IH. reflexivity.
Qed.

Lemma scheduler_call_inv f fixed il iu stmts widths consts assigns known decls k :
  scheduler_call f fixed il iu stmts = Some (widths, consts, assigns, known, decls, k) ->
  let s := fold_left (step1 fixed) stmts (init1 fixed) in
  let t := fold_left (step3_bank f il iu s consts) (s_banks s) (mkSt3 [] [] (s_types s) [] [] []) in
  s_errs s = [] /\ const_assigned_errors s = [] /\ const_ref_errors s = [] /\
  resolve_constants f (s_consts s) = Ok consts /\ t_errs t = [] /\
  assigns = s_assigns s /\ known = all_out_names (t_banks t) ++ t_defaulted t ++ map fst consts /\ decls = s_decls s.
Proof.
  unfold scheduler_call. cbv zeta.
  set (s := fold_left (step1 fixed) stmts (init1 fixed)).
  destruct (s_errs s ++ const_assigned_errors s ++ const_ref_errors s) as [|e0 es0] eqn:E1; [|discriminate].
  apply app_eq_nil in E1. destruct E1 as [E1a E1]. apply app_eq_nil in E1. destruct E1 as [E1b E1c].
  destruct (resolve_constants f (s_consts s)) as [consts0|es2] eqn:E2; [|discriminate].
  match goal with
  | |- match ?x with [] => _ | _ :: _ => _ end = _ -> _ => destruct x as [|e1 es1] eqn:E3
  end; [|discriminate].
  apply app_eq_nil in E3. destruct E3 as [E3a E3b].
  intros H. injection H as <- <- <- <- <- <-.
  repeat split; assumption.
Qed.

Theorem scheduler_call_hyps_holds : stmt_scheduler_call_hyps.
Proof.
  intros f fixed il iu stmts widths consts assigns known decls k H.
  apply scheduler_call_inv in H. cbv zeta in H.
  destruct H as [E1a [_ [_ [_ [_ [-> [_ _]]]]]]].
  split; [apply S1_assigns_NoDup|].
  intros n Hn. apply has_In in Hn. apply (S1_assigns_has fixed il iu) in Hn.
  rewrite <- fixed_out_names_eq. apply (proj2 (S1_assigned_fresh fixed il iu stmts E1a) n Hn).
Qed.

Theorem preprocess_fixed_guards_holds : stmt_preprocess_fixed_guards.
Proof.
  intros f fixed il iu stmts widths consts assigns known decls k Hplain H ff Hff.
  apply scheduler_call_inv in H. cbv zeta in H.
  destruct H as [E1a [E1b [_ [E2 [E3 [-> [-> _]]]]]]].
  set (s := fold_left (step1 fixed) stmts (init1 fixed)) in *.
  set (t := fold_left (step3_bank f il iu s consts) (s_banks s) (mkSt3 [] [] (s_types s) [] [] [])) in *.
  assert (Hpl : forall n, In n (fixed_names fixed) ->
                  bank_like n = false /\ sprefix "stall_" n = false /\ sprefix "bubble_" n = false).
  { intros n Hn. rewrite <- bank_signal_shaped_like, <- !starts_with_sprefix.
    apply Hplain. rewrite <- fixed_names_all. exact Hn. }
  (* no known value is a table name *)
  assert (HK : forall n, In n (all_out_names (t_banks t) ++ t_defaulted t ++ map fst consts) ->
                         ~ In n (fixed_names fixed)).
  { intros n Hn Hfn. apply in_app_iff in Hn. destruct Hn as [Hn|Hn]; [|apply in_app_iff in Hn; destruct Hn as [Hn|Hn]].
    - change (In n (all_outs (t_banks t))) in Hn.
      apply sig_of_out in Hn. destruct Hn as [sg [Hsg <-]].
      destruct (T3_facts f il iu s consts E3) as [_ [F2 _]]. rewrite Forall_forall in F2.
      apply F2 in Hsg. destruct Hsg as [_ [_ [_ [_ [S5 _]]]]].
      rewrite (proj1 (Hpl _ Hfn)) in S5. discriminate S5.
    - destruct (T3_defaulted f il iu s consts n Hn) as [_ [b [Hb H2]]].
      destruct (T3_facts f il iu s consts E3) as [_ [_ F3]]. rewrite Forall_forall in F3.
      destruct (F3 b Hb) as [_ [[X [Hst Hbu]] _]].
      destruct (Hpl _ Hfn) as [_ [P2 P3]].
      destruct H2 as [->| ->].
      + rewrite Hst, sprefix_stall in P2. discriminate P2.
      + rewrite Hbu, sprefix_bubble in P3. discriminate P3.
    - destruct (resolve_constants_keys f _ _ E2) as [_ Hk]. apply Hk in Hn.
      assert (Hc : In n (const_names stmts)) by (apply (S1_consts_has fixed il iu); exact Hn).
      destruct (S1_decls_fresh fixed il iu stmts E1a) as [_ Hf]. apply (Hf n); [|exact Hfn].
      apply In_decl_names. left. exact Hc. }
  split.
  - intros i Hi Hk. apply (HK i Hk). apply (fixed_in_in_names fixed ff i Hff Hi).
  - intros o w Ho. split.
    + intros Hk. apply (HK o Hk). apply fixed_out_in_names. apply (In_fixed_out_names fixed ff o w Hff Ho).
    + intros Hn. apply has_In in Hn. apply (S1_assigns_has fixed il iu) in Hn.
      apply (proj2 (S1_assigned_fresh fixed il iu stmts E1a) o Hn).
      apply (In_fixed_out_names fixed ff o w Hff Ho).
Qed.

Theorem scheduler_asserts_holds : stmt_scheduler_asserts.
Proof.
  intros f fixed consts assigns known g by_out no_out order Hd Hnd Hno Hf Ht.
  destruct (fixed_distinct_inv fixed Hd) as [Tins Touts].
  destruct (assign_graph_facts assigns known Hnd) as [G1 [G2 _]].
  assert (Hnoe : forall o, In o (fixed_out_names fixed) -> forall x, ~ gedge (assign_graph assigns known) x o).
  { intros o Ho x Hxo. apply G2 in Hxo. destruct Hxo as [e [Hoe _]].
    apply (Hno o); [|rewrite <- fixed_out_names_eq; exact Ho]. apply (in_map fst) in Hoe. exact Hoe. }
  destruct (preprocess_graph f consts assigns fixed _ _ _ _ _ _ G1 Touts Tins Hnoe Hf) as [P1 [P2 [_ P4]]].
  destruct (order_valid string String.eqb String.eqb_eq g order P1 Ht) as [_ [_ L3]].
  split.
  - intros n e r _ Hl Hr. destruct (mem_str r known) eqn:Ek.
    + left. apply mem_str_In. exact Ek.
    + right. apply L3. apply P2. apply G2. exists e. split; [apply lookup_In; exact Hl|].
      split; [exact Hr | exact Ek].
  - intros n ff i _ Hl Hi. apply L3. destruct (P4 n ff Hl) as [Hx|Hx]; [discriminate Hx|].
    apply Hx. exact Hi.
Qed.

Lemma gen_fixed_names_plain : table_names_plain gen_fixed.
Proof.
  assert (H : forallb (fun n => negb (bank_signal_shaped n) && negb (starts_with "stall_" n) &&
                                negb (starts_with "bubble_" n)) (fixed_all_names gen_fixed) = true)
    by (vm_compute; reflexivity).
  intros n Hn. rewrite forallb_forall in H. apply H in Hn.
  apply andb_true_iff in Hn. destruct Hn as [Hn H3]. apply andb_true_iff in Hn. destruct Hn as [H1 H2].
  apply negb_true_iff in H1, H2, H3. split; [exact H1|]. split; assumption.
Qed.

(* ====================================================================================== *)
(* Non-vacuity: concrete instances of every statement                                      *)
(* ====================================================================================== *)
Open Scope string_scope.

(* A: "a=0x1F; /* c */ b1" *)
Definition ex_text : list N := bytes_of_string "a=0x1F; /* c */ b1".

Example ex_lex :
  lex test_uclass ex_text =
  ([(0, TIdentifier [97%N], 1); (1, TAssign, 2); (2, TLit (mkV 31 Unl), 6); (6, TSemicolon, 7);
    (16, TIdentifier [98%N; 49%N], 18)]%nat, None).
Proof. vm_compute. reflexivity. Qed.

Example ex_lex_fuel :
  lex_loop test_uclass 1000 ex_text (List.length ex_text) (char_indices 500 ex_text 0) [] = lex test_uclass ex_text.
Proof. apply lex_fuel_holds; vm_compute; lia. Qed.

Example ex_fuel_instances :
  char_indices 100 ex_text 0 = char_indices (S (List.length ex_text)) ex_text 0 /\
  (let cs := char_indices 100 ex_text 0 in
   lex_next test_uclass 100 ex_text 18 cs = lex_next test_uclass (S (List.length cs)) ex_text 18 cs /\
   lex_next test_uclass 100 ex_text 18 cs = LexTok (0, TIdentifier [97%N], 1)%nat (tl cs) /\
   lex_loop test_uclass 100 ex_text 18 cs [] = lex_loop test_uclass (S (List.length cs)) ex_text 18 cs []) /\
  (* the body of the comment of ex_text: characters 10.. *)
  (let body := skipn 10 (char_indices 100 ex_text 0) in
   skip_block_comment 100 body 18 = skip_block_comment (S (List.length body)) body 18 /\
   skip_block_comment 100 body 18 = Some (skipn 15 (char_indices 100 ex_text 0))).
Proof. vm_compute. repeat split; reflexivity. Qed.

(* ill-formed UTF-8 is no problem for the spans: a lone lead byte at the end, a truncated 3-byte
   sequence; a stray digit in a binary literal; an unterminated comment *)
Example ex_lex_bad :
  lex test_uclass [97; 195]%N = ([(0, TIdentifier [97%N], 1)%nat], Some (LexLexicalError 1)) /\
  lex test_uclass [195; 169; 61; 49; 226; 130]%N =
    ([(0, TIdentifier [195%N; 169%N], 2); (2, TAssign, 3); (3, TLit (mkV 1 Unl), 4)]%nat,
     Some (LexLexicalError 4)) /\
  lex test_uclass (bytes_of_string "x = 0b12") =
    ([(0, TIdentifier [120%N], 1); (2, TAssign, 3)]%nat, Some (LexLexicalError 7)) /\
  lex test_uclass (bytes_of_string "x /* y") =
    ([(0, TIdentifier [120%N], 1)%nat], Some (LexUnterminatedComment 2)).
Proof. vm_compute. repeat split; reflexivity. Qed.

(* B: a small program, parsed with the documented table *)
Definition ex_prog : list N :=
  bytes_of_string "register xY { c : 4 = 1; } x_c = Y_c + 1; Stat = [Y_c == 3 : 2; 1 : 1]; pc = 0;".
Definition ex_toks : list tok := fst (lex test_uclass ex_prog).
Definition ex_stmts : list stmt :=
  [SBank "xY" [("c", Bits 4, EConst (mkV 1 Unl))];
   SAssign [(["x_c"], EBin Add (EWire "Y_c") (EConst (mkV 1 Unl)))];
   SAssign [(["Stat"], EMux (ACons (EBin Equal (EWire "Y_c") (EConst (mkV 3 Unl))) (EConst (mkV 2 Unl))
                             (ACons (EConst (mkV 1 Unl)) (EConst (mkV 1 Unl)) ANil)))];
   SAssign [(["pc"], EConst (mkV 0 Unl))]].

Example ex_parse : parse doc_tiers ex_toks = Some ex_stmts /\ (List.length doc_tiers <= 16)%nat.
Proof. vm_compute. split; [reflexivity | lia]. Qed.

Example ex_parse_fuel :
  ps_with doc_tiers (fun n => 5000 + 20 * S n)%nat 77 ex_toks false [] = Some ex_stmts.
Proof.
  rewrite (parse_fuel_irrelevant_holds doc_tiers (proj2 ex_parse) ex_toks (fun n => 5000 + 20 * S n)%nat 77%nat).
  - apply ex_parse.
  - intros n. lia.
  - vm_compute. lia.
Qed.

Example ex_parse_expr_fuel :
  let toks := skipn 12 ex_toks in       (* Y_c + 1; Stat = ... *)
  parse_expr doc_tiers 5000 toks = parse_expr doc_tiers (expr_fuel doc_tiers (List.length toks)) toks /\
  exists rest, parse_expr doc_tiers 5000 toks = Some (EBin Add (EWire "Y_c") (EConst (mkV 1 Unl)), rest).
Proof. vm_compute. split; [reflexivity | eexists; reflexivity]. Qed.

Example ex_parse_mono :
  parse_statements doc_tiers 30 ex_toks false [] = Some ex_stmts /\
  parse_statements doc_tiers 31 ex_toks false [] = Some ex_stmts /\
  parse_statements doc_tiers 3 ex_toks false [] = None.      (* out of fuel: not a syntax error *)
Proof. vm_compute. repeat split; reflexivity. Qed.

(* C: a combinational loop is reported as a diagnostic; a good program reaches the scheduler *)
Definition ex_loop : list stmt :=
  [SWire [("a", Bits 1); ("b", Bits 1)]; SAssign [(["a"], EWire "b")]; SAssign [(["b"], EWire "a")];
   SAssign [(["Stat"], EConst (mkV 1 Unl))]; SAssign [(["pc"], EConst (mkV 0 Unl))]].

Example ex_build_loop :
  build_program gen_features gen_fixed ascii_lower ascii_upper ex_loop = Err [mkErr WireLoop ["a"; "b"]].
Proof. vm_compute. reflexivity. Qed.

Example ex_build_const_errors :
  build_program gen_features gen_fixed ascii_lower ascii_upper
    [SConst [("k", EBin Div (EConst (mkV 1 Unl)) (EConst (mkV 0 Unl)))]] = Err [mkErr DivisionByZero []] /\
  build_program gen_features gen_fixed ascii_lower ascii_upper
    [SConst [("k", EWire "k")]] = Err [mkErr WireLoop ["k"]].
Proof. vm_compute. split; reflexivity. Qed.

Example ex_check_eval_kinds :
  check gen_features (fun _ => None) (fun _ => None) (ECat (EConst (mkV 1 Unl)) (EWire "x")) = Err [mkErr NoBitWidth []] /\
  eval gen_features (fun _ => None) (EBin Div (EConst (mkV 1 Unl)) (EConst (mkV 0 Unl))) = Err [mkErr DivisionByZero []].
Proof. vm_compute. split; reflexivity. Qed.

Example ex_scheduler_call :
  exists widths k,
    scheduler_call gen_features gen_fixed ascii_lower ascii_upper ex_stmts =
    Some (widths, [], flat_map (fun s => match s with SAssign a => map (fun ne => (hd "" (fst ne), snd ne)) a | _ => [] end) ex_stmts,
          ["Y_c"; "stall_Y"; "bubble_Y"], [], k).
Proof. vm_compute. eexists. eexists. reflexivity. Qed.

Example ex_graphs_wf :
  wf_graph string (const_graph [("a", EWire "b"); ("b", EConst (mkV 1 Unl))]) /\
  toposort string String.eqb (const_graph [("a", EWire "b"); ("b", EConst (mkV 1 Unl))]) = Ok (inl ["b"; "a"]).
Proof.
  split; [apply const_graph_wf_holds; repeat constructor; cbn; intuition discriminate | vm_compute; reflexivity].
Qed.

Example ex_front_end :
  exists p, parse_text test_uclass doc_tiers ex_prog = Some ex_stmts /\
            build_program gen_features gen_fixed ascii_lower ascii_upper ex_stmts = Ok p.
Proof. vm_compute. eexists. split; reflexivity. Qed.

Close Scope string_scope.

Print Assumptions char_indices_fuel_holds.
Print Assumptions char_indices_length_holds.
Print Assumptions skip_block_comment_fuel_holds.
Print Assumptions lex_next_fuel_holds.
Print Assumptions lex_next_end_stable_holds.
Print Assumptions lex_loop_fuel_holds.
Print Assumptions lex_fuel_holds.
Print Assumptions lex_next_progress_holds.
Print Assumptions lex_spans_holds.
Print Assumptions parse_mono_expr_holds.
Print Assumptions parse_mono_decl_holds.
Print Assumptions parse_tiers_fuel_holds.
Print Assumptions parse_expr_fuel_holds.
Print Assumptions parse_targets_fuel_holds.
Print Assumptions parse_decls_fuel_holds.
Print Assumptions parse_statement_fuel_holds.
Print Assumptions parse_statements_fuel_holds.
Print Assumptions parse_fuel_irrelevant_holds.
Print Assumptions parse_statement_fuel_any_table_refuted.
Print Assumptions check_error_kinds_holds.
Print Assumptions eval_error_kinds_holds.
Print Assumptions toposort_total_holds.
Print Assumptions const_graph_wf_holds.
Print Assumptions assign_graph_wf_holds.
Print Assumptions scheduler_graph_wf_holds.
Print Assumptions resolve_constants_no_internal_holds.
Print Assumptions assignments_to_actions_no_internal_holds.
Print Assumptions build_no_internal_error_distinct_holds.
Print Assumptions build_no_internal_error_gen_holds.
Print Assumptions build_no_internal_error_any_table_refuted.
Print Assumptions build_no_internal_error_table_ok_refuted.
Print Assumptions front_end_total_holds.
Print Assumptions scheduler_call_faithful_holds.
Print Assumptions scheduler_call_hyps_holds.
Print Assumptions preprocess_fixed_guards_holds.
Print Assumptions scheduler_asserts_holds.
Print Assumptions gen_fixed_names_plain.
Print Assumptions gen_fixed_distinct.
