(* C13 / C14 / C09: the COMPLETE diagnostics of the front end (FullDiag.v): check_full / eval_full /
   build_program_full produce hclrs::Error values with every field (Diag.rerror), front_errors /
   front_stderr the diagnostics and the text on standard error for  preamble ++ user's file.
   Definitions only.

     (a) forgetting everything but (kind, names, spans) gives exactly SpanBuild's check_sp / eval_sp /
         build_program_sp - hence, forgetting the spans too, Expr.check / Expr.eval /
         Build.build_program: the located theorems of SpanBuildSpec and every theorem about
         build_program transfer to the builder that fills all the fields;
     (b) every error the front end produces satisfies Diag.renderable - in particular
         MismatchedMuxWidths carries one width per option - so the text is always produced: the
         front end "never panics ... including while rendering the diagnostics themselves", for every
         text the model front end handles;
     (c) the shape of the text: accepted - empty; rejected - begins with "error: ", ends with a line
         feed, one block per error; every region is headed by the user's file name, except the second
         region of a redeclared / assigned constant of the preamble;
     (d) the widths the messages show are the widths the checker computes for those sub-expressions;
     (e) close_name: a declared name equal to the target up to ASCII case, unique when only one exists. *)
From Coq Require Import Permutation.
From HclV Require Import Base Expr Machine Graph Build Yo Region RegionSpec Lexer Parser LexParseSpec
                         TriviaSpec LexLocSpec Generated SpanParser SpanParserSpec SpanBuild SpanBuildSpec
                         ParseDiag ParseDiagSpec Diag DiagSpec FullDiag.
Open Scope string_scope.
Open Scope list_scope.
Open Scope N_scope.

(* ====================================================================================== *)
(* (a) forgetting the extra fields                                                         *)
(* ====================================================================================== *)
(* whatever the iteration order [korder] and the key list: same acceptance, same width, and the list
   of (kind, names, spans) - kind, names as the hook error_lines prints them, spans = Diag.hook_spans -
   is exactly check_sp's, in the same order *)
Definition stmt_check_full_erases_to_sp : Prop :=
  forall korder f G keys C e, sres_of (check_full korder f G keys C e) = check_sp f G C e.

Definition stmt_eval_full_erases_to_sp : Prop :=
  forall korder f rho rkeys e, sres_of (eval_full korder f rho rkeys e) = eval_sp f rho e.

(* same acceptance, same compiled program, same list of (kind, names, spans) in the same order *)
Definition stmt_full_erases_to_sp : Prop :=
  forall korder f fixed is_lower is_upper stmts,
    sres_of (build_program_full korder f fixed is_lower is_upper stmts) =
    build_program_sp f fixed is_lower is_upper stmts.

(* ... hence exactly Build.build_program on the plain statements *)
Definition stmt_full_erases_to_build : Prop :=
  forall korder f fixed is_lower is_upper stmts,
    erase_sresult (sres_of (build_program_full korder f fixed is_lower is_upper stmts)) =
    build_program f fixed is_lower is_upper (map erase_stmt stmts).

(* the internal diagnostics (a Rust panic, fuel) never occur with the compiled component table *)
Definition is_external (d : ferr) : Prop := match d with FE _ => True | FInternal _ _ => False end.
Definition stmt_full_no_internal_gen : Prop :=
  forall korder f is_lower is_upper stmts es,
    build_program_full korder f gen_fixed is_lower is_upper stmts = FErr es ->
    es <> [] /\ Forall is_external es.

(* ====================================================================================== *)
(* (d) the widths in the messages (and what makes (b) true for the checker)                 *)
(* ====================================================================================== *)
(* the values of the options of a case expression *)
Fixpoint arm_values (a : sarms) : list sexpr :=
  match a with SANil => [] | SACons _ v rest => v :: arm_values rest end.

(* d is a complaint of the checker about the expression [root], in the environment G (widths) /
   C (constants), with its widths:
   - MismatchedExprWidths(x, wx, y, wy): x and y are sub-expressions (nodes) of root - the operands of
     a binary operator, or the tested value and an item of a set membership -, wx and wy are the widths
     the checker computes for x and y, and they are incompatible;
   - MismatchedMuxWidths(options, widths): the options are those of a case expression of root, and
     widths lists the width the checker computes for the value of EVERY option, in order (one width
     per option);
   - InvalidBitIndex(e, index): e is a bit selection  x[lo..index]  of root and x is narrower than index;
   - the other variants the checker produces: NonBooleanWidth, NoMuxDefaultOption,
     MultipleMuxDefaultOption, UnreachableOptions, UndeclaredWireRead, MisorderedBitIndexes, WireTooWide,
     NoBitWidth; no other variant *)
Definition check_error_ok (f : features) (G : string -> option width) (C : string -> option wval)
           (root : sexpr) (d : ferr) : Prop :=
  match d with
  | FE (RMismatchedExprWidths sx wx sy wy) =>
      exists x y, In x (enodes root) /\ In y (enodes root) /\ sx = espan x /\ sy = espan y /\
                  check_sp f G C x = SOk wx /\ check_sp f G C y = SOk wy /\ wcombine wx wy = None
  | FE (RMismatchedMuxWidths options widths) =>
      exists sp a, In (SEMux sp a) (enodes root) /\ options = arm_value_spans a /\
                   Forall2 (fun v w => check_sp f G C v = SOk w) (arm_values a) widths
  | FE (RInvalidBitIndex sp index) =>
      exists x lo iw, In (SESlice sp x lo index) (enodes root) /\ check_sp f G C x = SOk (Bits iw) /\ iw < index
  | FE (RNonBooleanWidth _) | FE (RNoMuxDefaultOption _) | FE (RMultipleMuxDefaultOption _)
  | FE (RUnreachableOptions _) | FE (RUndeclaredWireRead _ _ _) | FE (RMisorderedBitIndexes _)
  | FE (RWireTooWide _) | FE (RNoBitWidth _) => True
  | _ => False
  end.

Definition stmt_check_full_widths : Prop :=
  forall korder f G keys C e es, check_full korder f G keys C e = FErr es ->
    Forall (check_error_ok f G C e) es.

(* in terms of the plain checker: the widths shown for  "One side is .. bits wide / The other side
   is .. bits wide"  are those Expr.check computes for the two sub-expressions *)
Definition stmt_check_full_expr_widths : Prop :=
  forall korder f G keys C e es sx wx sy wy,
    check_full korder f G keys C e = FErr es -> In (FE (RMismatchedExprWidths sx wx sy wy)) es ->
    exists x y, In x (enodes e) /\ In y (enodes e) /\ sx = espan x /\ sy = espan y /\
                check f G C (erase_expr x) = Ok wx /\ check f G C (erase_expr y) = Ok wy /\
                wcombine wx wy = None.

(* the evaluator produces these four variants only *)
Definition eval_error_ok (d : ferr) : Prop :=
  match d with
  | FE (RUndeclaredWireRead _ _ _) | FE (RNoBitWidth _) | FE RRuntimeMismatchedWidths | FE RDivisionByZero => True
  | _ => False
  end.
Definition stmt_eval_full_errors : Prop :=
  forall korder f rho rkeys e es, eval_full korder f rho rkeys e = FErr es -> Forall eval_error_ok es.

(* program level: d is a diagnostic of Program::new with its widths:
   - MismatchedWireWidths(n, w, e, we): e is the expression LAST assigned to n, w is the width n is
     declared with (its entry in the widths the expressions are checked in) and we the width the
     checker computes for e in that environment; they are incompatible;
   - the expression-level diagnostics are as [check_error_ok] says, for an expression of the program;
   - Program::new produces neither UnrecognizedToken nor ExtraToken;
   - an internal diagnostic of the model is Panicked or OutOfFuel *)
Definition build_error_ok (f : features) (stmts : list sstmt) (d : ferr) : Prop :=
  match d with
  | FE (RMismatchedWireWidths n w sp we) =>
      exists nsp e G C, latest (target_list stmts) n (nsp, e) /\ sp = espan e /\
                        G n = Some w /\ check_sp f G C e = SOk we /\ wcombine w we = None
  | FE (RMismatchedExprWidths _ _ _ _) | FE (RMismatchedMuxWidths _ _) | FE (RInvalidBitIndex _ _) =>
      exists root G C, In root (all_exprs stmts) /\ check_error_ok f G C root d
  | FE (RUnrecognizedToken _ _) | FE (RExtraToken _) => False
  | FInternal k _ => k = Panicked \/ k = OutOfFuel
  | _ => True
  end.

Definition stmt_full_widths : Prop :=
  forall korder f fixed is_lower is_upper stmts es,
    build_program_full korder f fixed is_lower is_upper stmts = FErr es ->
    Forall (build_error_ok f stmts) es.

(* ====================================================================================== *)
(* (e) close names                                                                         *)
(* ====================================================================================== *)
(* the hint names one of the candidates: a key that equals the target ignoring ASCII case *)
Definition stmt_close_name_sound : Prop :=
  forall korder target keys c,
    (forall l, Permutation (korder l) l) ->
    find_close_name korder target keys = Some c ->
    In c keys /\ eq_ignore_ascii_case target c = true.

(* there is a hint exactly when there is a candidate; with a single candidate the hint is that one,
   whatever the iteration order *)
Definition stmt_close_name_unique : Prop :=
  forall korder target keys,
    (forall l, Permutation (korder l) l) ->
    (close_candidates target keys = [] -> find_close_name korder target keys = None) /\
    (forall c, close_candidates target keys = [c] -> find_close_name korder target keys = Some c).

(* DRAFT (refuted): "the hint does not depend on the iteration order".  With two candidates (wire Foo,
   wire FOO; x = foo) the insertion order gives FOO, the reverse order Foo - as the real program does
   from run to run *)
Definition stmt_close_name_order_free : Prop :=
  forall k1 k2 target keys,
    (forall l, Permutation (k1 l) l) -> (forall l, Permutation (k2 l) l) ->
    find_close_name k1 target keys = find_close_name k2 target keys.

(* eq_ignore_ascii_case: equal after mapping A-Z to a-z, byte by byte (bytes >= 128 as they are) *)
Definition stmt_eq_ignore_ascii_case : Prop :=
  forall a b, eq_ignore_ascii_case a b = true <->
              map ascii_lower_byte (list_ascii_of_string a) = map ascii_lower_byte (list_ascii_of_string b).

(* ====================================================================================== *)
(* (b) everything the front end reports can be rendered                                     *)
(* ====================================================================================== *)
(* every error of the builder (run on ANY statement list), of the parser's diagnostic productions and
   of the lexer is renderable against any file *)
Definition stmt_full_errors_renderable : Prop :=
  (forall korder f fixed is_lower is_upper stmts es fc e,
     build_program_full korder f fixed is_lower is_upper stmts = FErr es -> In (FE e) es ->
     renderable fc e = true) /\
  (forall korder f G keys C x es fc e,
     check_full korder f G keys C x = FErr es -> In (FE e) es -> renderable fc e = true) /\
  (forall korder f rho rkeys x es fc e,
     eval_full korder f rho rkeys x = FErr es -> In (FE e) es -> renderable fc e = true) /\
  (forall r fc e, In e (parse_errors_full r) -> renderable fc e = true) /\
  (forall err fc, renderable fc (rerror_of_lex err) = true).

(* in particular the width list of a MismatchedMuxWidths is exactly as long as the option list - the
   invariant of ast.rs that DiagSpec.renderable needs *)
Definition stmt_mux_widths_complete : Prop :=
  forall korder f fixed is_lower is_upper stmts es options widths,
    build_program_full korder f fixed is_lower is_upper stmts = FErr es ->
    In (FE (RMismatchedMuxWidths options widths)) es -> List.length widths = List.length options.

(* hence, for every text the model front end handles (front_errors answers), the text on standard
   error is produced: rendering the diagnostics does not panic.  (pre and user: valid UTF-8, which the
   real program ensures by reading the file as a string.) *)
Definition stmt_front_stderr_total : Prop :=
  forall korder uc tiers f fixed is_lower is_upper pre fname user es,
    wf_text pre -> wf_text user ->
    front_errors korder uc tiers f fixed is_lower is_upper (pre ++ user) = Some es ->
    exists text, front_stderr_with korder uc tiers f fixed is_lower is_upper pre fname user = Some text.

(* ====================================================================================== *)
(* (c) the shape of the text                                                               *)
(* ====================================================================================== *)
(* accepted: nothing is written; rejected: one block per error, in order; the text begins with
   "error: " and ends with a line feed, and so does every block *)
Definition stmt_front_stderr_blocks : Prop :=
  forall korder uc tiers f fixed is_lower is_upper pre fname user es text,
    front_errors korder uc tiers f fixed is_lower is_upper (pre ++ user) = Some es ->
    front_stderr_with korder uc tiers f fixed is_lower is_upper pre fname user = Some text ->
    (es = [] -> text = "") /\
    (es <> [] -> text <> "" /\ starts_with "error: " text /\ ends_with nl text) /\
    exists blocks,
      Forall2 (fun e b => render_one uc (new_from_data pre user fname) e = Some b /\
                          starts_with "error: " b /\ ends_with nl b) es blocks /\
      text = concat_strings blocks.

(* accepted exactly when the plain front end (Parser.parse_text + Build.build_program) accepts *)
Definition stmt_front_errors_accepts : Prop :=
  forall korder uc tiers f fixed is_lower is_upper bytes,
    front_errors korder uc tiers f fixed is_lower is_upper bytes = Some [] <->
    exists stmts p, parse_text uc tiers bytes = Some stmts /\
                    build_program f fixed is_lower is_upper stmts = Ok p.

(* a span in the user's part of  preamble ++ user  *)
Definition in_user_part (plen : nat) (sp : dspan) : Prop := (plen <= fst sp)%nat /\ (plen <= snd sp)%nat.

(* hclrs: compiled preamble ++ user's file, the documented operator table, the compiled component
   table.  For every error reported:
   - every span it shows lies in the user's text - so (DiagProofs.render_regions_never_preamble_holds)
     every region of its block is headed "     -> <the user's file name>:", never "<builtin>" -
   - except: RedeclaredWire n / ConstantAssigned n  whose SECOND span is the definition of n in the
     preamble (headed "<builtin>"); its first span - the offending construct - lies in the user's text *)
Definition stmt_front_stderr_in_user_file : Prop :=
  forall korder uc f utext es,
    Forall scalar utext ->
    front_errors korder uc doc_tiers f gen_fixed ascii_lower ascii_upper (preamble_bytes ++ utf8 utext) = Some es ->
    forall e, In e es ->
      (forall sp, In sp (error_spans e) -> in_user_part (List.length preamble_bytes) sp) \/
      (exists n first second,
         (e = RRedeclaredWire n first second \/ e = RConstantAssigned n first second) /\
         in_user_part (List.length preamble_bytes) first /\
         (exists s, In s (firstn preamble_statement_count
                            (match parse_text_sp uc doc_tiers (preamble_bytes ++ utf8 utext) with
                             | Some l => l | None => [] end)) /\ In (n, second) (decls_of_stmt s))).

(* composed with the renderer: the block of an error of the first kind has all its regions headed by
   the user's file name *)
Definition stmt_front_stderr_shape : Prop :=
  forall korder uc f utext fname es,
    Forall scalar utext ->
    front_errors korder uc doc_tiers f gen_fixed ascii_lower ascii_upper (preamble_bytes ++ utf8 utext) = Some es ->
    let fc := new_from_data preamble_bytes (utf8 utext) fname in
    exists text,
      front_stderr_with korder uc doc_tiers f gen_fixed ascii_lower ascii_upper preamble_bytes fname (utf8 utext) = Some text /\
      (es = [] -> text = "") /\
      (es <> [] -> starts_with "error: " text /\ ends_with nl text) /\
      forall e, In e es ->
        exists block ps, render_one uc fc e = Some block /\ render_parts uc fc e = Some ps /\
          starts_with "error: " block /\
          assembled (show_region fc) ps block /\ regions_of ps = error_spans e /\
          ((forall s e', In (Rgn s e') ps ->
              exists out rest, show_region fc s e' = Some out /\
                               out = (RegionSpec.sp 5 ++ [45; 62; 32] ++ fname ++ [58] ++ rest)%list) \/
           (exists n first second,
              (e = RRedeclaredWire n first second \/ e = RConstantAssigned n first second) /\
              in_user_part (List.length preamble_bytes) first /\
              exists out rest, show_region fc (fst first) (snd first) = Some out /\
                               out = (RegionSpec.sp 5 ++ [45; 62; 32] ++ fname ++ [58] ++ rest)%list)).
