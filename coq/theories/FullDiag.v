(* The COMPLETE diagnostics of the front end: the width checker, the evaluator and the program
   builder producing Diag.rerror values - hclrs::Error with EVERY field the renderer reads - and,
   from them, the text hclrs writes on standard error for a user's file.  Definitions only;
   executable and extractable.

   check_full / eval_full / build_program_full are SpanBuild.check_sp / eval_sp / build_program_sp
   (same control flow, same spans, same order) with the remaining fields of each Error filled as
   src/ast.rs and src/program.rs fill them:
     MismatchedExprWidths(left, wl, right, wr)      wl, wr = the widths get_width_and_check found for
                                                    the two operands (for "e in {..}": of e and the item)
     MismatchedMuxWidths(options, all_widths)       all_widths: the width of the VALUE of every option,
                                                    in order (pushed for each option before the error can
                                                    be raised: as many widths as options)
     MismatchedWireWidths(name, w, expr, we)        w = the declared width, we = the width of the expression
     MismatchedRegisterDefaultWidths{..}            register_width = the declared width, expression_width =
                                                    the width of the VALUE evaluate() produced
     InvalidBitIndex(expr, high)                    the upper index
     DoubleAssignedFixedOutWire / RedeclaredBuiltinWire {fixed_name}
                                                    fixed_to_component_name[name]: the name of the LAST
                                                    component of the table that has the wire
     PartialFixedInput{name, found_inputs, missing_inputs}   the component's name; its inputs that are /
                                                    are not assigned, in the component's order
     WireLoop(cycle)                                the cycle the sorter found
     UndeclaredWireRead / UndeclaredWireAssigned {close_name}
   close_name = find_close_names_in(target, names): the LAST name, in the order in which `names` is
   iterated, that equals the target ignoring ASCII case.  `names` is the key set of a HashMap
   (get_width_and_check: the widths map; evaluate: the values map; constants: constants_raw;
   UndeclaredWireAssigned: the widths map, or else the constants map), so when several names qualify
   the choice follows the hash order of that run.  The model takes the keys in INSERTION order and a
   parameter [korder : list string -> list string] (meant to be a permutation: the iteration order
   of that key set) and answers the last qualifying name of [korder keys].  With at most one
   qualifying name the answer does not depend on korder (FullDiagProofs.close_name_unique).

   A diagnostic of the model that stands for a Rust panic or for fuel exhaustion (Panicked,
   OutOfFuel: unreachable for the compiled component table, FrontTotalProofs) has no Error value:
   [FInternal].  (The real program would catch the panic and report InternalParserErrorNear at the
   lexer's last location.)

   [serr_of] maps a full diagnostic to SpanBuild's (kind, names, spans): kind by [rkind], names as
   the hook error_lines prints them, spans = Diag.hook_spans.  FullDiagProofs: mapping serr_of over
   the answer of check_full / eval_full / build_program_full gives exactly the answer of check_sp /
   eval_sp / build_program_sp.

   front_errors / front_stderr: what internal_parse_y86_hcl (src/lib.rs) reports for
   preamble ++ user's bytes, as far as the model front end goes:
     - a lexical error: the lexer's error alone - provided the tokens before it consist of complete
       statements without diagnostic production followed by an unfinished statement of a form that
       has reduced no production yet ([silent_prefix]; the real parser reports, before the lexical
       error, the diagnostics of the productions it had already reduced); otherwise None;
     - the grammar's own diagnostics (ParseDiag.all_diags), in push order;
     - the diagnostics of Program::new (build_program_full), in the model's insertion order - the real
       program lists those of one pass in hash order: compare as a MULTISET of error blocks (each
       block = one render_one);
     - accepted: no diagnostic, empty text;
     - None: the text needs the LR error recovery (not modelled), or the model reports an internal
       error.
   The text: Diag.render_all against new_from_data preamble user file_name. *)
From HclV Require Import Base Expr Machine Graph Build Yo Region Lexer Parser SpanParser SpanBuild ParseDiag Diag.
Open Scope string_scope.
Open Scope list_scope.
Open Scope N_scope.

(* ---- full diagnostics ------------------------------------------------------------------------ *)
Inductive ferr :=
| FE (e : rerror)
| FInternal (k : ekind) (names : list string).

Inductive fres (A : Type) :=
| FOk (a : A)
| FErr (es : list ferr).
Arguments FOk {A} a.
Arguments FErr {A} es.

Definition ferr1 {A} (e : rerror) : fres A := FErr [FE e].

Definition fbind {A B} (r : fres A) (k : A -> fres B) : fres B :=
  match r with FOk a => k a | FErr es => FErr es end.

Notation "'dof' x <- r ; k" := (fbind r (fun x => k))
  (at level 200, x name, r at level 100, k at level 200, right associativity).

Definition finternal (e : err) : ferr := FInternal (ek e) (enames e).
Definition flift {A} (r : result A) : fres A :=
  match r with Ok a => FOk a | Err es => FErr (map finternal es) end.

(* the variant, as Base.ekind.  The variants only the lexer / parser / loader produce and Base.ekind
   does not have are mapped to Panicked (never used: the builder does not produce them) *)
Definition rkind (e : rerror) : ekind :=
  match e with
  | RMismatchedMuxWidths _ _ => MismatchedMuxWidths
  | RMismatchedExprWidths _ _ _ _ => MismatchedExprWidths
  | RMismatchedWireWidths _ _ _ _ => MismatchedWireWidths
  | RMismatchedRegisterDefaultWidths _ _ _ _ _ => MismatchedRegisterDefaultWidths
  | RDuplicateRegister _ _ => DuplicateRegister
  | RRuntimeMismatchedWidths => RuntimeMismatchedWidths
  | RDivisionByZero => DivisionByZero
  | RUndeclaredWireAssigned _ _ _ => UndeclaredWireAssigned
  | RUndeclaredWireRead _ _ _ => UndeclaredWireRead
  | RNonConstantWireRead _ _ => NonConstantWireRead
  | RUnsetWire _ _ => UnsetWire
  | RUnsetBuiltinWire _ => UnsetBuiltinWire
  | RUnsetUndeclaredWire _ => UnsetUndeclaredWire
  | RUnsetRegisterInputWire _ _ => UnsetRegisterInputWire
  | RRedeclaredWire _ _ _ => RedeclaredWire
  | RDoubleAssignedWire _ _ _ => DoubleAssignedWire
  | RDoubleAssignedRegisterWire _ _ _ => DoubleAssignedRegisterWire
  | RDoubleDeclaredRegisterOutWire _ _ _ => DoubleDeclaredRegisterOutWire
  | RDoubleAssignedFixedOutWire _ _ _ => DoubleAssignedFixedOutWire
  | RConstantAssigned _ _ _ => ConstantAssigned
  | RRedeclaredBuiltinWire _ _ _ => RedeclaredBuiltinWire
  | RPartialFixedInput _ _ _ => PartialFixedInput
  | RWireLoop _ => WireLoop
  | RInvalidWireWidth _ => InvalidWireWidth
  | RInvalidRegisterBankName _ _ => InvalidRegisterBankName
  | RInvalidBitIndex _ _ => InvalidBitIndex
  | RNonBooleanWidth _ => NonBooleanWidth
  | RNoBitWidth _ => NoBitWidth
  | RMisorderedBitIndexes _ => MisorderedBitIndexes
  | RInvalidConstant _ => InvalidConstant
  | RWireTooWide _ => WireTooWide
  | RUnterminatedComment _ => UnterminatedComment
  | RLexicalError _ => LexicalError
  | RNoMuxDefaultOption _ => NoMuxDefaultOption
  | RMultipleMuxDefaultOption _ => MultipleMuxDefaultOption
  | RUnreachableOptions _ => UnreachableOptions
  | REmptyFile => EmptyFile
  | RUnparseableLine _ => UnparseableLine
  | RExpectedStatementFoundExpr _ | RInternalParserErrorNear _ _ | RMissingWireWidth _
  | RWireAssignedInDeclaration _ | RMissingRegisterWidth _ | RAddedConstWidth _ | RMissingAssignmentMux _
  | RRegisterDeclaredWithWire _ | RInvalidToken _ | RUnrecognizedToken _ _ | RExtraToken _
  | RIoError | RFmtError => Panicked
  end.

(* the names the hook verif_hooks::error_lines prints *)
Definition rnames (e : rerror) : list string :=
  match e with
  | RMismatchedWireWidths name _ _ _ => [name]
  | RMismatchedRegisterDefaultWidths bank reg _ _ _ | RDuplicateRegister bank reg => [bank; reg]
  | RUndeclaredWireAssigned name _ _ | RUndeclaredWireRead name _ _ | RNonConstantWireRead name _
  | RUnsetWire name _ | RUnsetBuiltinWire name | RUnsetUndeclaredWire name | RUnsetRegisterInputWire name _
  | RRedeclaredWire name _ _ | RDoubleAssignedWire name _ _ | RDoubleAssignedRegisterWire name _ _
  | RDoubleDeclaredRegisterOutWire name _ _ | RDoubleAssignedFixedOutWire name _ _
  | RConstantAssigned name _ _ | RRedeclaredBuiltinWire name _ _ | RInvalidRegisterBankName name _ => [name]
  | RPartialFixedInput _ found missing => found ++ ["/"] ++ missing
  | RWireLoop lst => lst
  | _ => []
  end.

Definition serr_of (d : ferr) : serr :=
  match d with
  | FE e => mkSErr (rkind e) (rnames e) (hook_spans e)
  | FInternal k names => mkSErr k names []
  end.

Definition sres_of {A} (r : fres A) : sresult A :=
  match r with FOk a => SOk a | FErr es => SErr (map serr_of es) end.

(* ---- find_close_names_in ------------------------------------------------------------------------ *)
Definition ascii_lower_byte (c : ascii) : N :=
  let n := N_of_ascii c in if (65 <=? n) && (n <=? 90) then n + 32 else n.

(* str::eq_ignore_ascii_case *)
Fixpoint eq_ignore_ascii_case (a b : string) : bool :=
  match a, b with
  | EmptyString, EmptyString => true
  | String x a', String y b' => (ascii_lower_byte x =? ascii_lower_byte y) && eq_ignore_ascii_case a' b'
  | _, _ => false
  end.

Fixpoint last_opt {A} (l : list A) : option A :=
  match l with
  | [] => None
  | [x] => Some x
  | _ :: r => last_opt r
  end.

Definition close_candidates (target : string) (keys : list string) : list string :=
  filter (eq_ignore_ascii_case target) keys.

Section Full.
  (* the iteration order of a HashMap's keys, given the keys in insertion order *)
  Variable korder : list string -> list string.

  Definition find_close_name (target : string) (keys : list string) : option string :=
    last_opt (close_candidates target (korder keys)).

  (* ---- SpannedExpr::get_width_and_check ----------------------------------------------------------- *)
  Definition combine_exprs_full (l r : sexpr) (a b : width) : fres width :=
    match wcombine a b with
    | Some w => FOk w
    | None => ferr1 (RMismatchedExprWidths (espan l) a (espan r) b)
    end.

  Section CheckFull.
    Variable f : features.
    Variable G : string -> option width.       (* `widths` *)
    Variable keys : list string.               (* its keys, in insertion order *)
    Variable C : string -> option wval.        (* `constants` *)

    Fixpoint check_full (e : sexpr) : fres width :=
      match e with
      | SEConst _ v => FOk (wd v)
      | SEBin _ op l r =>
          match kind op with
          | EqualWidth =>
              dof wl <- check_full l; dof wr <- check_full r; combine_exprs_full l r wl wr
          | EqualWidthWeak =>
              if f_swb f then
                dof wl <- check_full l; dof wr <- check_full r; combine_exprs_full l r wl wr
              else
                dof wl <- check_full l; dof wr <- check_full r; FOk (wmax wl wr)
          | BooleanCombine =>
              if f_sbo f then
                dof wl <- check_full l;
                if negb (possibly_boolean wl) then ferr1 (RNonBooleanWidth (espan l)) else
                dof wr <- check_full r;
                if negb (possibly_boolean wr) then ferr1 (RNonBooleanWidth (espan r)) else
                FOk (Bits 1)
              else
                dof _ <- check_full l; dof _ <- check_full r; FOk (Bits 1)
          | BooleanFromEqualWidth =>
              dof wl <- check_full l; dof wr <- check_full r;
              dof _ <- combine_exprs_full l r wl wr;
              FOk (Bits 1)
          end
      | SEMux sp a =>
          dof r <- check_arms_full a (mkMS (Some Unl) false false false) [];
          let st := fst r in
          if f_rmd f && negb (ms_seen st) then ferr1 (RNoMuxDefaultOption sp)
          else if f_dmd f && ms_twice st then ferr1 (RMultipleMuxDefaultOption sp)
          else if f_duo f && ms_unreach st then ferr1 (RUnreachableOptions sp)
          else match ms_width st with
               | Some w => FOk w
               | None => ferr1 (RMismatchedMuxWidths (arm_value_spans a) (snd r))
               end
      | SEUn _ Not e1 => dof _ <- check_full e1; FOk (Bits 1)
      | SEUn _ _ e1 => check_full e1
      | SEWire sp n =>
          match G n with
          | Some w => FOk w
          | None => ferr1 (RUndeclaredWireRead n sp (find_close_name n keys))
          end
      | SESlice sp e1 lo hi =>
          if hi <? lo then ferr1 (RMisorderedBitIndexes sp) else
          dof w <- check_full e1;
          match w with
          | Bits iw => if iw <? hi then ferr1 (RInvalidBitIndex sp hi) else FOk (Bits (hi - lo))
          | Unl => FOk (Bits (hi - lo))
          end
      | SECat sp l r =>
          dof wl <- check_full l;
          match wl with
          | Bits lw =>
              dof wr <- check_full r;
              match wr with
              | Bits rw => if lw + rw <=? 128 then FOk (Bits (lw + rw)) else ferr1 (RWireTooWide sp)
              | Unl => ferr1 (RNoBitWidth (espan r))
              end
          | Unl => ferr1 (RNoBitWidth (espan l))
          end
      | SEIn _ e1 items =>
          dof wl <- check_full e1;
          dof errs <- check_items_full e1 wl items;
          match errs with
          | [] => FOk (Bits 1)
          | _ => FErr errs
          end
      end
    (* [ws]: all_widths so far *)
    with check_arms_full (a : sarms) (st : mux_state) (ws : list width) : fres (mux_state * list width) :=
      match a with
      | SANil => FOk (st, ws)
      | SACons c v rest =>
          dof _ <- check_full c;
          let unreach := ms_unreach st || ms_seen st in
          let at_ := always_true f C (erase_expr c) in
          let twice := ms_twice st || (at_ && ms_seen st) in
          let seen := ms_seen st || at_ in
          dof w <- check_full v;
          let mw := match ms_width st with
                    | Some cur => wcombine cur w
                    | None => None
                    end in
          check_arms_full rest (mkMS mw seen twice unreach) (ws ++ [w])
      end
    with check_items_full (left : sexpr) (wl : width) (items : sexprs) : fres (list ferr) :=
      match items with
      | SXNil => FOk []
      | SXCons e1 rest =>
          dof wi <- check_full e1;
          dof more <- check_items_full left wl rest;
          match wcombine wl wi with
          | Some _ => FOk more
          | None => FOk (FE (RMismatchedExprWidths (espan left) wl (espan e1) wi) :: more)
          end
      end.
  End CheckFull.

  (* ---- SpannedExpr::evaluate ------------------------------------------------------------------------ *)
  Section EvalFull.
    Variable f : features.
    Variable rho : string -> option wval.      (* `wires` *)
    Variable rkeys : list string.              (* its keys *)

    Fixpoint eval_full (e : sexpr) : fres wval :=
      match e with
      | SEConst _ v => FOk v
      | SEBin _ op l r =>
          dof lv <- eval_full l;
          dof rv <- eval_full r;
          match apply f op lv rv with
          | Ok v => FOk v
          | Err es =>
              (* BinOpCode::apply: RuntimeMismatchedWidths() or DivisionByZero() *)
              FErr (map (fun x => match ek x with
                                  | RuntimeMismatchedWidths => FE RRuntimeMismatchedWidths
                                  | DivisionByZero => FE RDivisionByZero
                                  | _ => finternal x
                                  end) es)
          end
      | SEUn _ op e1 =>
          dof v <- eval_full e1;
          FOk (unop_apply op v)
      | SEMux _ a =>
          dof v <- eval_arms_full a;
          FOk (as_width (dynw_arms f rho (erase_arms a) Unl) v)
      | SEWire sp n =>
          match rho n with
          | Some v => FOk v
          | None => ferr1 (RUndeclaredWireRead n sp (find_close_name n rkeys))
          end
      | SESlice _ e1 lo hi =>
          dof v <- eval_full e1;
          FOk (as_width (Bits (hi - lo)) (mkV (shr_or_zero (bits v) lo) Unl))
      | SECat _ l r =>
          dof lv <- eval_full l;
          dof rv <- eval_full r;
          match wd rv with
          | Bits rb =>
              match wd lv with
              | Bits lb =>
                  FOk (as_width (Bits (sat_u8 (lb + rb)))
                                (mkV (N.lor (shl_or_zero (bits lv) rb) (bits rv)) Unl))
              | Unl => ferr1 (RNoBitWidth (espan l))
              end
          | Unl => ferr1 (RNoBitWidth (espan r))
          end
      | SEIn _ e1 items =>
          dof v <- eval_full e1;
          eval_items_full (bits v) items
      end
    with eval_arms_full (a : sarms) : fres wval :=
      match a with
      | SANil => FOk (mkV 0 Unl)
      | SACons c v rest =>
          dof cv <- eval_full c;
          if is_true cv then eval_full v else eval_arms_full rest
      end
    with eval_items_full (x : N) (items : sexprs) : fres wval :=
      match items with
      | SXNil => FOk false_value
      | SXCons e1 rest =>
          dof r <- eval_full e1;
          if x =? bits r then FOk true_value else eval_items_full x rest
      end.
  End EvalFull.

  (* ---- Program::new ------------------------------------------------------------------------------ *)
  Section BuildFull.
    Variable f : features.
    Variable fixed : list fixed_fn.
    Variable is_lower : string -> bool.
    Variable is_upper : string -> bool.

    (* fixed_to_component_name[name]: inserted for every input, then the output, of every component
       in table order; a later insert overwrites *)
    Definition fixed_component (name : string) : string :=
      fold_left (fun acc ff =>
                   if mem_str name (fixed_in_names ff) ||
                      match ff_out ff with Some (o, _) => String.eqb name o | None => false end
                   then ff_name ff else acc) fixed "".

    (* the state is SpanBuild's (sst1 / sst3: the same maps); the diagnostics are collected beside it *)
    Definition cdd_full (s : sst1) (name : string) (span : srcspan) : list ferr :=
      match lookup (ss_decl_spans s) name with
      | Some other => [FE (RRedeclaredWire name span other)]
      | None => if mem_str name (fixed_names fixed)
                then [FE (RRedeclaredBuiltinWire name span (fixed_component name))] else []
      end.

    Definition assign_name_full (s : sst1) (nm : string * srcspan) : list ferr :=
      let '(name, sp) := nm in
      match lookup (ss_assign_spans s) name with
      | Some other => [FE (RDoubleAssignedWire name sp other)]
      | None => if mem_str name (fixed_out_names fixed)
                then [FE (RDoubleAssignedFixedOutWire name sp (fixed_component name))] else []
      end.

    Definition step1_const_full (acc : sst1 * list ferr) (d : sconst_decl) : sst1 * list ferr :=
      let '(s, es) := acc in
      (step1_const_sp fixed s d, es ++ cdd_full s (fst (fst d)) (snd (fst d))).

    Definition step1_wire_full (acc : sst1 * list ferr) (d : swire_decl) : sst1 * list ferr :=
      let '(s, es) := acc in
      (step1_wire_sp fixed s d, es ++ cdd_full s (fst (fst d)) (snd d)).

    Definition step1_assign_name_full (e : sexpr) (acc : sst1 * list ferr) (nm : string * srcspan)
      : sst1 * list ferr :=
      let '(s, es) := acc in
      (step1_assign_name_sp fixed e s nm, es ++ assign_name_full s nm).

    Definition step1_full (acc : sst1 * list ferr) (x : sstmt) : sst1 * list ferr :=
      match x with
      | SSConst decls => fold_left step1_const_full decls acc
      | SSWire decls => fold_left step1_wire_full decls acc
      | SSAssign assigns =>
          fold_left (fun a1 (a : sassign) =>
                       fold_left (step1_assign_name_full (snd (fst a))) (fst (fst a)) a1) assigns acc
      | SSBank _ _ _ _ => (step1_sp fixed (fst acc) x, snd acc)
      end.

    Definition const_assigned_full (s : sst1) : list ferr :=
      flat_map (fun ns : string * srcspan =>
                  if has (ss_consts s) (fst ns)
                  then [FE (RConstantAssigned (fst ns) (snd ns) (unwrap_span (lookup (ss_decl_spans s) (fst ns))))]
                  else []) (ss_assign_spans s).

    (* close_name: find_close_names_in(in_name, constants_raw.keys()) *)
    Definition const_ref_full (s : sst1) : list ferr :=
      flat_map (fun ne : string * sexpr =>
        let e := snd ne in
        flat_map (fun r =>
          let is_const := has (ss_consts s) r in
          if has (ss_wires s) r && negb is_const
          then map (fun sp => FE (RNonConstantWireRead r sp)) (ref_spans r e)
          else if negb is_const
          then map (fun sp => FE (RUndeclaredWireRead r sp (find_close_name r (map fst (ss_consts s)))))
                   (ref_spans r e)
          else []) (nodup_str (refs (erase_expr e)))) (ss_consts s).

    (* resolve_constants: `widths` and `results` have the constants resolved so far as keys *)
    Fixpoint eval_consts_full (consts : list (string * sexpr)) (order : list string)
             (vals : list (string * wval)) (errs : list ferr) : list (string * wval) * list ferr :=
      match order with
      | [] => (vals, errs)
      | n :: r =>
          match lookup consts n with
          | None => (vals, errs ++ [FInternal Panicked [n]])
          | Some e =>
              match check_full f (fun k => match lookup vals k with Some v => Some (wd v) | None => None end)
                               (map fst vals) (lookup vals) e with
              | FErr es => eval_consts_full consts r vals (errs ++ es)
              | FOk _ =>
                  match eval_full f (lookup vals) (map fst vals) e with
                  | FOk v => eval_consts_full consts r (upd vals n v) errs
                  | FErr es => eval_consts_full consts r vals (errs ++ es)
                  end
              end
          end
      end.

    Definition resolve_constants_full (consts : list (string * sexpr)) : fres (list (string * wval)) :=
      dof r <- flift (toposort string String.eqb (const_graph (amap erase_expr consts)));
      match r with
      | inl order =>
          let '(vals, errs) := eval_consts_full consts order [] [] in
          match errs with [] => FOk vals | _ => FErr errs end
      | inr cyc => ferr1 (RWireLoop cyc)
      end.

    (* the diagnostics step3_register_sp adds for one register *)
    Definition register_errors_full (s : sst1) (consts : list (string * wval)) (bank_name inp outp : string)
               (acc : sst3 * list (string * string * width) * list (string * wval)) (r : sreg_decl) : list ferr :=
      let '(t, sigs, defaults) := acc in
      let '(rname, w, dflt, rsp) := r in
      let in_name := (inp ++ "_" ++ rname)%string in
      let out_name := (outp ++ "_" ++ rname)%string in
      let e_redecl := flat_map (fun n => match lookup (ss_decl_spans s) n with
                                         | Some other => [FE (RRedeclaredWire n rsp other)]
                                         | None => []
                                         end) [in_name; out_name] in
      let e_nonconst := flat_map (fun rf =>
                          if has (ss_wires s) rf && negb (has consts rf)
                          then map (fun sp => FE (RNonConstantWireRead rf sp)) (ref_spans rf dflt) else [])
                          (nodup_str (refs (erase_expr dflt))) in
      let e_dup := if has defaults out_name then [FE (RDuplicateRegister bank_name rname)] else [] in
      let e_assigned := if has (ss_assigns s) out_name
                        then [FE (RDoubleAssignedRegisterWire out_name rsp
                                    (unwrap_span (lookup (ss_assign_spans s) out_name)))]
                        else [] in
      let e_out := match lookup (st_seen t) out_name with
                   | Some old => [FE (RDoubleDeclaredRegisterOutWire out_name old rsp)]
                   | None => []
                   end in
      let seen1 := add_first (st_seen t) out_name rsp in
      let e_in := match lookup seen1 in_name with
                  | Some old => [FE (RDoubleDeclaredRegisterOutWire in_name old rsp)]
                  | None => []
                  end in
      let pre := e_redecl ++ e_nonconst ++ e_dup ++ e_assigned ++ e_out ++ e_in in
      match pre with
      | _ :: _ => pre
      | [] =>
          (* get_width_and_check(&constant_widths, &constants), evaluate(&constants) *)
          match check_full f (fun k => match lookup consts k with Some v => Some (wd v) | None => None end)
                           (map fst consts) (lookup consts) dflt with
          | FErr es => es
          | FOk _ =>
              match eval_full f (lookup consts) (map fst consts) dflt with
              | FOk v =>
                  match wcombine (wd v) w with
                  | None => [FE (RMismatchedRegisterDefaultWidths bank_name rname w (espan dflt) (wd v))]
                  | Some _ => []
                  end
              | FErr es => es
              end
          end
      end.

    Definition step3_register_full (s : sst1) (consts : list (string * wval)) (bank_name inp outp : string)
               (acc : (sst3 * list (string * string * width) * list (string * wval)) * list ferr) (r : sreg_decl)
      : (sst3 * list (string * string * width) * list (string * wval)) * list ferr :=
      (step3_register_sp f s consts bank_name inp outp (fst acc) r,
       snd acc ++ register_errors_full s consts bank_name inp outp (fst acc) r).

    (* the diagnostics step3_bank_sp adds for one bank *)
    Definition bank_errors_full (s : sst1) (consts : list (string * wval)) (t : sst3) (b : sbank_decl) : list ferr :=
      let '(name, nsp, regs) := b in
      match utf8_chars name "" with
      | [inp; outp] =>
          if negb (is_lower inp) || negb (is_upper outp)
          then [FE (RInvalidRegisterBankName name nsp)]
          else
            let stall := ("stall_" ++ outp)%string in
            let bubble := ("bubble_" ++ outp)%string in
            let dfl := (if has (ss_assigns s) stall then [] else [stall]) ++
                       (if has (ss_assigns s) bubble then [] else [bubble]) in
            let e_special := flat_map (fun n => match lookup (ss_decl_spans s) n with
                                                | Some other => [FE (RRedeclaredWire n nsp other)]
                                                | None => []
                                                end) [stall; bubble] in
            let t1 := mkSSt3 (st_banks t) (fold_left (fun l x => add_set x l) dfl (st_defaulted t))
                             (upd (upd (st_types t) stall TRegisterBankSpecial) bubble TRegisterBankSpecial)
                             (st_seen t) (st_in_spans t) (st_errs t ++ map serr_of e_special) in
            e_special ++ snd (fold_left (step3_register_full s consts name inp outp) regs ((t1, [], []), []))
      | _ => [FE (RInvalidRegisterBankName name nsp)]
      end.

    Definition step3_bank_full (s : sst1) (consts : list (string * wval)) (acc : sst3 * list ferr) (b : sbank_decl)
      : sst3 * list ferr :=
      (step3_bank_sp f is_lower is_upper s consts (fst acc) b, snd acc ++ bank_errors_full s consts (fst acc) b).

    Definition unset_full (s : sst1) (t : sst3) (needed : list string) : list ferr :=
      flat_map (fun n =>
        if has (ss_assigns s) n then []
        else match lookup (ss_decl_spans s) n with
             | Some sp => [FE (RUnsetWire n sp)]
             | None =>
                 match lookup (st_in_spans t) n with
                 | Some sp => [FE (RUnsetRegisterInputWire n sp)]
                 | None => [FE (RUnsetBuiltinWire n)]
                 end
             end) needed.

    (* preprocess_fixed: the diagnostics Build.preprocess_one adds for one component *)
    Definition preprocess_errors_full (consts : list (string * wval)) (assigns : list (string * expr))
               (g : graph string) (ff : fixed_fn) : list ferr :=
      let missing := filter (fun n => negb (has assigns n)) (fixed_in_names ff) in
      let included := filter (fun n => has assigns n) (fixed_in_names ff) in
      let e_missing := map (fun n => FE (RUnsetBuiltinWire n)) missing in
      match missing with
      | [] => []
      | _ :: _ =>
          if ff_mandatory ff then e_missing
          else
            let e1 := match ff_out ff with
                      | Some (o, _) => if graph_has_node g o then e_missing else []
                      | None => []
                      end in
            let e2 :=
              if (List.length missing =? List.length (ff_ins ff))%nat then []
              else
                let disabled :=
                  match ff_enable ff with
                  | Some en =>
                      match lookup assigns en with
                      | Some ee => match eval f (lookup consts) ee with
                                   | Ok v => negb (is_true v)
                                   | Err _ => false
                                   end
                      | None => false
                      end
                  | None => false
                  end in
                if disabled then [] else [FE (RPartialFixedInput (ff_name ff) included missing)] in
            e1 ++ e2
      end.

    Definition preprocess_one_full (consts : list (string * wval)) (assigns : list (string * expr))
               (acc : (graph string * list (string * fixed_fn) * list fixed_fn * list err) * list ferr) (ff : fixed_fn)
      : (graph string * list (string * fixed_fn) * list fixed_fn * list err) * list ferr :=
      (preprocess_one f consts assigns (fst acc) ff,
       snd acc ++ preprocess_errors_full consts assigns (fst (fst (fst (fst acc)))) ff).

    (* close_name of UndeclaredWireAssigned:
       find_close_names_in(name, widths.keys()).or_else(|| find_close_names_in(name, constants.keys())) *)
    Definition assigned_close_name (widths : list (string * width)) (consts : list (string * wval)) (n : string)
      : option string :=
      match find_close_name n (map fst widths) with
      | Some c => Some c
      | None => find_close_name n (map fst consts)
      end.

    Fixpoint schedule_full (widths : list (string * width)) (consts : list (string * wval))
             (assigns : list (string * sexpr)) (assign_spans : list (string * srcspan))
             (by_out : list (string * fixed_fn)) (decl_spans : list (string * srcspan))
             (order : list string) (acts : list action) (errs : list ferr) (undeclared : list string)
      : list action * list ferr * list string :=
      match order with
      | [] => (acts, errs, undeclared)
      | n :: r =>
          match lookup assigns n with
          | Some e =>
              match lookup widths n with
              | Some w =>
                  match check_full f (lookup widths) (map fst widths) (lookup consts) e with
                  | FOk we =>
                      let e1 := match wcombine w we with
                                | None => [FE (RMismatchedWireWidths n w (espan e) we)]
                                | Some _ => []
                                end in
                      schedule_full widths consts assigns assign_spans by_out decl_spans r
                                    (acts ++ [AAssign n (erase_expr e) w]) (errs ++ e1) undeclared
                  | FErr es =>
                      schedule_full widths consts assigns assign_spans by_out decl_spans r acts (errs ++ es) undeclared
                  end
              | None =>
                  schedule_full widths consts assigns assign_spans by_out decl_spans r acts
                                (errs ++ [FE (RUndeclaredWireAssigned n (unwrap_span (lookup assign_spans n))
                                                                      (assigned_close_name widths consts n))])
                                undeclared
              end
          | None =>
              match lookup by_out n with
              | Some ff =>
                  schedule_full widths consts assigns assign_spans by_out decl_spans r (acts ++ [ff_action ff]) errs undeclared
              | None =>
                  match lookup decl_spans n with
                  | Some sp =>
                      schedule_full widths consts assigns assign_spans by_out decl_spans r acts
                                    (errs ++ [FE (RUnsetWire n sp)]) undeclared
                  | None =>
                      schedule_full widths consts assigns assign_spans by_out decl_spans r acts errs (add_set n undeclared)
                  end
              end
          end
      end.

    Definition assignments_to_actions_full (widths : list (string * width)) (consts : list (string * wval))
               (assigns : list (string * sexpr)) (assign_spans : list (string * srcspan))
               (known : list string) (decl_spans : list (string * srcspan))
      : fres (list action) :=
      let plain := amap erase_expr assigns in
      let g0 := assign_graph plain known in
      let '((g, by_out, no_out, _), errs0) :=
        fold_left (preprocess_one_full consts plain) fixed ((g0, [], [], []), []) in
      match errs0 with
      | _ :: _ => FErr errs0
      | [] =>
          dof r <- flift (toposort string String.eqb g);
          match r with
          | inr cyc => ferr1 (RWireLoop cyc)
          | inl order =>
              let '(acts, errs, undeclared) :=
                schedule_full widths consts assigns assign_spans by_out decl_spans order [] [] [] in
              let errs1 := errs ++ map (fun n => FE (RUnsetUndeclaredWire n)) undeclared in
              match errs1 with
              | _ :: _ => FErr errs1
              | [] => FOk (acts ++ map ff_action no_out)
              end
          end
      end.

    Definition build_program_full (stmts : list sstmt) : fres program :=
      let '(s, es1) := fold_left step1_full stmts (init1_sp fixed, []) in
      let errs1 := es1 ++ const_assigned_full s ++ const_ref_full s in
      match errs1 with
      | _ :: _ => FErr errs1
      | [] =>
          dof consts <- resolve_constants_full (ss_consts s);
          let '(t, es3) := fold_left (step3_bank_full s consts) (ss_banks s) (mkSSt3 [] [] (ss_types s) [] [] [], []) in
          let widths1 := fold_left (fun m nw => upd m (fst nw) (snd nw)) (bank_wires (st_banks t)) (ss_wires s) in
          let known_banks := all_out_names (st_banks t) in
          let needed := fold_left (fun l x => add_set x l) (all_in_names (st_banks t)) (ss_needed s) in
          let errs4 := es3 ++ unset_full s t needed in
          let widths := fold_left (fun m nv => upd m (fst nv) (wd (snd nv))) consts widths1 in
          let known := known_banks ++ st_defaulted t ++ map fst consts in
          match errs4 with
          | _ :: _ => FErr errs4
          | [] =>
              dof acts <- assignments_to_actions_full widths consts (ss_assigns s) (ss_assign_spans s) known
                                                      (ss_decl_spans s);
              FOk (mkProgram consts acts (st_banks t) (st_defaulted t) (st_types t))
          end
      end.
  End BuildFull.
End Full.

(* ---- the parser's own diagnostics ------------------------------------------------------------------ *)
Definition rerror_of_pdiag (d : pdiag) : rerror :=
  match fst d with
  | KMissingWireWidth => RMissingWireWidth (snd d)
  | KWireAssignedInDeclaration => RWireAssignedInDeclaration (snd d)
  | KAddedConstWidth => RAddedConstWidth (snd d)
  | KMissingAssignmentMux => RMissingAssignmentMux (snd d)
  | KMissingRegisterWidth => RMissingRegisterWidth (snd d)
  | KRegisterDeclaredWithWire => RRegisterDeclaredWithWire (snd d)
  | KInvalidWireWidth => RInvalidWireWidth (snd d)
  | KInvalidConstant => RInvalidConstant (snd d)
  | KExpectedStatementFoundExpr => RExpectedStatementFoundExpr (snd d)
  end.

Definition parse_errors_full (r : dresult) : list rerror := map rerror_of_pdiag (all_diags r).

(* ---- the lexer's error -------------------------------------------------------------------------- *)
Definition rerror_of_lex (e : lex_error) : rerror :=
  match e with
  | LexLexicalError loc => RLexicalError loc
  | LexUnterminatedComment loc => RUnterminatedComment loc
  | LexInvalidConstant s e => RInvalidConstant (s, e)
  end.

(* The tokens before a lexical error.  The real parser has, when the lexer fails, reduced the
   productions that end before the last token (a production is reduced when the token after it is
   read), and reports the diagnostics they pushed before the lexical error.  [silent_prefix] is a
   sufficient condition for "none was pushed and no syntax error came first": complete statements of
   the language proper (SpanParser: no diagnostic production), each with its ";", followed by an
   unfinished statement of one of the forms
       (nothing)   ID "=" ... ID "="   wire   wire ID   wire ID ":"   wire ID ":" W
       const   const ID   const ID "="   register   register ID   register ID "{"
   in which no production has been reduced yet. *)
Definition tail_silent (toks : list tok) : bool :=
  match map tk toks with
  | [] => true
  | [TWire] | [TWire; TIdentifier _] | [TWire; TIdentifier _; TColon] | [TWire; TIdentifier _; TColon; TLit _] => true
  | [TConst] | [TConst; TIdentifier _] | [TConst; TIdentifier _; TAssign] => true
  | [TRegister] | [TRegister; TIdentifier _] | [TRegister; TIdentifier _; TOpenBrace] => true
  | _ =>
      (* (ID "=")+ *)
      (fix targets (l : list token) : bool :=
         match l with
         | [TIdentifier _; TAssign] => true
         | TIdentifier _ :: TAssign :: r => targets r
         | _ => false
         end) (map tk toks)
  end.

Fixpoint silent_prefix (tiers : list tier) (fuel : nat) (toks : list tok) : bool :=
  match fuel with
  | O => false
  | S f =>
      match toks with
      | [] => true
      | t :: toks1 =>
          if token_eqb (tk t) TSemicolon then silent_prefix tiers f toks1
          else
            match parse_statement_sp tiers (20 * S (List.length toks)) toks with
            | Some (_, NoSemi, rest) => silent_prefix tiers f rest
            | Some (_, NeedSemi, t2 :: rest) =>
                if token_eqb (tk t2) TSemicolon then silent_prefix tiers f rest else tail_silent toks
            | _ => tail_silent toks
            end
      end
  end.

(* ---- the front end: the diagnostics of preamble ++ user ------------------------------------------ *)
Definition all_external (es : list ferr) : option (list rerror) :=
  map_option (fun d => match d with FE e => Some e | FInternal _ _ => None end) es.

Section Front.
  Variable korder : list string -> list string.
  Variable uclass_of : N -> uclass.
  Variable tiers : list tier.
  Variable f : features.
  Variable fixed : list fixed_fn.
  Variable is_lower : string -> bool.
  Variable is_upper : string -> bool.

  (* Some []: accepted; Some (e :: ..): rejected with these errors; None: not modelled *)
  Definition front_errors (bytes : list N) : option (list rerror) :=
    match lex uclass_of bytes with
    | (toks, Some err) =>
        if silent_prefix tiers (S (List.length toks)) toks then Some [rerror_of_lex err] else None
    | (toks, None) =>
        match parse_sp tiers toks with
        | Some stmts =>
            match build_program_full korder f fixed is_lower is_upper stmts with
            | FOk _ => Some []
            | FErr es => match all_external es with Some [] => None | r => r end
            end
        | None =>
            match parse_diag tiers toks with
            | Some r => match parse_errors_full r with [] => None | es => Some es end
            | None => None
            end
        end
    end.

  (* the text on standard error for the user's file [user] named [fname], after the preamble [pre] *)
  Definition front_stderr_with (pre fname user : list N) : option string :=
    match front_errors (pre ++ user) with
    | None => None
    | Some es => render_all uclass_of (new_from_data pre user fname) es
    end.
End Front.

(* hclrs: the compiled preamble *)
Definition front_stderr (korder : list string -> list string) (uclass_of : N -> uclass) (tiers : list tier)
           (f : features) (fixed : list fixed_fn) (is_lower is_upper : string -> bool)
           (preamble : string) (fname user : list N) : option string :=
  front_stderr_with korder uclass_of tiers f fixed is_lower is_upper (str_bytes preamble) fname user.
