(* Lemmas for SpanBuildProofs: association lists, and the step-by-step proof that forgetting the
   spans turns check_sp / eval_sp / build_program_sp into Expr.check / Expr.eval / Build.build_program. *)
From HclV Require Import Base Expr Machine Graph Build Lexer Parser SpanParser SpanBuild.
Open Scope string_scope.
Open Scope list_scope.
Open Scope N_scope.

(* ---- association lists ------------------------------------------------------------------------ *)
Lemma lookup_amap {A B} (g : A -> B) m k : lookup (amap g m) k = option_map g (lookup m k).
Proof.
  induction m as [|[k' v] m IH]; cbn [amap map lookup fst snd option_map]; [reflexivity|].
  destruct (String.eqb k k'); [reflexivity | exact IH].
Qed.

Lemma has_amap {A B} (g : A -> B) m k : has (amap g m) k = has m k.
Proof. unfold has. rewrite lookup_amap. destruct (lookup m k); reflexivity. Qed.

Lemma upd_amap {A B} (g : A -> B) m k v : upd (amap g m) k (g v) = amap g (upd m k v).
Proof.
  induction m as [|[k' v'] m IH]; cbn [amap map upd fst snd]; [reflexivity|].
  destruct (String.eqb k k'); cbn [map fst snd]; [reflexivity|].
  f_equal. exact IH.
Qed.

Lemma map_fst_amap {A B} (g : A -> B) m : map fst (amap g m) = map fst m.
Proof. unfold amap. rewrite map_map. reflexivity. Qed.

Lemma mem_str_keys {V} (m : list (string * V)) k : mem_str k (map fst m) = has m k.
Proof.
  unfold has. induction m as [|[k' v] m IH]; cbn [map fst mem_str lookup]; [reflexivity|].
  destruct (String.eqb k k'); [reflexivity | exact IH].
Qed.

Lemma has_lookup {V} (m : list (string * V)) k : has m k = match lookup m k with Some _ => true | None => false end.
Proof. reflexivity. Qed.

Lemma map_fst_upd {V} (m : list (string * V)) k v : map fst (upd m k v) = add_set k (map fst m).
Proof.
  unfold add_set. induction m as [|[k' v'] m IH]; cbn [map fst upd mem_str app]; [reflexivity|].
  destruct (String.eqb k k') eqn:E; cbn [orb map fst]; [reflexivity|].
  rewrite IH. destruct (mem_str k (map fst m)); reflexivity.
Qed.

Lemma map_fst_add_first {V} (m : list (string * V)) k v : map fst (add_first m k v) = add_set k (map fst m).
Proof.
  unfold add_first, add_set. rewrite mem_str_keys. destruct (has m k); [reflexivity|].
  rewrite map_app. reflexivity.
Qed.

Lemma lookup_upd {V} (m : list (string * V)) k v n :
  lookup (upd m k v) n = if String.eqb n k then Some v else lookup m n.
Proof.
  induction m as [|[k' v'] m IH]; cbn [upd lookup].
  - destruct (String.eqb n k); reflexivity.
  - destruct (String.eqb k k') eqn:E; cbn [lookup].
    + apply String.eqb_eq in E. subst k'. destruct (String.eqb n k); reflexivity.
    + destruct (String.eqb n k') eqn:E2.
      * apply String.eqb_eq in E2. subst k'.
        destruct (String.eqb n k) eqn:E3; [|reflexivity].
        apply String.eqb_eq in E3. subst k. rewrite String.eqb_refl in E. discriminate.
      * exact IH.
Qed.

Lemma lookup_app {V} (m1 m2 : list (string * V)) n :
  lookup (m1 ++ m2) n = match lookup m1 n with Some v => Some v | None => lookup m2 n end.
Proof.
  induction m1 as [|[k v] m1 IH]; cbn [app lookup]; [reflexivity|].
  destruct (String.eqb n k); [reflexivity | exact IH].
Qed.

Lemma lookup_In {V} (m : list (string * V)) n v : lookup m n = Some v -> In (n, v) m.
Proof.
  induction m as [|[k v'] m IH]; cbn [lookup]; [discriminate|].
  destruct (String.eqb n k) eqn:E.
  - intros H. injection H as <-. apply String.eqb_eq in E. subst k. left. reflexivity.
  - intros H. right. exact (IH H).
Qed.

Lemma lookup_add_first {V} (m : list (string * V)) k v n :
  lookup (add_first m k v) n =
  match lookup m n with Some x => Some x | None => if String.eqb n k then Some v else None end.
Proof.
  unfold add_first, has. destruct (lookup m k) eqn:E.
  - destruct (lookup m n) eqn:E2; [reflexivity|].
    destruct (String.eqb n k) eqn:E3; [|reflexivity].
    apply String.eqb_eq in E3. subst n. rewrite E in E2. discriminate.
  - rewrite lookup_app. cbn [lookup]. destruct (lookup m n); [reflexivity|].
    destruct (String.eqb n k); reflexivity.
Qed.

(* ---- folds ------------------------------------------------------------------------------------- *)
Lemma fold_left_sim {S T X Y} (E : S -> T) (g : X -> Y) (stepS : S -> X -> S) (step : T -> Y -> T) :
  (forall s x, E (stepS s x) = step (E s) (g x)) ->
  forall l s, E (fold_left stepS l s) = fold_left step (map g l) (E s).
Proof.
  intros H l. induction l as [|x l IH]; intros s; cbn [fold_left map]; [reflexivity|].
  rewrite IH, H. reflexivity.
Qed.

Lemma fold_left_ext {S X} (f1 f2 : S -> X -> S) : (forall s x, f1 s x = f2 s x) ->
  forall l s, fold_left f1 l s = fold_left f2 l s.
Proof. intros H l. induction l as [|x l IH]; intros s; cbn [fold_left]; [reflexivity|]. rewrite H. apply IH. Qed.

Lemma flat_map_ext_in {A B} (f1 f2 : A -> list B) l : (forall x, In x l -> f1 x = f2 x) ->
  flat_map f1 l = flat_map f2 l.
Proof.
  induction l as [|x l IH]; intros H; cbn [flat_map]; [reflexivity|].
  rewrite H by (left; reflexivity). rewrite IH; [reflexivity|]. intros y Hy. apply H. right. exact Hy.
Qed.

Lemma map_flat_map {A B C} (g : B -> C) (h : A -> list B) l : map g (flat_map h l) = flat_map (fun x => map g (h x)) l.
Proof. induction l as [|x l IH]; cbn [flat_map map]; [reflexivity|]. rewrite map_app, IH. reflexivity. Qed.

Lemma flat_map_map {A B C} (g : A -> B) (h : B -> list C) l : flat_map h (map g l) = flat_map (fun x => h (g x)) l.
Proof. induction l as [|x l IH]; cbn [flat_map map]; [reflexivity|]. rewrite IH. reflexivity. Qed.

Lemma flat_map_amap {A B C} (g : A -> B) (h : string * B -> list C) m :
  flat_map h (amap g m) = flat_map (fun p => h (fst p, g (snd p))) m.
Proof. unfold amap. apply flat_map_map. Qed.

(* ---- diagnostics ------------------------------------------------------------------------------- *)
Lemma erase_unlocated e : erase_serr (unlocated e) = e.
Proof. destruct e; reflexivity. Qed.

Lemma map_erase_unlocated es : map erase_serr (map unlocated es) = es.
Proof. rewrite map_map. rewrite (map_ext _ (fun x => x)); [apply map_id | exact erase_unlocated]. Qed.

Lemma erase_lift {A} (r : result A) : erase_sresult (lift r) = r.
Proof. destruct r; cbn [lift erase_sresult]; [reflexivity|]. rewrite map_erase_unlocated. reflexivity. Qed.

Lemma map_erase_nil_iff (es : list serr) : map erase_serr es = [] <-> es = [].
Proof. destruct es; cbn [map]; split; intros H; try reflexivity; discriminate. Qed.

(* ---- wire_nodes / refs ------------------------------------------------------------------------- *)
Lemma wire_nodes_refs_all :
  (forall e, map fst (wire_nodes e) = refs (erase_expr e)) /\
  (forall a, map fst (wire_nodes_arms a) = refs_arms (erase_arms a)) /\
  (forall xs, map fst (wire_nodes_items xs) = refs_items (erase_exprs xs)).
Proof.
  apply sexpr_sarms_sexprs_ind; intros; cbn [wire_nodes wire_nodes_arms wire_nodes_items erase_expr erase_arms
    erase_exprs refs refs_arms refs_items map fst]; rewrite ?map_app; congruence.
Qed.

Lemma wire_nodes_refs e : map fst (wire_nodes e) = refs (erase_expr e).
Proof. apply wire_nodes_refs_all. Qed.

Lemma length_filter_count r (l : list (string * srcspan)) :
  List.length (filter (fun p => String.eqb r (fst p)) l) = count_str r (map fst l).
Proof.
  induction l as [|[k v] l IH]; cbn [filter map fst count_str List.length]; [reflexivity|].
  destruct (String.eqb r k); cbn [List.length]; rewrite IH; reflexivity.
Qed.

Lemma erase_serrs_for k r spans : map erase_serr (serrs_for k r spans) = errs_for k r (List.length spans).
Proof.
  unfold serrs_for, errs_for. induction spans as [|sp spans IH]; cbn [map List.length repeat]; [reflexivity|].
  rewrite IH. reflexivity.
Qed.

Lemma erase_ref_errs k r e :
  map erase_serr (serrs_for k r (ref_spans r e)) = errs_for k r (count_str r (refs (erase_expr e))).
Proof.
  rewrite erase_serrs_for. unfold ref_spans. rewrite map_length, length_filter_count, wire_nodes_refs. reflexivity.
Qed.

(* ---- unfolding equations (cbn does not refold the mutual fixpoints) ------------------------------ *)
Section Equations.
  Variable f : features.
  Variable G : string -> option width.
  Variable C : string -> option wval.

  Lemma check_sp_bin sp op l r : check_sp f G C (SEBin sp op l r) =
    match kind op with
    | EqualWidth => dos wl <- check_sp f G C l; dos wr <- check_sp f G C r; combine_exprs_sp l r wl wr
    | EqualWidthWeak =>
        if f_swb f then dos wl <- check_sp f G C l; dos wr <- check_sp f G C r; combine_exprs_sp l r wl wr
        else dos wl <- check_sp f G C l; dos wr <- check_sp f G C r; SOk (wmax wl wr)
    | BooleanCombine =>
        if f_sbo f then
          dos wl <- check_sp f G C l;
          if negb (possibly_boolean wl) then serr1 NonBooleanWidth [] [espan l] else
          dos wr <- check_sp f G C r;
          if negb (possibly_boolean wr) then serr1 NonBooleanWidth [] [espan r] else SOk (Bits 1)
        else dos _ <- check_sp f G C l; dos _ <- check_sp f G C r; SOk (Bits 1)
    | BooleanFromEqualWidth =>
        dos wl <- check_sp f G C l; dos wr <- check_sp f G C r;
        dos _ <- combine_exprs_sp l r wl wr; SOk (Bits 1)
    end.
  Proof. reflexivity. Qed.

  Lemma check_sp_mux sp a : check_sp f G C (SEMux sp a) =
    dos st <- check_arms_sp f G C a (mkMS (Some Unl) false false false);
    if f_rmd f && negb (ms_seen st) then serr1 NoMuxDefaultOption [] [sp]
    else if f_dmd f && ms_twice st then serr1 MultipleMuxDefaultOption [] [sp]
    else if f_duo f && ms_unreach st then serr1 UnreachableOptions [] [sp]
    else match ms_width st with
         | Some w => SOk w
         | None => serr1 MismatchedMuxWidths [] (arm_value_spans a)
         end.
  Proof. reflexivity. Qed.

  Lemma check_sp_un sp op e1 : check_sp f G C (SEUn sp op e1) =
    match op with Not => dos _ <- check_sp f G C e1; SOk (Bits 1) | _ => check_sp f G C e1 end.
  Proof. destruct op; reflexivity. Qed.

  Lemma check_sp_slice sp e1 lo hi : check_sp f G C (SESlice sp e1 lo hi) =
    if hi <? lo then serr1 MisorderedBitIndexes [] [sp] else
    dos w <- check_sp f G C e1;
    match w with
    | Bits iw => if iw <? hi then serr1 InvalidBitIndex [] [sp] else SOk (Bits (hi - lo))
    | Unl => SOk (Bits (hi - lo))
    end.
  Proof. reflexivity. Qed.

  Lemma check_sp_cat sp l r : check_sp f G C (SECat sp l r) =
    dos wl <- check_sp f G C l;
    match wl with
    | Bits lw =>
        dos wr <- check_sp f G C r;
        match wr with
        | Bits rw => if lw + rw <=? 128 then SOk (Bits (lw + rw)) else serr1 WireTooWide [] [sp]
        | Unl => serr1 NoBitWidth [] [espan r]
        end
    | Unl => serr1 NoBitWidth [] [espan l]
    end.
  Proof. reflexivity. Qed.

  Lemma check_sp_in sp e1 items : check_sp f G C (SEIn sp e1 items) =
    dos wl <- check_sp f G C e1;
    dos errs <- check_items_sp f G C e1 wl items;
    match errs with [] => SOk (Bits 1) | _ => SErr errs end.
  Proof. reflexivity. Qed.

  Lemma check_arms_sp_cons c v rest st : check_arms_sp f G C (SACons c v rest) st =
    dos _ <- check_sp f G C c;
    let unreach := ms_unreach st || ms_seen st in
    let at_ := always_true f C (erase_expr c) in
    let twice := ms_twice st || (at_ && ms_seen st) in
    let seen := ms_seen st || at_ in
    dos w <- check_sp f G C v;
    let mw := match ms_width st with Some cur => wcombine cur w | None => None end in
    check_arms_sp f G C rest (mkMS mw seen twice unreach).
  Proof. reflexivity. Qed.

  Lemma check_items_sp_cons left wl e1 rest : check_items_sp f G C left wl (SXCons e1 rest) =
    dos wi <- check_sp f G C e1;
    dos more <- check_items_sp f G C left wl rest;
    match wcombine wl wi with
    | Some _ => SOk more
    | None => SOk (mkSErr MismatchedExprWidths [] [espan left; espan e1] :: more)
    end.
  Proof. reflexivity. Qed.

  Lemma check_bin op l r : check f G C (EBin op l r) =
    match kind op with
    | EqualWidth => do wl <- check f G C l; do wr <- check f G C r; combine_exprs wl wr
    | EqualWidthWeak =>
        if f_swb f then do wl <- check f G C l; do wr <- check f G C r; combine_exprs wl wr
        else do wl <- check f G C l; do wr <- check f G C r; Ok (wmax wl wr)
    | BooleanCombine =>
        if f_sbo f then
          do wl <- check f G C l;
          if negb (possibly_boolean wl) then err1 NonBooleanWidth [] else
          do wr <- check f G C r;
          if negb (possibly_boolean wr) then err1 NonBooleanWidth [] else Ok (Bits 1)
        else do _ <- check f G C l; do _ <- check f G C r; Ok (Bits 1)
    | BooleanFromEqualWidth =>
        do wl <- check f G C l; do wr <- check f G C r;
        do _ <- combine_exprs wl wr; Ok (Bits 1)
    end.
  Proof. reflexivity. Qed.

  Lemma check_mux a : check f G C (EMux a) =
    do st <- check_arms f G C a (mkMS (Some Unl) false false false);
    if f_rmd f && negb (ms_seen st) then err1 NoMuxDefaultOption []
    else if f_dmd f && ms_twice st then err1 MultipleMuxDefaultOption []
    else if f_duo f && ms_unreach st then err1 UnreachableOptions []
    else match ms_width st with Some w => Ok w | None => err1 MismatchedMuxWidths [] end.
  Proof. reflexivity. Qed.

  Lemma check_un op e1 : check f G C (EUn op e1) =
    match op with Not => do _ <- check f G C e1; Ok (Bits 1) | _ => check f G C e1 end.
  Proof. destruct op; reflexivity. Qed.

  Lemma check_slice e1 lo hi : check f G C (ESlice e1 lo hi) =
    if hi <? lo then err1 MisorderedBitIndexes [] else
    do w <- check f G C e1;
    match w with
    | Bits iw => if iw <? hi then err1 InvalidBitIndex [] else Ok (Bits (hi - lo))
    | Unl => Ok (Bits (hi - lo))
    end.
  Proof. reflexivity. Qed.

  Lemma check_cat l r : check f G C (ECat l r) =
    do wl <- check f G C l;
    match wl with
    | Bits lw =>
        do wr <- check f G C r;
        match wr with
        | Bits rw => if lw + rw <=? 128 then Ok (Bits (lw + rw)) else err1 WireTooWide []
        | Unl => err1 NoBitWidth []
        end
    | Unl => err1 NoBitWidth []
    end.
  Proof. reflexivity. Qed.

  Lemma check_in e1 items : check f G C (EIn e1 items) =
    do wl <- check f G C e1;
    do errs <- check_items f G C wl items;
    match errs with [] => Ok (Bits 1) | _ => Err errs end.
  Proof. reflexivity. Qed.

  Lemma check_arms_cons c v rest st : check_arms f G C (ACons c v rest) st =
    do _ <- check f G C c;
    let unreach := ms_unreach st || ms_seen st in
    let at_ := always_true f C c in
    let twice := ms_twice st || (at_ && ms_seen st) in
    let seen := ms_seen st || at_ in
    do w <- check f G C v;
    let mw := match ms_width st with Some cur => wcombine cur w | None => None end in
    check_arms f G C rest (mkMS mw seen twice unreach).
  Proof. reflexivity. Qed.

  Lemma check_items_cons wl e1 rest : check_items f G C wl (XCons e1 rest) =
    do wi <- check f G C e1;
    do more <- check_items f G C wl rest;
    match wcombine wl wi with
    | Some _ => Ok more
    | None => Ok (mkErr MismatchedExprWidths [] :: more)
    end.
  Proof. reflexivity. Qed.

  (* evaluation, in environment C *)
  Lemma eval_sp_bin sp op l r : eval_sp f C (SEBin sp op l r) =
    dos lv <- eval_sp f C l; dos rv <- eval_sp f C r; lift (apply f op lv rv).
  Proof. reflexivity. Qed.
  Lemma eval_sp_un sp op e1 : eval_sp f C (SEUn sp op e1) = dos v <- eval_sp f C e1; SOk (unop_apply op v).
  Proof. reflexivity. Qed.
  Lemma eval_sp_mux sp a : eval_sp f C (SEMux sp a) =
    dos v <- eval_arms_sp f C a; SOk (as_width (dynw_arms f C (erase_arms a) Unl) v).
  Proof. reflexivity. Qed.
  Lemma eval_sp_slice sp e1 lo hi : eval_sp f C (SESlice sp e1 lo hi) =
    dos v <- eval_sp f C e1; SOk (as_width (Bits (hi - lo)) (mkV (shr_or_zero (bits v) lo) Unl)).
  Proof. reflexivity. Qed.
  Lemma eval_sp_cat sp l r : eval_sp f C (SECat sp l r) =
    dos lv <- eval_sp f C l;
    dos rv <- eval_sp f C r;
    match wd rv with
    | Bits rb =>
        match wd lv with
        | Bits lb => SOk (as_width (Bits (sat_u8 (lb + rb))) (mkV (N.lor (shl_or_zero (bits lv) rb) (bits rv)) Unl))
        | Unl => serr1 NoBitWidth [] [espan l]
        end
    | Unl => serr1 NoBitWidth [] [espan r]
    end.
  Proof. reflexivity. Qed.
  Lemma eval_sp_in sp e1 items : eval_sp f C (SEIn sp e1 items) =
    dos v <- eval_sp f C e1; eval_items_sp f C (bits v) items.
  Proof. reflexivity. Qed.
  Lemma eval_arms_sp_cons c v rest : eval_arms_sp f C (SACons c v rest) =
    dos cv <- eval_sp f C c; if is_true cv then eval_sp f C v else eval_arms_sp f C rest.
  Proof. reflexivity. Qed.
  Lemma eval_items_sp_cons x e1 rest : eval_items_sp f C x (SXCons e1 rest) =
    dos r <- eval_sp f C e1; if x =? bits r then SOk true_value else eval_items_sp f C x rest.
  Proof. reflexivity. Qed.

  Lemma eval_bin op l r : eval f C (EBin op l r) = do lv <- eval f C l; do rv <- eval f C r; apply f op lv rv.
  Proof. reflexivity. Qed.
  Lemma eval_un op e1 : eval f C (EUn op e1) = do v <- eval f C e1; Ok (unop_apply op v).
  Proof. reflexivity. Qed.
  Lemma eval_mux a : eval f C (EMux a) = do v <- eval_arms f C a; Ok (as_width (dynw_arms f C a Unl) v).
  Proof. reflexivity. Qed.
  Lemma eval_slice e1 lo hi : eval f C (ESlice e1 lo hi) =
    do v <- eval f C e1; Ok (as_width (Bits (hi - lo)) (mkV (shr_or_zero (bits v) lo) Unl)).
  Proof. reflexivity. Qed.
  Lemma eval_cat l r : eval f C (ECat l r) =
    do lv <- eval f C l;
    do rv <- eval f C r;
    match wd rv with
    | Bits rb =>
        match wd lv with
        | Bits lb => Ok (as_width (Bits (sat_u8 (lb + rb))) (mkV (N.lor (shl_or_zero (bits lv) rb) (bits rv)) Unl))
        | Unl => err1 NoBitWidth []
        end
    | Unl => err1 NoBitWidth []
    end.
  Proof. reflexivity. Qed.
  Lemma eval_in e1 items : eval f C (EIn e1 items) = do v <- eval f C e1; eval_items f C (bits v) items.
  Proof. reflexivity. Qed.
  Lemma eval_arms_cons c v rest : eval_arms f C (ACons c v rest) =
    do cv <- eval f C c; if is_true cv then eval f C v else eval_arms f C rest.
  Proof. reflexivity. Qed.
  Lemma eval_items_cons x e1 rest : eval_items f C x (XCons e1 rest) =
    do r <- eval f C e1; if x =? bits r then Ok true_value else eval_items f C x rest.
  Proof. reflexivity. Qed.
End Equations.

(* ---- check_sp / eval_sp -------------------------------------------------------------------------- *)
Definition erase_items_res (r : sresult (list serr)) : result (list err) :=
  match r with SOk l => Ok (map erase_serr l) | SErr es => Err (map erase_serr es) end.

Section CheckErase.
  Variable f : features.
  Variable G : string -> option width.
  Variable C : string -> option wval.

  Lemma check_sp_erase_all :
    (forall e, erase_sresult (check_sp f G C e) = check f G C (erase_expr e)) /\
    (forall a st, erase_sresult (check_arms_sp f G C a st) = check_arms f G C (erase_arms a) st) /\
    (forall xs left wl, erase_items_res (check_items_sp f G C left wl xs) = check_items f G C wl (erase_exprs xs)).
  Proof.
    apply sexpr_sarms_sexprs_ind.
    - intros sp v. reflexivity.
    - intros sp op l IHl r IHr. rewrite check_sp_bin. change (erase_expr (SEBin sp op l r)) with (EBin op (erase_expr l) (erase_expr r)). rewrite check_bin.
      rewrite <- IHl, <- IHr.
      destruct (kind op).
      + destruct (f_sbo f).
        * destruct (check_sp f G C l) as [wl|el]; cbn [sbind erase_sresult bind]; [|reflexivity].
          destruct (negb (possibly_boolean wl)); [reflexivity|].
          destruct (check_sp f G C r) as [wr|er]; cbn [sbind erase_sresult bind]; [|reflexivity].
          destruct (negb (possibly_boolean wr)); reflexivity.
        * destruct (check_sp f G C l) as [wl|el]; cbn [sbind erase_sresult bind]; [|reflexivity].
          destruct (check_sp f G C r) as [wr|er]; reflexivity.
      + destruct (check_sp f G C l) as [wl|el]; cbn [sbind erase_sresult bind]; [|reflexivity].
        destruct (check_sp f G C r) as [wr|er]; cbn [sbind erase_sresult bind]; [|reflexivity].
        unfold combine_exprs_sp, combine_exprs. destruct (wcombine wl wr); reflexivity.
      + destruct (check_sp f G C l) as [wl|el]; cbn [sbind erase_sresult bind]; [|reflexivity].
        destruct (check_sp f G C r) as [wr|er]; cbn [sbind erase_sresult bind]; [|reflexivity].
        unfold combine_exprs_sp, combine_exprs. destruct (wcombine wl wr); reflexivity.
      + destruct (f_swb f).
        * destruct (check_sp f G C l) as [wl|el]; cbn [sbind erase_sresult bind]; [|reflexivity].
          destruct (check_sp f G C r) as [wr|er]; cbn [sbind erase_sresult bind]; [|reflexivity].
          unfold combine_exprs_sp, combine_exprs. destruct (wcombine wl wr); reflexivity.
        * destruct (check_sp f G C l) as [wl|el]; cbn [sbind erase_sresult bind]; [|reflexivity].
          destruct (check_sp f G C r) as [wr|er]; reflexivity.
    - intros sp op e IH. rewrite check_sp_un. change (erase_expr (SEUn sp op e)) with (EUn op (erase_expr e)). rewrite check_un. rewrite <- IH.
      destruct op; try reflexivity.
      destruct (check_sp f G C e); reflexivity.
    - intros sp a IH. rewrite check_sp_mux. change (erase_expr (SEMux sp a)) with (EMux (erase_arms a)). rewrite check_mux. rewrite <- IH.
      destruct (check_arms_sp f G C a (mkMS (Some Unl) false false false)) as [st|es]; cbn [sbind erase_sresult bind]; [|reflexivity].
      destruct (f_rmd f && negb (ms_seen st)); [reflexivity|].
      destruct (f_dmd f && ms_twice st); [reflexivity|].
      destruct (f_duo f && ms_unreach st); [reflexivity|].
      destruct (ms_width st); reflexivity.
    - intros sp n. change (erase_expr (SEWire sp n)) with (EWire n). cbn [check_sp check]. destruct (G n); reflexivity.
    - intros sp e IH lo hi. rewrite check_sp_slice. change (erase_expr (SESlice sp e lo hi)) with (ESlice (erase_expr e) lo hi). rewrite check_slice. rewrite <- IH.
      destruct (hi <? lo); [reflexivity|].
      destruct (check_sp f G C e) as [w|es]; cbn [sbind erase_sresult bind]; [|reflexivity].
      destruct w as [iw|]; [|reflexivity]. destruct (iw <? hi); reflexivity.
    - intros sp l IHl r IHr. rewrite check_sp_cat. change (erase_expr (SECat sp l r)) with (ECat (erase_expr l) (erase_expr r)). rewrite check_cat. rewrite <- IHl, <- IHr.
      destruct (check_sp f G C l) as [wl|el]; cbn [sbind erase_sresult bind]; [|reflexivity].
      destruct wl as [lw|]; [|reflexivity].
      destruct (check_sp f G C r) as [wr|er]; cbn [sbind erase_sresult bind]; [|reflexivity].
      destruct wr as [rw|]; [|reflexivity]. destruct (lw + rw <=? 128); reflexivity.
    - intros sp e IHe items IHi. rewrite check_sp_in. change (erase_expr (SEIn sp e items)) with (EIn (erase_expr e) (erase_exprs items)). rewrite check_in. rewrite <- IHe.
      destruct (check_sp f G C e) as [wl|el]; cbn [sbind erase_sresult bind]; [|reflexivity].
      rewrite <- (IHi e wl).
      destruct (check_items_sp f G C e wl items) as [errs|es]; cbn [sbind erase_items_res erase_sresult bind]; [|reflexivity].
      destruct errs; reflexivity.
    - intros st. reflexivity.
    - intros c IHc v IHv rest IHr st. rewrite check_arms_sp_cons. change (erase_arms (SACons c v rest)) with (ACons (erase_expr c) (erase_expr v) (erase_arms rest)). rewrite check_arms_cons. cbv zeta. rewrite <- IHc, <- IHv.
      destruct (check_sp f G C c) as [wc|ec]; cbn [sbind erase_sresult bind]; [|reflexivity].
      destruct (check_sp f G C v) as [wv|ev]; cbn [sbind erase_sresult bind]; [|reflexivity].
      apply IHr.
    - intros left wl. reflexivity.
    - intros e IHe rest IHr left wl. rewrite check_items_sp_cons. change (erase_exprs (SXCons e rest)) with (XCons (erase_expr e) (erase_exprs rest)). rewrite check_items_cons. rewrite <- IHe.
      destruct (check_sp f G C e) as [wi|ei]; cbn [sbind erase_items_res erase_sresult bind]; [|reflexivity].
      rewrite <- (IHr left wl).
      destruct (check_items_sp f G C left wl rest) as [more|es]; cbn [sbind erase_items_res bind]; [|reflexivity].
      destruct (wcombine wl wi); reflexivity.
  Qed.

  Lemma check_sp_erase e : erase_sresult (check_sp f G C e) = check f G C (erase_expr e).
  Proof. apply check_sp_erase_all. Qed.
End CheckErase.

Section EvalErase.
  Variable f : features.
  Variable rho : string -> option wval.

  Lemma eval_sp_erase_all :
    (forall e, erase_sresult (eval_sp f rho e) = eval f rho (erase_expr e)) /\
    (forall a, erase_sresult (eval_arms_sp f rho a) = eval_arms f rho (erase_arms a)) /\
    (forall xs x, erase_sresult (eval_items_sp f rho x xs) = eval_items f rho x (erase_exprs xs)).
  Proof.
    apply sexpr_sarms_sexprs_ind.
    - intros sp v. reflexivity.
    - intros sp op l IHl r IHr. rewrite eval_sp_bin. change (erase_expr (SEBin sp op l r)) with (EBin op (erase_expr l) (erase_expr r)). rewrite eval_bin. rewrite <- IHl, <- IHr.
      destruct (eval_sp f rho l) as [lv|el]; cbn [sbind erase_sresult bind]; [|reflexivity].
      destruct (eval_sp f rho r) as [rv|er]; cbn [sbind erase_sresult bind]; [|reflexivity].
      apply erase_lift.
    - intros sp op e IH. rewrite eval_sp_un. change (erase_expr (SEUn sp op e)) with (EUn op (erase_expr e)). rewrite eval_un. rewrite <- IH.
      destruct (eval_sp f rho e); reflexivity.
    - intros sp a IH. rewrite eval_sp_mux. change (erase_expr (SEMux sp a)) with (EMux (erase_arms a)). rewrite eval_mux. rewrite <- IH.
      destruct (eval_arms_sp f rho a); reflexivity.
    - intros sp n. change (erase_expr (SEWire sp n)) with (EWire n). cbn [eval_sp eval]. destruct (rho n); reflexivity.
    - intros sp e IH lo hi. rewrite eval_sp_slice. change (erase_expr (SESlice sp e lo hi)) with (ESlice (erase_expr e) lo hi). rewrite eval_slice. rewrite <- IH.
      destruct (eval_sp f rho e); reflexivity.
    - intros sp l IHl r IHr. rewrite eval_sp_cat. change (erase_expr (SECat sp l r)) with (ECat (erase_expr l) (erase_expr r)). rewrite eval_cat. rewrite <- IHl, <- IHr.
      destruct (eval_sp f rho l) as [lv|el]; cbn [sbind erase_sresult bind]; [|reflexivity].
      destruct (eval_sp f rho r) as [rv|er]; cbn [sbind erase_sresult bind]; [|reflexivity].
      destruct (wd rv); [|reflexivity]. destruct (wd lv); reflexivity.
    - intros sp e IHe items IHi. rewrite eval_sp_in. change (erase_expr (SEIn sp e items)) with (EIn (erase_expr e) (erase_exprs items)). rewrite eval_in. rewrite <- IHe.
      destruct (eval_sp f rho e) as [v|es]; cbn [sbind erase_sresult bind]; [|reflexivity].
      apply IHi.
    - reflexivity.
    - intros c IHc v IHv rest IHr. rewrite eval_arms_sp_cons. change (erase_arms (SACons c v rest)) with (ACons (erase_expr c) (erase_expr v) (erase_arms rest)). rewrite eval_arms_cons. rewrite <- IHc.
      destruct (eval_sp f rho c) as [cv|ec]; cbn [sbind erase_sresult bind]; [|reflexivity].
      destruct (is_true cv); [exact IHv | exact IHr].
    - intros x. reflexivity.
    - intros e IHe rest IHr x. rewrite eval_items_sp_cons. change (erase_exprs (SXCons e rest)) with (XCons (erase_expr e) (erase_exprs rest)). rewrite eval_items_cons. rewrite <- IHe.
      destruct (eval_sp f rho e) as [rv|er]; cbn [sbind erase_sresult bind]; [|reflexivity].
      destruct (x =? bits rv); [reflexivity | apply IHr].
  Qed.

  Lemma eval_sp_erase e : erase_sresult (eval_sp f rho e) = eval f rho (erase_expr e).
  Proof. apply eval_sp_erase_all. Qed.
End EvalErase.

(* ---- build_program_sp ----------------------------------------------------------------------------- *)
Definition erase_bank_decl (b : sbank_decl) : string * list (string * width * expr) :=
  (fst (fst b), map erase_reg_decl (snd b)).

Section BuildErase.
  Variable f : features.
  Variable fixed : list fixed_fn.
  Variable is_lower : string -> bool.
  Variable is_upper : string -> bool.

  Definition erase_st1 (s : sst1) : st1 :=
    mkSt1 (ss_wires s) (map fst (ss_decl_spans s)) (amap erase_expr (ss_assigns s))
          (map fst (ss_assign_spans s)) (ss_needed s) (amap erase_expr (ss_consts s))
          (map erase_bank_decl (ss_banks s)) (ss_types s) (map erase_serr (ss_errs s)).

  Lemma cdd_erase s name sp :
    map erase_serr (check_double_declare_sp fixed s name sp) = check_double_declare fixed (erase_st1 s) name.
  Proof.
    unfold check_double_declare_sp, check_double_declare. cbn [erase_st1 s_decls].
    rewrite mem_str_keys, has_lookup. destruct (lookup (ss_decl_spans s) name); [reflexivity|].
    destruct (mem_str name (fixed_names fixed)); reflexivity.
  Qed.

  Lemma step1_const_erase s d :
    erase_st1 (step1_const_sp fixed s d) = step1_const fixed (erase_st1 s) (erase_const_decl d).
  Proof.
    destruct d as [[name nsp] e]. unfold step1_const_sp, step1_const, erase_const_decl.
    cbn [fst snd]. unfold erase_st1 at 1.
    cbn [ss_wires ss_decl_spans ss_assigns ss_assign_spans ss_needed ss_consts ss_banks ss_types ss_errs].
    rewrite map_app, cdd_erase, map_fst_upd, <- upd_amap. reflexivity.
  Qed.

  Lemma step1_wire_erase s d :
    erase_st1 (step1_wire_sp fixed s d) = step1_wire fixed (erase_st1 s) (erase_wire_decl d).
  Proof.
    destruct d as [[name w] sp]. unfold step1_wire_sp, step1_wire, erase_wire_decl.
    cbn [fst snd]. unfold erase_st1 at 1.
    cbn [ss_wires ss_decl_spans ss_assigns ss_assign_spans ss_needed ss_consts ss_banks ss_types ss_errs].
    rewrite map_app, cdd_erase, map_fst_upd. reflexivity.
  Qed.

  Lemma step1_assign_name_erase e s nm :
    erase_st1 (step1_assign_name_sp fixed e s nm) = step1_assign_name fixed (erase_expr e) (erase_st1 s) (fst nm).
  Proof.
    destruct nm as [name sp]. unfold step1_assign_name_sp, step1_assign_name. cbn [fst].
    unfold erase_st1 at 1.
    cbn [ss_wires ss_decl_spans ss_assigns ss_assign_spans ss_needed ss_consts ss_banks ss_types ss_errs].
    rewrite map_app, map_fst_upd, <- upd_amap. cbn [erase_st1 s_assigned].
    rewrite mem_str_keys, has_lookup.
    destruct (lookup (ss_assign_spans s) name); [reflexivity|].
    destruct (mem_str name (fixed_out_names fixed)); reflexivity.
  Qed.

  Lemma step1_erase s x : erase_st1 (step1_sp fixed s x) = step1 fixed (erase_st1 s) (erase_stmt x).
  Proof.
    destruct x as [decls|decls|assigns|name nsp regs sp]; cbn [step1_sp erase_stmt step1].
    - apply fold_left_sim. intros; apply step1_const_erase.
    - apply fold_left_sim. intros; apply step1_wire_erase.
    - apply (fold_left_sim erase_st1 erase_assign). intros s1 a.
      destruct a as [[names e] asp]. unfold erase_assign. cbn [fst snd].
      apply (fold_left_sim erase_st1 fst). intros; apply step1_assign_name_erase.
    - unfold erase_st1. cbn [ss_wires ss_decl_spans ss_assigns ss_assign_spans ss_needed ss_consts ss_banks ss_types ss_errs
                              s_wires s_decls s_assigns s_assigned s_needed s_consts s_banks s_types s_errs].
      rewrite map_app. reflexivity.
  Qed.

  Lemma init1_erase : erase_st1 (init1_sp fixed) = init1 fixed.
  Proof. reflexivity. Qed.

  Lemma steps1_erase stmts s :
    erase_st1 (fold_left (step1_sp fixed) stmts s) = fold_left (step1 fixed) (map erase_stmt stmts) (erase_st1 s).
  Proof. apply fold_left_sim. intros; apply step1_erase. Qed.

  Lemma const_assigned_erase s :
    map erase_serr (const_assigned_errors_sp s) = const_assigned_errors (erase_st1 s).
  Proof.
    unfold const_assigned_errors_sp, const_assigned_errors. cbn [erase_st1 s_assigned s_consts].
    rewrite map_flat_map, flat_map_map. apply flat_map_ext_in. intros [n sp] _. cbn [fst snd].
    rewrite has_amap. destruct (has (ss_consts s) n); reflexivity.
  Qed.

  Lemma const_ref_erase s :
    map erase_serr (const_ref_errors_sp s) = const_ref_errors (erase_st1 s).
  Proof.
    unfold const_ref_errors_sp, const_ref_errors. cbn [erase_st1 s_consts s_wires].
    rewrite map_flat_map, flat_map_amap. apply flat_map_ext_in. intros [n e] _. cbn [fst snd].
    rewrite map_flat_map. apply flat_map_ext_in. intros r _.
    rewrite has_amap.
    destruct (has (ss_wires s) r && negb (has (ss_consts s) r)); [apply erase_ref_errs|].
    destruct (negb (has (ss_consts s) r)); [apply erase_ref_errs | reflexivity].
  Qed.

  (* step 2 *)
  Lemma eval_consts_erase consts : forall order vals errs,
    (let '(v, es) := eval_consts_sp f consts order vals errs in (v, map erase_serr es)) =
    eval_consts f (amap erase_expr consts) order vals (map erase_serr errs).
  Proof.
    induction order as [|n r IH]; intros vals errs; cbn [eval_consts_sp eval_consts]; [reflexivity|].
    rewrite lookup_amap. destruct (lookup consts n) as [e|]; cbn [option_map].
    - rewrite <- check_sp_erase, <- eval_sp_erase.
      destruct (check_sp f _ _ e) as [w|es]; cbn [erase_sresult].
      + destruct (eval_sp f (lookup vals) e) as [v|es]; cbn [erase_sresult].
        * apply IH.
        * rewrite IH, map_app. reflexivity.
      + rewrite IH, map_app. reflexivity.
    - rewrite map_app. reflexivity.
  Qed.

  Lemma resolve_constants_erase consts :
    erase_sresult (resolve_constants_sp f consts) = resolve_constants f (amap erase_expr consts).
  Proof.
    unfold resolve_constants_sp, resolve_constants.
    destruct (toposort string String.eqb (const_graph (amap erase_expr consts))) as [[order|cyc]|es];
      cbn [lift sbind bind erase_sresult].
    - pose proof (eval_consts_erase consts order [] []) as H. cbn [map] in H.
      destruct (eval_consts_sp f consts order [] []) as [vals errs].
      rewrite <- H. destruct errs; reflexivity.
    - reflexivity.
    - rewrite map_erase_unlocated. reflexivity.
  Qed.

  (* step 3 *)
  Definition erase_st3 (t : sst3) : st3 :=
    mkSt3 (st_banks t) (st_defaulted t) (st_types t) (map fst (st_seen t)) (map fst (st_in_spans t))
          (map erase_serr (st_errs t)).

  Lemma redecl_erase (s : sst1) sp0 names :
    map erase_serr (flat_map (fun n => match lookup (ss_decl_spans s) n with
                                       | Some other => [mkSErr RedeclaredWire [n] [sp0; other]]
                                       | None => []
                                       end) names) =
    flat_map (fun n => if mem_str n (s_decls (erase_st1 s)) then [mkErr RedeclaredWire [n]] else []) names.
  Proof.
    rewrite map_flat_map. apply flat_map_ext_in. intros n _. cbn [erase_st1 s_decls].
    rewrite mem_str_keys, has_lookup. destruct (lookup (ss_decl_spans s) n); reflexivity.
  Qed.

  Lemma step3_register_erase s consts bname inp outp t sigs defaults r :
    (let '(t', sg, df) := step3_register_sp f s consts bname inp outp (t, sigs, defaults) r in (erase_st3 t', sg, df)) =
    step3_register f (erase_st1 s) consts bname inp outp (erase_st3 t, sigs, defaults) (erase_reg_decl r).
  Proof.
    destruct r as [[[rname w] dflt] rsp]. unfold erase_reg_decl. cbn [fst snd].
    unfold step3_register_sp, step3_register.
    set (in_name := (inp ++ "_" ++ rname)%string). set (out_name := (outp ++ "_" ++ rname)%string).
    cbn [erase_st3 t_seen t_types t_banks t_defaulted t_in_spans t_errs].
    pose proof (redecl_erase s rsp [in_name; out_name]) as Hre.
    set (e_redecl := flat_map _ [in_name; out_name]) in Hre |- *.
    set (e_redecl' := flat_map _ [in_name; out_name]) in Hre |- *.
    set (e_nonconst := flat_map _ (nodup_str (refs (erase_expr dflt)))).
    set (e_nonconst' := flat_map _ (nodup_str (refs (erase_expr dflt)))).
    assert (Hnc : map erase_serr e_nonconst = e_nonconst').
    { unfold e_nonconst, e_nonconst'. rewrite map_flat_map. apply flat_map_ext_in. intros rf _.
      cbn [erase_st1 s_wires].
      destruct (has (ss_wires s) rf && negb (has consts rf)); [apply erase_ref_errs | reflexivity]. }
    set (e_dup := if has defaults out_name then _ else _).
    set (e_dup' := if has defaults out_name then _ else _).
    assert (Hdup : map erase_serr e_dup = e_dup').
    { unfold e_dup, e_dup'. destruct (has defaults out_name); reflexivity. }
    set (e_asg := if has (ss_assigns s) out_name then _ else _).
    set (e_asg' := if has (s_assigns (erase_st1 s)) out_name then _ else _).
    assert (Hasg : map erase_serr e_asg = e_asg').
    { unfold e_asg, e_asg'. cbn [erase_st1 s_assigns]. rewrite has_amap.
      destruct (has (ss_assigns s) out_name); reflexivity. }
    set (e_out := match lookup (st_seen t) out_name with Some _ => _ | None => _ end).
    set (e_out' := if mem_str out_name (map fst (st_seen t)) then _ else _).
    assert (Hout : map erase_serr e_out = e_out').
    { unfold e_out, e_out'. rewrite mem_str_keys, has_lookup. destruct (lookup (st_seen t) out_name); reflexivity. }
    set (seen1 := add_first (st_seen t) out_name rsp).
    set (e_in := match lookup seen1 in_name with Some _ => _ | None => _ end).
    rewrite <- (map_fst_add_first (st_seen t) out_name rsp). fold seen1.
    set (e_in' := if mem_str in_name (map fst seen1) then _ else _).
    assert (Hin : map erase_serr e_in = e_in').
    { unfold e_in, e_in'. rewrite mem_str_keys, has_lookup. destruct (lookup seen1 in_name); reflexivity. }
    rewrite <- (map_fst_add_first seen1 in_name rsp).
    set (seen2 := add_first seen1 in_name rsp).
    set (pre := e_redecl ++ _). set (pre' := e_redecl' ++ _).
    assert (Hpre : map erase_serr pre = pre').
    { unfold pre, pre'. rewrite !map_app, Hre, Hnc, Hdup, Hasg, Hout, Hin. reflexivity. }
    clearbody pre pre'.
    destruct pre as [|p0 pre].
    - cbn [map] in Hpre. subst pre'.
      rewrite <- check_sp_erase, <- eval_sp_erase.
      destruct (check_sp f _ _ dflt) as [wc|es]; cbn [erase_sresult].
      + destruct (eval_sp f (lookup consts) dflt) as [v|es]; cbn [erase_sresult].
        * unfold erase_st3; cbn [st_banks st_defaulted st_types st_seen st_in_spans st_errs].
          rewrite map_app, map_fst_upd. destruct (wcombine (wd v) w); reflexivity.
        * unfold erase_st3; cbn [st_banks st_defaulted st_types st_seen st_in_spans st_errs]. rewrite map_app. reflexivity.
      + unfold erase_st3; cbn [st_banks st_defaulted st_types st_seen st_in_spans st_errs]. rewrite map_app. reflexivity.
    - cbn [map] in Hpre. subst pre'.
      unfold erase_st3; cbn [st_banks st_defaulted st_types st_seen st_in_spans st_errs]. rewrite map_app. reflexivity.
  Qed.

  Lemma step3_registers_erase s consts bname inp outp : forall regs t sigs defaults,
    (let '(t', sg, df) := fold_left (step3_register_sp f s consts bname inp outp) regs (t, sigs, defaults) in
     (erase_st3 t', sg, df)) =
    fold_left (step3_register f (erase_st1 s) consts bname inp outp) (map erase_reg_decl regs) (erase_st3 t, sigs, defaults).
  Proof.
    induction regs as [|r regs IH]; intros t sigs defaults; cbn [fold_left map]; [reflexivity|].
    rewrite <- step3_register_erase.
    destruct (step3_register_sp f s consts bname inp outp (t, sigs, defaults) r) as [[t' sg] df].
    apply IH.
  Qed.

  Lemma step3_bank_erase s consts t b :
    erase_st3 (step3_bank_sp f is_lower is_upper s consts t b) =
    step3_bank f is_lower is_upper (erase_st1 s) consts (erase_st3 t) (erase_bank_decl b).
  Proof.
    destruct b as [[name nsp] regs]. unfold erase_bank_decl. cbn [fst snd].
    unfold step3_bank_sp, step3_bank.
    destruct (utf8_chars name "") as [|inp [|outp [|x l]]];
      try (unfold erase_st3; cbn [st_banks st_defaulted st_types st_seen st_in_spans st_errs];
           rewrite map_app; reflexivity).
    destruct (negb (is_lower inp) || negb (is_upper outp)).
    { unfold erase_st3; cbn [st_banks st_defaulted st_types st_seen st_in_spans st_errs]; rewrite map_app; reflexivity. }
    set (stall := ("stall_" ++ outp)%string). set (bubble := ("bubble_" ++ outp)%string).
    cbn [erase_st1 s_assigns]. rewrite !has_amap.
    change (amap erase_expr (ss_assigns s)) with (s_assigns (erase_st1 s)).
    pose proof (redecl_erase s nsp [stall; bubble]) as Hre.
    set (t1 := mkSSt3 _ _ _ _ _ _).
    set (T1 := mkSt3 _ _ _ _ _ _).
    assert (HT : T1 = erase_st3 t1).
    { unfold T1, t1, erase_st3. cbn [st_banks st_defaulted st_types st_seen st_in_spans st_errs t_banks t_defaulted t_types t_seen t_in_spans t_errs].
      rewrite map_app, Hre. reflexivity. }
    rewrite HT. clearbody t1. clear HT T1.
    pose proof (step3_registers_erase s consts name inp outp regs t1 [] []) as H.
    rewrite <- H.
    destruct (fold_left (step3_register_sp f s consts name inp outp) regs (t1, [], [])) as [[t2 sigs] defaults].
    reflexivity.
  Qed.

  Lemma unset_erase s t needed :
    map erase_serr (unset_errors_sp s t needed) = unset_errors (erase_st1 s) (erase_st3 t) needed.
  Proof.
    unfold unset_errors_sp, unset_errors. rewrite map_flat_map. apply flat_map_ext_in. intros n _.
    cbn [erase_st1 erase_st3 s_assigns s_decls t_in_spans]. rewrite has_amap, !mem_str_keys, !has_lookup.
    destruct (lookup (ss_assigns s) n); [reflexivity|].
    destruct (lookup (ss_decl_spans s) n); [reflexivity|].
    destruct (lookup (st_in_spans t) n); reflexivity.
  Qed.

  (* step 5 *)
  Lemma schedule_erase widths consts assigns aspans by_out dspans : forall order acts errs undeclared,
    (let '(a, es, u) := schedule_sp f widths consts assigns aspans by_out dspans order acts errs undeclared in
     (a, map erase_serr es, u)) =
    schedule f widths consts (amap erase_expr assigns) by_out (map fst dspans) order acts (map erase_serr errs) undeclared.
  Proof.
    induction order as [|n r IH]; intros acts errs undeclared; cbn [schedule_sp schedule]; [reflexivity|].
    rewrite lookup_amap. destruct (lookup assigns n) as [e|]; cbn [option_map].
    - destruct (lookup widths n) as [w|].
      + rewrite <- check_sp_erase.
        destruct (check_sp f (lookup widths) (lookup consts) e) as [we|es]; cbn [erase_sresult].
        * rewrite IH, map_app. destruct (wcombine w we); reflexivity.
        * rewrite IH, map_app. reflexivity.
      + rewrite IH, map_app. reflexivity.
    - destruct (lookup by_out n) as [ff|]; [apply IH|].
      rewrite mem_str_keys, has_lookup. destruct (lookup dspans n) as [sp|].
      + rewrite IH, map_app. reflexivity.
      + apply IH.
  Qed.

  Lemma assignments_to_actions_erase widths consts assigns aspans known dspans :
    erase_sresult (assignments_to_actions_sp f fixed widths consts assigns aspans known dspans) =
    assignments_to_actions f fixed widths consts (amap erase_expr assigns) known (map fst dspans).
  Proof.
    unfold assignments_to_actions_sp, assignments_to_actions.
    destruct (fold_left (preprocess_one f consts (amap erase_expr assigns)) fixed
                        (assign_graph (amap erase_expr assigns) known, [], [], [])) as [[[g by_out] no_out] errs0].
    destruct errs0 as [|e0 errs0].
    - destruct (toposort string String.eqb g) as [[order|cyc]|es]; cbn [lift sbind bind erase_sresult].
      + pose proof (schedule_erase widths consts assigns aspans by_out dspans order [] [] []) as H. cbn [map] in H.
        destruct (schedule_sp f widths consts assigns aspans by_out dspans order [] [] []) as [[acts errs] und].
        rewrite <- H.
        destruct errs as [|e1 errs]; cbn [map app].
        * destruct und; cbn [map erase_sresult]; [reflexivity|]. rewrite map_map. reflexivity.
        * cbn [erase_sresult map app]. rewrite map_app, map_map. reflexivity.
      + reflexivity.
      + rewrite map_erase_unlocated. reflexivity.
    - cbn [erase_sresult]. rewrite map_erase_unlocated. reflexivity.
  Qed.

  Lemma build_program_sp_erase stmts :
    erase_sresult (build_program_sp f fixed is_lower is_upper stmts) =
    build_program f fixed is_lower is_upper (map erase_stmt stmts).
  Proof.
    unfold build_program_sp, build_program.
    rewrite <- init1_erase, <- steps1_erase.
    set (s := fold_left (step1_sp fixed) stmts (init1_sp fixed)).
    rewrite <- const_assigned_erase, <- const_ref_erase.
    change (s_errs (erase_st1 s)) with (map erase_serr (ss_errs s)).
    rewrite <- !map_app.
    destruct (ss_errs s ++ const_assigned_errors_sp s ++ const_ref_errors_sp s) as [|e0 errs1] eqn:E1.
    2:{ reflexivity. }
    cbn [map].
    change (s_consts (erase_st1 s)) with (amap erase_expr (ss_consts s)).
    rewrite <- resolve_constants_erase.
    destruct (resolve_constants_sp f (ss_consts s)) as [consts|es]; cbn [sbind erase_sresult bind]; [|reflexivity].
    change (s_banks (erase_st1 s)) with (map erase_bank_decl (ss_banks s)).
    change (mkSt3 [] [] (s_types (erase_st1 s)) [] [] []) with (erase_st3 (mkSSt3 [] [] (ss_types s) [] [] [])).
    rewrite <- (fold_left_sim erase_st3 erase_bank_decl (step3_bank_sp f is_lower is_upper s consts)
                  (step3_bank f is_lower is_upper (erase_st1 s) consts))
      by (intros; apply step3_bank_erase).
    set (t := fold_left (step3_bank_sp f is_lower is_upper s consts) (ss_banks s) (mkSSt3 [] [] (ss_types s) [] [] [])).
    change (t_banks (erase_st3 t)) with (st_banks t).
    change (t_defaulted (erase_st3 t)) with (st_defaulted t).
    change (t_types (erase_st3 t)) with (st_types t).
    change (t_errs (erase_st3 t)) with (map erase_serr (st_errs t)).
    change (s_needed (erase_st1 s)) with (ss_needed s).
    change (s_wires (erase_st1 s)) with (ss_wires s).
    rewrite <- unset_erase, <- map_app.
    destruct (st_errs t ++ unset_errors_sp s t _) as [|e4 errs4]; [|reflexivity].
    cbn [map].
    change (s_assigns (erase_st1 s)) with (amap erase_expr (ss_assigns s)).
    change (s_decls (erase_st1 s)) with (map fst (ss_decl_spans s)).
    rewrite <- (assignments_to_actions_erase _ _ _ (ss_assign_spans s)).
    destruct (assignments_to_actions_sp f fixed _ consts (ss_assigns s) (ss_assign_spans s) _ (ss_decl_spans s));
      reflexivity.
  Qed.
End BuildErase.
