(* C09, completeness half: "A program with none of these faults and no width or cycle fault is
   accepted."

   [fault_free] is written over the statement list only, in the vocabulary of the property: the
   lists of declared constant / wire names, of assigned names (with multiplicity), the names a
   register bank introduces, the names an expression reads ([refs]), the declarative width
   judgement ([has_width] / [assign_ok] of ExprRules.v), the evaluator on constant expressions,
   and the transitive closure of the "reads" relation.  It never mentions [build_program] or any
   of its phases.  One clause per fault of the property, plus the clauses the builder additionally
   enforces (shape of a bank name, distinctness of bank signal names, mandatory built-ins).

   Statements: [stmt_fault_free_accepted] (any component table with pairwise distinct inputs and
   outputs), [stmt_fault_free_accepted_gen] (the compiled table), and the converse
   [stmt_accepted_fault_free_gen], hence [stmt_accepted_iff_fault_free_gen]: for the compiled
   table [fault_free] is EXACTLY acceptance, so no clause is stronger than what the builder
   enforces.  (Two defects found while proving this - register initial values were never passed to
   the width checker, and reading a stall_X / bubble_X the program leaves unassigned was refused -
   are repaired in the implementation; the clauses below are the natural ones.) *)
From Coq Require Import Relations.
From HclV Require Import Base Expr ExprRules Machine Graph Build BuildSpec Generated.
Open Scope string_scope.
Open Scope list_scope.
Open Scope N_scope.

(* ---- what a program text introduces ------------------------------------------------------- *)
(* wire declarations, with their widths *)
Definition wire_decls (stmts : list stmt) : list (string * width) :=
  flat_map (fun s => match s with SWire d => d | _ => [] end) stmts.

(* assignments, one entry per assigned name:  a = b = e  gives (a, e) and (b, e) *)
Definition assign_exprs (stmts : list stmt) : list (string * expr) :=
  flat_map (fun s => match s with
                     | SAssign a => flat_map (fun ae => map (fun n => (n, snd ae)) (fst ae)) a
                     | _ => []
                     end) stmts.

(* register bank declarations: (bank name, [(register name, width, initial value)]) *)
Definition bank_decls (stmts : list stmt) : list (string * list (string * width * expr)) :=
  flat_map (fun s => match s with SBank n r => [(n, r)] | _ => [] end) stmts.

(* the two characters of a bank name ("xY" gives ("x","Y")); None if it is not two characters *)
Definition bank_letters (name : string) : option (string * string) :=
  match utf8_chars name "" with
  | [i; o] => Some (i, o)
  | _ => None
  end.

(* per register of every bank: (input signal x_name, output signal X_name, width, initial value) *)
Definition bank_regs (stmts : list stmt) : list (string * string * width * expr) :=
  flat_map (fun b => match bank_letters (fst b) with
                     | Some (i, o) =>
                         map (fun r => ((i ++ "_" ++ fst (fst r))%string,
                                        (o ++ "_" ++ fst (fst r))%string, snd (fst r), snd r)) (snd b)
                     | None => []
                     end) (bank_decls stmts).

Definition reg_in (x : string * string * width * expr) : string := fst (fst (fst x)).
Definition reg_out (x : string * string * width * expr) : string := snd (fst (fst x)).
Definition reg_width (x : string * string * width * expr) : width := snd (fst x).
Definition reg_init (x : string * string * width * expr) : expr := snd x.

Definition bank_inputs (stmts : list stmt) : list string := map reg_in (bank_regs stmts).
Definition bank_outputs (stmts : list stmt) : list string := map reg_out (bank_regs stmts).
(* every x_name / X_name, with multiplicity *)
Definition bank_signal_names (stmts : list stmt) : list string :=
  flat_map (fun x => [reg_out x; reg_in x]) (bank_regs stmts).
(* stall_X and bubble_X of every bank *)
Definition bank_specials (stmts : list stmt) : list string :=
  flat_map (fun b => match bank_letters (fst b) with
                     | Some (_, o) => [("stall_" ++ o)%string; ("bubble_" ++ o)%string]
                     | None => []
                     end) (bank_decls stmts).
(* the widths the bank declarations give to these names *)
Definition bank_widths (stmts : list stmt) : list (string * width) :=
  flat_map (fun x => [(reg_out x, reg_width x); (reg_in x, reg_width x)]) (bank_regs stmts) ++
  map (fun n => (n, Bits 1)) (bank_specials stmts).

Section CompleteSpec.
  Variable f : features.
  Variable fixed : list fixed_fn.
  Variable is_lower : string -> bool.
  Variable is_upper : string -> bool.

  Notation build := (build_program f fixed is_lower is_upper).

  (* a built-in component all of whose inputs are assigned (the component is "in use") *)
  Definition inputs_assigned (stmts : list stmt) (ff : fixed_fn) : Prop :=
    forall i, In i (fixed_in_names ff) -> In i (assigned_names stmts).

  (* the width each constant's value has *)
  Definition cwidth (cv : string -> option wval) : string -> option width :=
    fun k => match cv k with Some v => Some (wd v) | None => None end.

  Definition const_widths (cv : string -> option wval) (stmts : list stmt) : list (string * width) :=
    flat_map (fun n => match cv n with Some v => [(n, wd v)] | None => [] end) (const_names stmts).

  (* every (name, width) some declaration gives: the built-in table, wire declarations, register
     banks, constants *)
  Definition declared_widths (cv : string -> option wval) (stmts : list stmt) : list (string * width) :=
    fixed_wires fixed ++ wire_decls stmts ++ bank_widths stmts ++ const_widths cv stmts.

  (* "x is read to compute y" among constants *)
  Definition const_reads (stmts : list stmt) (x y : string) : Prop :=
    exists e, In (y, e) (const_exprs stmts) /\ In x (refs e).

  (* a bank's stall_X / bubble_X that the program does not assign: it is 0 throughout *)
  Definition defaulted (stmts : list stmt) (x : string) : Prop :=
    In x (bank_specials stmts) /\ ~ In x (assigned_names stmts).

  (* "x is read to compute y" within one cycle: y is assigned an expression mentioning x, where x
     is neither a constant nor a register output nor a defaulted control signal (those are known
     when the cycle starts); or y is the output of a built-in component in use and x one of its
     inputs *)
  Definition wire_reads (stmts : list stmt) (x y : string) : Prop :=
    (exists e, In (y, e) (assign_exprs stmts) /\ In x (refs e) /\
               ~ In x (const_names stmts) /\ ~ In x (bank_outputs stmts) /\ ~ defaulted stmts x) \/
    (exists ff w, In ff fixed /\ inputs_assigned stmts ff /\ ff_out ff = Some (y, w) /\
                  In x (fixed_in_names ff)).

  Definition acyclic (R : string -> string -> Prop) : Prop := forall x, ~ clos_trans string R x x.

  (* [cv]: the values of the constants; [G]: the declared width of every name *)
  Record fault_free_with (cv : string -> option wval) (G : string -> option width)
         (stmts : list stmt) : Prop := {
    (* -- declarations -- *)
    (* no name is declared twice *)
    ff_declared_once : NoDup (const_names stmts ++ wire_names stmts);
    (* ... nor redeclares a built-in wire *)
    ff_not_builtin : forall n, In n (const_names stmts ++ wire_names stmts) -> ~ In n (fixed_names fixed);
    (* a bank name is one lower-case then one upper-case character *)
    ff_bank_name : forall b, In b (bank_decls stmts) ->
        exists i o, bank_letters (fst b) = Some (i, o) /\ is_lower i = true /\ is_upper o = true;
    (* the register signals x_name, X_name are pairwise distinct (so: no register twice in a bank,
       no two banks producing the same signal) *)
    ff_bank_signals_distinct : NoDup (bank_signal_names stmts);
    (* ... and, like stall_X / bubble_X, are not declared as constants or wires *)
    ff_bank_signals_undeclared : forall n, In n (bank_signal_names stmts ++ bank_specials stmts) ->
        ~ In n (const_names stmts ++ wire_names stmts);
    (* [G] is the declared width of every name (hence no name has two different widths) *)
    ff_widths : forall n w, G n = Some w <-> In (n, w) (declared_widths cv stmts);

    (* -- constants -- *)
    (* a constant depends on constants only (not on wires, not on undeclared names) *)
    ff_consts_closed : forall n e r, In (n, e) (const_exprs stmts) -> In r (refs e) -> In r (const_names stmts);
    (* no cycle among constants *)
    ff_consts_acyclic : acyclic (const_reads stmts);
    (* [cv] gives a value exactly to the constants ... *)
    ff_cv_domain : forall n, cv n <> None <-> In n (const_names stmts);
    (* ... namely the one its expression evaluates to (in particular: no division by zero) *)
    ff_consts_eval : forall n e, In (n, e) (const_exprs stmts) ->
        exists v, cv n = Some v /\ eval f cv e = Ok v;
    (* no width fault in a constant *)
    ff_consts_width : forall n e, In (n, e) (const_exprs stmts) -> exists w, has_width f (cwidth cv) cv e w;

    (* -- register initial values -- *)
    (* an initial value depends on constants only (not on wires, not on undeclared names) *)
    ff_init_closed : forall x r, In x (bank_regs stmts) -> In r (refs (reg_init x)) -> In r (const_names stmts);
    (* no width fault in an initial value *)
    ff_init_width : forall x, In x (bank_regs stmts) -> exists w, has_width f (cwidth cv) cv (reg_init x) w;
    (* it evaluates (no division by zero) to a value of the register's width, or unsized *)
    ff_init_eval : forall x, In x (bank_regs stmts) ->
        exists v, eval f cv (reg_init x) = Ok v /\ wcombine (wd v) (reg_width x) <> None;

    (* -- assignments -- *)
    (* no name is assigned twice *)
    ff_assigned_once : NoDup (assigned_names stmts);
    (* no assignment to a name that already has a driver: built-in output, constant, register output *)
    ff_no_driver : forall n, In n (assigned_names stmts) ->
        ~ In n (fixed_out_names fixed) /\ ~ In n (const_names stmts) /\ ~ In n (bank_outputs stmts);
    (* no assignment to an undeclared name *)
    ff_assigned_declared : forall n, In n (assigned_names stmts) -> G n <> None;
    (* every declared wire and every register input is assigned *)
    ff_all_driven : forall n, In n (wire_names stmts ++ bank_inputs stmts) -> In n (assigned_names stmts);
    (* the mandatory built-in components (Stat, pc) get all their inputs *)
    ff_mandatory_driven : forall c, In c fixed -> ff_mandatory c = true -> inputs_assigned stmts c;
    (* a built-in component given some but not all of its inputs has its enable input assigned an
       expression that evaluates, from the constants alone, to 0 *)
    ff_partial_disabled : forall c i j, In c fixed -> ff_mandatory c = false ->
        In i (fixed_in_names c) -> In i (assigned_names stmts) ->
        In j (fixed_in_names c) -> ~ In j (assigned_names stmts) ->
        exists en e v, ff_enable c = Some en /\ In (en, e) (assign_exprs stmts) /\
                       eval f cv e = Ok v /\ is_true v = false;
    (* every name an assignment reads has a driver: a constant, a register output, a bank's
       stall_X / bubble_X (assigned or not), an assigned name, or the output of a built-in component
       all of whose inputs are assigned (so: reading a built-in output makes its inputs "needed") *)
    ff_reads_driven : forall y e x, In (y, e) (assign_exprs stmts) -> In x (refs e) ->
        In x (const_names stmts) \/ In x (bank_outputs stmts) \/ In x (bank_specials stmts) \/
        In x (assigned_names stmts) \/
        exists c w, In c fixed /\ ff_out c = Some (x, w) /\ inputs_assigned stmts c;
    (* no width fault: the expression has a width, equal to the declared width of the target or unsized *)
    ff_assign_widths : forall n e w, In (n, e) (assign_exprs stmts) -> G n = Some w -> assign_ok f G cv w e;
    (* no cycle *)
    ff_acyclic : acyclic (wire_reads stmts)
  }.

  Definition fault_free (stmts : list stmt) : Prop := exists cv G, fault_free_with cv G stmts.

  (* what the proof needs of the component table: the inputs of one component are pairwise
     distinct, and so are the outputs of the table (otherwise the dependency graph gets the same
     edge twice and the sorter's edge count is off) *)
  Definition table_distinct : Prop :=
    (forall c, In c fixed -> NoDup (fixed_in_names c)) /\ NoDup (fixed_out_names fixed).

  (* THE STATEMENT: a fault-free program is accepted *)
  Definition stmt_fault_free_accepted : Prop :=
    table_distinct -> forall stmts, fault_free stmts -> exists p, build stmts = Ok p.
End CompleteSpec.

(* for the component table of the compiled implementation, any features and letter classification *)
Definition stmt_fault_free_accepted_gen : Prop :=
  forall f is_lower is_upper stmts,
    fault_free f gen_fixed is_lower is_upper stmts ->
    exists p, build_program f gen_fixed is_lower is_upper stmts = Ok p.

(* THE CONVERSE, for the component table of the compiled implementation: an accepted program is
   fault free; hence acceptance is exactly fault freedom *)
Definition stmt_accepted_fault_free_gen : Prop :=
  forall f is_lower is_upper stmts p,
    build_program f gen_fixed is_lower is_upper stmts = Ok p ->
    fault_free f gen_fixed is_lower is_upper stmts.

Definition stmt_accepted_iff_fault_free_gen : Prop :=
  forall f is_lower is_upper stmts,
    (exists p, build_program f gen_fixed is_lower is_upper stmts = Ok p) <->
    fault_free f gen_fixed is_lower is_upper stmts.
