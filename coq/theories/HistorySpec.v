(* C03 / C04 / C05 at run level: what the register banks, the register file and the memory hold
   after ANY number of cycles of a whole program, as statements about iterated Machine.step.

   A run is the list of machine states s_0, s_1, ..., s_n with s_0 the initial state of the
   program (memory = the loaded image) and step f o p s_i = Ok (s_(i+1), _).  "Cycle i" leads from
   s_i to s_(i+1).  The value a wire holds at the end of cycle i is read in values s_(i+1): the
   clock edge at the end of the cycle rewrites register-bank outputs only, so every other wire
   still shows there the value it settled to during cycle i.

   Statements only; proofs are in HistoryProofs.v. *)
From Coq Require Import List NArith String Ascii.
From HclV Require Import Base Expr ExprSpec Machine MachineSpec MemSpec SchedSpec Build BuildSpec
     Generated Lexer Parser LexParseSpec.
Open Scope string_scope.
Open Scope list_scope.
Open Scope N_scope.

(* ---- the built-in components (ports) ---------------------------------------------------------- *)
Definition port_status : action := ASetStatus "Stat".
Definition port_instr : action := AReadMemory None "pc" "i10bytes" 10 true.
Definition port_mem_read : action := AReadMemory (Some "mem_readbit") "mem_addr" "mem_output" 8 false.
Definition port_mem_write : action := AWriteMemory (Some "mem_writebit") "mem_addr" "mem_input" 8.
Definition port_readA : action := AReadReg "reg_srcA" "reg_outputA".
Definition port_readB : action := AReadReg "reg_srcB" "reg_outputB".
Definition port_writeE : action := AWriteReg "reg_dstE" "reg_inputE".
Definition port_writeM : action := AWriteReg "reg_dstM" "reg_inputM".

Definition table_actions : list action :=
  [port_status; port_instr; port_mem_read; port_mem_write; port_readA; port_readB; port_writeE; port_writeM].
(* the state-changing ones, in table order: E write port before M write port *)
Definition table_effects : list action := [port_status; port_mem_write; port_writeE; port_writeM].
Definition table_wires : list string :=
  ["Stat"; "pc"; "i10bytes"; "mem_addr"; "mem_readbit"; "mem_output"; "mem_addr"; "mem_input";
   "mem_writebit"; "reg_srcA"; "reg_outputA"; "reg_srcB"; "reg_outputB"; "reg_dstE"; "reg_inputE";
   "reg_dstM"; "reg_inputM"].

(* the tie to the code: these ARE the components of the compiled implementation's table *)
Definition stmt_table_is_generated : Prop :=
  map ff_action gen_fixed = table_actions /\
  map ff_action (filter (fun ff => match ff_out ff with None => true | Some _ => false end) gen_fixed)
    = table_effects /\
  fixed_all_names gen_fixed = table_wires.

(* ---- which programs ------------------------------------------------------------------------- *)
(* [uses_table p]: the state-changing actions of p are components of the table, in table order
   (what Program::new guarantees: Props/C01.v C01_state_changes_last_in_table_order), and no wire
   of the table is at the same time a register-bank output *)
Definition ports_not_banked (p : program) : bool :=
  forallb (fun k => negb (mem_str k (all_outs (p_banks p)))) table_wires.
Definition uses_table (p : program) : Prop :=
  subseq (effect_part (p_actions p)) table_effects /\ ports_not_banked p = true.

(* no action drives a register-bank output *)
Definition bank_outputs_undriven (p : program) : bool :=
  forallb (fun a => match written a with
                    | Some k => negb (mem_str k (all_outs (p_banks p)))
                    | None => true
                    end) (p_actions p).

(* which of the optional write ports the program schedules *)
Definition has_mem_write (p : program) : bool :=
  existsb (fun a => match a with AWriteMemory _ _ _ _ => true | _ => false end) (p_actions p).
Definition has_reg_write (dst : string) (p : program) : bool :=
  existsb (fun a => match a with AWriteReg d _ => String.eqb d dst | _ => false end) (p_actions p).

(* for a program that uses the table these tests say exactly that the port is scheduled *)
Definition stmt_port_tests : Prop :=
  forall p, uses_table p ->
    (has_mem_write p = true <-> In port_mem_write (p_actions p)) /\
    (has_reg_write "reg_dstE" p = true <-> In port_writeE (p_actions p)) /\
    (has_reg_write "reg_dstM" p = true <-> In port_writeM (p_actions p)).

(* ---- runs ----------------------------------------------------------------------------------- *)
(* the initial state with the memory image loaded *)
Definition load_image (s : mstate) (img : memory) : mstate :=
  mkState (values s) img (regs s) (last_status s) (cycle s).

(* s_1 ... s_n (shorter if a step fails) and s_0 ... s_n *)
Fixpoint run_posts (n : nat) (f : features) (o : options) (p : program) (s : mstate) : list mstate :=
  match n with
  | O => []
  | S k => match step f o p s with
           | Ok (s', _) => s' :: run_posts k f o p s'
           | Err _ => []
           end
  end.
Definition run_states (n : nat) (f : features) (o : options) (p : program) (s : mstate) : list mstate :=
  s :: run_posts n f o p s.

(* [s] and [s'] are the states at the start and at the end of cycle i *)
Definition cycle_of (states : list mstate) (i : nat) (s s' : mstate) : Prop :=
  nth_error states i = Some s /\ nth_error states (S i) = Some s'.

(* the number a wire shows in a state (0 for a wire without a value) *)
Definition wire (s : mstate) (k : string) : N :=
  match lookup (values s) k with Some v => bits v | None => 0 end.

(* run_states really is the run: n+1 states, consecutive ones related by step, the last one what
   iter_step computes *)
Definition stmt_run_states : Prop :=
  forall n f o p s0 sn,
    iter_step n f o p s0 = Ok sn ->
    List.length (run_states n f o p s0) = S n /\
    nth_error (run_states n f o p s0) O = Some s0 /\
    nth_error (run_states n f o p s0) n = Some sn /\
    (forall i s s', cycle_of (run_states n f o p s0) i s s' -> exists t, step f o p s = Ok (s', t)) /\
    (forall i, (i <= n)%nat ->
       firstn (S i) (run_states n f o p s0) = run_states i f o p s0 /\
       exists si, iter_step i f o p s0 = Ok si).

(* the hypotheses shared by the three histories: a well-typed program (every program Program::new
   accepts is one: Props/C07.v) that uses the table, started in its initial state on a well-formed
   image, n cycles all of which succeed *)
Definition run_of (f : features) (o : options) (G : string -> option width) (p : program)
           (img : memory) (n : nat) (states : list mstate) : Prop :=
  program_ok f G p /\ uses_table p /\ wf_mem img /\
  exists s0 sn,
    initial_state p = Ok s0 /\
    iter_step n f o p (load_image s0 img) = Ok sn /\
    states = run_states n f o p (load_image s0 img).

(* ---- 1. memory history (C05) ---------------------------------------------------------------- *)
(* the write a cycle performs, read off the wire values at its end: none unless the write port is
   scheduled and mem_writebit is non-zero *)
Definition mem_write_of (p : program) (s' : mstate) : list (N * N) :=
  if has_mem_write p && (0 <? wire s' "mem_writebit")
  then [(wire s' "mem_addr", wire s' "mem_input")] else [].
(* the writes of the cycles ending in the given states, oldest first *)
Definition mem_writes (p : program) (posts : list mstate) : list (N * N) := flat_map (mem_write_of p) posts.

(* the byte at address x after the 8-byte writes ws (oldest first) on top of the image: the most
   recent write covering x wins, else the image, else 0 (MemSpec.awrite: byte j of value d goes to
   (a + j) mod 2^64) *)
Definition byte_after (img : memory) (ws : list (N * N)) (x : N) : N :=
  match fold_left (fun g aw => awrite g (fst aw) (snd aw) 8) ws (mem_get img) x with
  | Some v => v
  | None => 0
  end.

(* byte_after, unfolded: "the most recent write to each byte, else the loaded image" *)
Definition stmt_byte_after_unfold : Prop :=
  forall img ws a d x,
    byte_after img [] x = byte_at img x /\
    byte_after img (ws ++ [(a, d)]) x =
      match offset_of a x 8 with
      | Some j => (d / 256 ^ j) mod 256
      | None => byte_after img ws x
      end.

(* little-endian value of the n bytes g(a), g(a+1), ... (addresses wrap at 2^64) *)
Definition le_bytes (g : N -> N) (a : N) (n : nat) : N := le_sum (fun j => g ((a + j) mod two64)) n.

Definition stmt_memory_history : Prop :=
  forall f o G p img n states,
    run_of f o G p img n states ->
    (* the memory at the start of cycle i (i = n: the final memory) is the image with the writes
       of the cycles before i applied in order; the address and data wires are 64 bits wide *)
    (forall i si, nth_error states i = Some si ->
       wf_mem (mem si) /\
       Forall (fun aw => fst aw < two64 /\ snd aw < two64) (mem_writes p (firstn i (tl states))) /\
       forall x, x < two64 ->
         byte_at (mem si) x = byte_after img (mem_writes p (firstn i (tl states))) x) /\
    (forall i si si', cycle_of states i si si' ->
       (* a cycle changes the memory by its own write, at its end, and by nothing else *)
       mem si' = fold_left (fun m aw => mem_write m (fst aw) (snd aw) 8) (mem_write_of p si') (mem si) /\
       (* the data read port: the 8 bytes at mem_addr as they were at the START of the cycle,
          i.e. with the writes of the earlier cycles and without the write of this one; 0 when
          mem_readbit is 0 *)
       (In port_mem_read (p_actions p) ->
          lookup (values si') "mem_output" =
          Some (mkV (if 0 <? wire si' "mem_readbit"
                     then le_bytes (byte_at (mem si)) (wire si' "mem_addr") 8 else 0) (Bits 64)) /\
          le_bytes (byte_at (mem si)) (wire si' "mem_addr") 8 =
          le_bytes (byte_after img (mem_writes p (firstn i (tl states)))) (wire si' "mem_addr") 8) /\
       (* the instruction port: the 10 bytes at pc, likewise *)
       (In port_instr (p_actions p) ->
          lookup (values si') "i10bytes" =
          Some (mkV (le_bytes (byte_at (mem si)) (wire si' "pc") 10) (Bits 80)) /\
          le_bytes (byte_at (mem si)) (wire si' "pc") 10 =
          le_bytes (byte_after img (mem_writes p (firstn i (tl states)))) (wire si' "pc") 10)).

(* ---- 2. register file history (C04) ---------------------------------------------------------- *)
(* the register writes of a cycle, read off the wire values at its end: E port, then M port *)
Definition reg_writes_of (p : program) (s' : mstate) : list (N * N) :=
  (if has_reg_write "reg_dstE" p then [(wire s' "reg_dstE", wire s' "reg_inputE")] else []) ++
  (if has_reg_write "reg_dstM" p then [(wire s' "reg_dstM", wire s' "reg_inputM")] else []).
Definition reg_writes (p : program) (posts : list mstate) : list (N * N) := flat_map (reg_writes_of p) posts.

Definition rf_apply (rf : list N) (ws : list (N * N)) : list N :=
  fold_left (fun r dv => rf_write r (fst dv) (snd dv)) ws rf.

(* the value last written to register r in the list (oldest first), else 0 *)
Definition last_written (ws : list (N * N)) (r : N) : N :=
  fold_left (fun acc dv => if fst dv =? r then snd dv else acc) ws 0.

Definition stmt_regfile_history : Prop :=
  forall f o G p img n states,
    run_of f o G p img n states ->
    (* all registers start at 0 *)
    (forall s0, nth_error states O = Some s0 -> regs s0 = repeat 0 16) /\
    (forall i si si', cycle_of states i si si' ->
       (* at the end of the cycle: E port, then M port; nothing else *)
       regs si' = rf_apply (regs si) (reg_writes_of p si') /\
       Forall (fun dv => fst dv < 16 /\ snd dv < two64) (reg_writes_of p si') /\
       (* so the M port wins a collision, and registers selected by no port keep their value *)
       (has_reg_write "reg_dstM" p = true -> wire si' "reg_dstM" < 15 ->
          rf_read (regs si') (wire si' "reg_dstM") = wire si' "reg_inputM") /\
       (has_reg_write "reg_dstE" p = true -> wire si' "reg_dstE" < 15 ->
          (has_reg_write "reg_dstM" p = true -> wire si' "reg_dstM" <> wire si' "reg_dstE") ->
          rf_read (regs si') (wire si' "reg_dstE") = wire si' "reg_inputE") /\
       (forall r, (forall dv, In dv (reg_writes_of p si') -> fst dv <> r) ->
          rf_read (regs si') r = rf_read (regs si) r) /\
       (* the read ports deliver the content at the START of the cycle *)
       (In port_readA (p_actions p) ->
          lookup (values si') "reg_outputA" =
          Some (mkV (rf_read (regs si) (wire si' "reg_srcA")) (Bits 64))) /\
       (In port_readB (p_actions p) ->
          lookup (values si') "reg_outputB" =
          Some (mkV (rf_read (regs si) (wire si' "reg_srcB")) (Bits 64)))) /\
    (* closed form: at the start of cycle i (i = n: at the end of the run) register r holds the
       value last written to it in the cycles before i (M after E within a cycle), else 0;
       register 15 - and any number above - reads 0 *)
    (forall i si, nth_error states i = Some si ->
       List.length (regs si) = 16%nat /\
       forall r, rf_read (regs si) r =
                 if r <? 15 then last_written (reg_writes p (firstn i (tl states))) r else 0).

(* ---- 3. register bank history (C03) ----------------------------------------------------------- *)
Definition stmt_bank_history : Prop :=
  forall f o G p img n states,
    run_of f o G p img n states -> bank_outputs_undriven p = true ->
    forall b inw outw w, In b (p_banks p) -> In (inw, outw, w) (b_signals b) ->
      exists d,
        (* the declared default: of the declared width *)
        lookup (b_defaults b) outw = Some d /\ wd d = w /\ fits d /\
        (* first cycle: the default *)
        (forall s0, nth_error states O = Some s0 -> lookup (values s0) outw = Some d) /\
        (* never changes during a cycle: whatever prefix of the cycle's actions has run, the
           output still shows its start-of-cycle value *)
        (forall i si acts1 acts2 sm t,
           nth_error states i = Some si -> p_actions p = acts1 ++ acts2 ->
           exec_actions f o acts1 si = Ok (sm, t) ->
           lookup (values sm) outw = lookup (values si) outw) /\
        (* the clock edge at the end of cycle i, every bank looking at its own stall and bubble
           signals only: bubble resets (and wins), stall keeps, otherwise the input - a value of
           the declared width - is latched *)
        (forall i si si', cycle_of states i si si' ->
           exists v,
             lookup (values si') inw = Some v /\ wd v = w /\ fits v /\
             lookup (values si') outw =
               if 0 <? wire si' (b_bubble b) then Some d
               else if 0 <? wire si' (b_stall b) then lookup (values si) outw
               else Some v).

(* ---- the same without the separation hypotheses: false (HistoryProofs.v, Part F) --------------- *)
(* the "never changes during a cycle" clause without [bank_outputs_undriven]: refuted by a
   well-typed (hand-made, never produced by Program::new) program with an action that assigns a
   bank output *)
Definition stmt_bank_output_stable_draft : Prop :=
  forall f o G p img n states,
    run_of f o G p img n states ->
    forall b inw outw w, In b (p_banks p) -> In (inw, outw, w) (b_signals b) ->
    forall i si acts1 acts2 sm t,
      nth_error states i = Some si -> p_actions p = acts1 ++ acts2 ->
      exec_actions f o acts1 si = Ok (sm, t) -> lookup (values sm) outw = lookup (values si) outw.

(* the final memory without [ports_not_banked]: refuted by a well-typed (hand-made) program whose
   mem_addr is a register-bank output - values s_(i+1) then shows the address of the NEXT cycle *)
Definition stmt_memory_history_draft : Prop :=
  forall f o G p img n s0 sn,
    program_ok f G p -> subseq (effect_part (p_actions p)) table_effects -> wf_mem img ->
    initial_state p = Ok s0 -> iter_step n f o p (load_image s0 img) = Ok sn ->
    forall x, x < two64 ->
      byte_at (mem sn) x = byte_after img (mem_writes p (run_posts n f o p (load_image s0 img))) x.

(* ---- accepted programs meet the hypotheses ---------------------------------------------------- *)
(* every program Program::new accepts (model: build_program on the table of the compiled
   implementation, whatever the classification of bank-name letters) is well typed, uses the
   table and drives no bank output *)
Definition stmt_accepted_program_runs : Prop :=
  forall f is_lower is_upper stmts p,
    Forall wf_stmt stmts ->
    build_program f gen_fixed is_lower is_upper stmts = Ok p ->
    (exists G, program_ok f G p) /\ uses_table p /\ bank_outputs_undriven p = true.

(* so the three histories apply to every run of every accepted program on every well-formed image *)
Definition stmt_accepted_run_of : Prop :=
  forall f o is_lower is_upper stmts p img n s0 sn,
    Forall wf_stmt stmts ->
    build_program f gen_fixed is_lower is_upper stmts = Ok p ->
    wf_mem img -> initial_state p = Ok s0 ->
    iter_step n f o p (load_image s0 img) = Ok sn ->
    bank_outputs_undriven p = true /\
    exists G, run_of f o G p img n (run_states n f o p (load_image s0 img)).

(* HCL text -> statements by the model's own lexer and parser (for the examples) *)
Definition hcl_text (s : string) : list stmt :=
  match parse_text test_uclass doc_tiers (bytes_of_string s) with Some l => l | None => [] end.
