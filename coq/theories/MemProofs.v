(* C05: proofs of the statements in MemSpec.v about the sparse byte memory of Machine.v. *)
From HclV Require Import Base Expr Machine MemSpec.
From Coq Require Import Sorted ZifyN ZifyBool ZifyNat.
Local Ltac Zify.zify_post_hook ::= Z.div_mod_to_equations.
Open Scope N_scope.

(* ---- arithmetic helpers ------------------------------------------------------------------ *)

Lemma two64_lit : two64 = 18446744073709551616.
Proof. reflexivity. Qed.

Lemma pow256 (i : N) : 256 ^ i = 2 ^ (i * 8).
Proof.
  change 256 with (2 ^ 8). rewrite <- N.pow_mul_r. f_equal. lia.
Qed.

Lemma pow256_pos (i : N) : 0 < 256 ^ i.
Proof. apply N.neq_0_lt_0. apply N.pow_nonzero. discriminate. Qed.

Lemma pow256_succ (i : N) : 256 ^ (i + 1) = 256 * 256 ^ i.
Proof. rewrite N.add_1_r. apply N.pow_succ_r'. Qed.

(* or-ing in a byte above the bits already accumulated is an addition *)
Lemma lor_shiftl_add (acc b k : N) :
  acc < 2 ^ k -> N.lor acc (N.shiftl b k) = acc + b * 2 ^ k.
Proof.
  intros Hacc.
  assert (Hland : N.land acc (N.shiftl b k) = 0).
  { apply N.bits_inj. intros n. rewrite N.land_spec, N.bits_0.
    destruct (N.lt_ge_cases n k) as [Hn | Hn].
    - rewrite N.shiftl_spec_low by exact Hn. apply andb_false_r.
    - assert (Hb : N.testbit acc n = false).
      { destruct (N.eq_dec acc 0) as [-> | Hnz]; [apply N.bits_0 |].
        apply N.bits_above_log2.
        apply N.lt_le_trans with k; [| exact Hn].
        apply N.log2_lt_pow2; [lia | exact Hacc]. }
      rewrite Hb. reflexivity. }
  rewrite <- N.lxor_lor by exact Hland.
  rewrite <- N.add_nocarry_lxor by exact Hland.
  rewrite N.shiftl_mul_pow2. reflexivity.
Qed.

(* ---- mem_get / mem_put ------------------------------------------------------------------- *)

Lemma mem_get_put (m : memory) (a v x : N) :
  mem_get (mem_put m a v) x = if x =? a then Some v else mem_get m x.
Proof.
  induction m as [| [k v'] r IH]; cbn [mem_put mem_get].
  - destruct (N.eqb_spec x a) as [Hxa | Hxa]; [reflexivity |].
    destruct (N.ltb_spec x a); reflexivity.
  - destruct (N.eqb_spec a k) as [Hak | Hak].
    + subst k. cbn [mem_get]. destruct (N.eqb_spec x a); reflexivity.
    + destruct (N.ltb_spec a k) as [Hlt | Hge]; cbn [mem_get].
      * destruct (N.eqb_spec x a) as [Hxa | Hxa]; [reflexivity |].
        destruct (N.ltb_spec x a) as [Hxlt | Hxge]; [| reflexivity].
        destruct (N.eqb_spec x k) as [Hxk | Hxk]; [lia |].
        destruct (N.ltb_spec x k); [reflexivity | lia].
      * rewrite IH.
        destruct (N.eqb_spec x k) as [Hxk | Hxk].
        -- destruct (N.eqb_spec x a); [lia | reflexivity].
        -- destruct (N.ltb_spec x k) as [Hxlt | Hxge]; [| reflexivity].
           destruct (N.eqb_spec x a); [lia | reflexivity].
Qed.

Lemma mem_put_Forall (P : N * N -> Prop) (m : memory) (a v : N) :
  Forall P m -> P (a, v) -> Forall P (mem_put m a v).
Proof.
  intros Hm Hav. induction Hm as [| [k v'] r Hk Hr IH]; cbn [mem_put].
  - constructor; [exact Hav | constructor].
  - destruct (N.eqb_spec a k) as [Hak | Hak].
    + subst k. constructor; assumption.
    + destruct (N.ltb_spec a k) as [Hlt | Hge].
      * constructor; [exact Hav |]. constructor; assumption.
      * constructor; assumption.
Qed.

Lemma mem_put_sorted (m : memory) (a v : N) :
  StronglySorted key_lt m -> StronglySorted key_lt (mem_put m a v).
Proof.
  intros Hm. induction Hm as [| [k v'] r Hr IH Hk]; cbn [mem_put].
  - constructor; constructor.
  - destruct (N.eqb_spec a k) as [Hak | Hak].
    + subst k. constructor; assumption.
    + destruct (N.ltb_spec a k) as [Hlt | Hge].
      * constructor.
        -- constructor; assumption.
        -- constructor; [exact Hlt |].
           eapply Forall_impl; [| exact Hk].
           intros [k2 v2]. unfold key_lt. cbn [fst]. lia.
      * constructor; [exact IH |].
        apply mem_put_Forall; [exact Hk |].
        unfold key_lt. cbn [fst]. lia.
Qed.

Theorem mem_put_ok : stmt_mem_put.
Proof.
  intros m a v [Hs Hb] Ha Hv. split.
  - split.
    + apply mem_put_sorted. exact Hs.
    + apply mem_put_Forall; [exact Hb |]. cbn [fst snd]. split; assumption.
  - intros x. apply mem_get_put.
Qed.

Lemma mem_get_bound (m : memory) (x v : N) :
  wf_mem m -> mem_get m x = Some v -> v < 256.
Proof.
  intros [_ Hb]. induction Hb as [| [k v'] r Hk Hr IH]; cbn [mem_get].
  - discriminate.
  - destruct (N.eqb_spec x k) as [Hxk | Hxk].
    + intros [= <-]. exact (proj2 Hk).
    + destruct (N.ltb_spec x k); [discriminate | exact IH].
Qed.

Lemma byte_at_bound (m : memory) (x : N) : wf_mem m -> byte_at m x < 256.
Proof.
  intros Hm. unfold byte_at. destruct (mem_get m x) as [v |] eqn:Hg.
  - eapply mem_get_bound; eassumption.
  - lia.
Qed.

(* ---- little-endian sums ------------------------------------------------------------------ *)

Lemma of_nat_succ (k : nat) : N.of_nat (S k) = N.of_nat k + 1.
Proof. lia. Qed.

Lemma le_sum_ext (f g : N -> N) (n : nat) :
  (forall j, j < N.of_nat n -> f j = g j) -> le_sum f n = le_sum g n.
Proof.
  induction n as [| k IH]; intros Hfg; cbn [le_sum]; [reflexivity |].
  rewrite IH by (intros j Hj; apply Hfg; lia).
  rewrite Hfg by lia. reflexivity.
Qed.

Lemma le_sum_bound (g : N -> N) (n : nat) :
  (forall j, j < N.of_nat n -> g j < 256) -> le_sum g n < 256 ^ N.of_nat n.
Proof.
  induction n as [| k IH]; intros Hg; cbn [le_sum].
  - cbn. lia.
  - rewrite of_nat_succ, pow256_succ.
    assert (HL : le_sum g k < 256 ^ N.of_nat k) by (apply IH; intros j Hj; apply Hg; lia).
    assert (Hk : g (N.of_nat k) < 256) by (apply Hg; lia).
    set (P := 256 ^ N.of_nat k) in *. nia.
Qed.

Lemma le_sum_byte (g : N -> N) (n : nat) (i : N) :
  (forall j, j < N.of_nat n -> g j < 256) -> i < N.of_nat n ->
  (le_sum g n / 256 ^ i) mod 256 = g i.
Proof.
  induction n as [| k IH]; intros Hg Hi; [lia |]. cbn [le_sum].
  assert (Hg' : forall j, j < N.of_nat k -> g j < 256) by (intros j Hj; apply Hg; lia).
  assert (HL : le_sum g k < 256 ^ N.of_nat k) by (apply le_sum_bound; exact Hg').
  assert (Hk : g (N.of_nat k) < 256) by (apply Hg; lia).
  destruct (N.eq_dec i (N.of_nat k)) as [Hik | Hik].
  - subst i. rewrite N.div_add by (apply N.pow_nonzero; discriminate).
    rewrite N.div_small by exact HL. rewrite N.add_0_l. apply N.mod_small. exact Hk.
  - assert (Hlt : i < N.of_nat k) by lia.
    replace (N.of_nat k) with ((N.of_nat k - i - 1) + 1 + i) at 2 by lia.
    rewrite N.pow_add_r, N.mul_assoc.
    rewrite N.div_add by (apply N.pow_nonzero; discriminate).
    rewrite pow256_succ.
    replace (g (N.of_nat k) * (256 * 256 ^ (N.of_nat k - i - 1)))
      with (g (N.of_nat k) * 256 ^ (N.of_nat k - i - 1) * 256) by lia.
    rewrite N.mod_add by discriminate.
    apply IH; assumption.
Qed.

Lemma le_sum_digits (v : N) (n : nat) :
  le_sum (fun i => (v / 256 ^ i) mod 256) n = v mod 256 ^ N.of_nat n.
Proof.
  induction n as [| k IH]; cbn [le_sum].
  - change (256 ^ N.of_nat 0) with 1. rewrite N.mod_1_r. reflexivity.
  - rewrite IH, of_nat_succ, pow256_succ.
    rewrite (N.mul_comm 256).
    rewrite N.mod_mul_r by (try discriminate; apply N.pow_nonzero; discriminate).
    lia.
Qed.

(* ---- mem_write --------------------------------------------------------------------------- *)

Lemma addr_succ_lt (a : N) : addr_succ a < two64.
Proof. unfold addr_succ. apply N.mod_lt. discriminate. Qed.

Lemma write_loop_ok (c : nat) : forall m cur v i,
  wf_mem m -> cur < two64 -> N.of_nat c < two64 ->
  wf_mem (mem_write_loop m cur v i c) /\
  forall x, x < two64 ->
    mem_get (mem_write_loop m cur v i c) x =
    match offset_of cur x (N.of_nat c) with
    | Some j => Some ((v / 256 ^ (i + j)) mod 256)
    | None => mem_get m x
    end.
Proof.
  induction c as [| c IH]; intros m cur v i Hm Hcur Hc; cbn [mem_write_loop].
  - split; [exact Hm |]. intros x Hx. unfold offset_of.
    destruct (N.ltb_spec ((x + two64 - cur) mod two64) (N.of_nat 0)) as [H0 | H0]; [lia | reflexivity].
  - set (b := N.shiftr v (i * 8) mod 256).
    assert (Hb : b < 256) by (apply N.mod_lt; discriminate).
    destruct (mem_put_ok m cur b Hm Hcur Hb) as [Hm' _].
    destruct (IH (mem_put m cur b) (addr_succ cur) v (i + 1) Hm' (addr_succ_lt cur)) as [Hwf Hget];
      [lia |].
    split; [exact Hwf |]. intros x Hx.
    rewrite Hget by exact Hx. rewrite mem_get_put.
    unfold offset_of, addr_succ.
    set (d := (x + two64 - cur) mod two64).
    set (d' := (x + two64 - (cur + 1) mod two64) mod two64).
    assert (Hrel : (x = cur /\ d = 0 /\ d' = two64 - 1) \/ (x <> cur /\ d = d' + 1)).
    { subst d d'. rewrite two64_lit in *. lia. }
    clearbody d d'. rewrite of_nat_succ.
    destruct Hrel as [(Hx0 & Hd & Hd') | (Hx0 & Hd)].
    + destruct (N.ltb_spec d' (N.of_nat c)) as [H1 | H1]; [lia |].
      destruct (N.ltb_spec d (N.of_nat c + 1)) as [H2 | H2]; [| lia].
      destruct (N.eqb_spec x cur) as [_ | Hne]; [| contradiction].
      subst b. rewrite N.shiftr_div_pow2, <- pow256, Hd, N.add_0_r. reflexivity.
    + destruct (N.ltb_spec d' (N.of_nat c)) as [H1 | H1];
        destruct (N.ltb_spec d (N.of_nat c + 1)) as [H2 | H2]; try lia.
      * replace (i + 1 + d') with (i + d) by lia. reflexivity.
      * destruct (N.eqb_spec x cur) as [He | _]; [contradiction | reflexivity].
Qed.

Theorem mem_write_ok : stmt_mem_write.
Proof.
  intros m a v n Hm Ha Hn. unfold mem_write.
  destruct (write_loop_ok (N.to_nat n) m a v 0 Hm Ha) as [Hwf Hget].
  { rewrite two64_lit. lia. }
  split; [exact Hwf |]. intros x Hx.
  rewrite Hget by exact Hx. unfold awrite. rewrite N2Nat.id.
  destruct (offset_of a x n) as [j |]; [| reflexivity].
  rewrite N.add_0_l. reflexivity.
Qed.

(* ---- mem_read ---------------------------------------------------------------------------- *)

Lemma read_loop_unfold (m : memory) (cur i : N) (c : nat) (acc : N) :
  mem_read_loop m cur i (S c) acc =
  mem_read_loop m (addr_succ cur) (i + 1) c (N.lor acc (N.shiftl (byte_at m cur) (i * 8))).
Proof. reflexivity. Qed.

Lemma read_loop_snoc (c : nat) : forall m cur i acc, cur < two64 ->
  mem_read_loop m cur i (S c) acc =
  N.lor (mem_read_loop m cur i c acc)
        (N.shiftl (byte_at m ((cur + N.of_nat c) mod two64)) ((i + N.of_nat c) * 8)).
Proof.
  induction c as [| c IH]; intros m cur i acc Hcur.
  - cbn [mem_read_loop]. change (N.of_nat 0) with 0. rewrite !N.add_0_r.
    rewrite N.mod_small by exact Hcur. reflexivity.
  - rewrite read_loop_unfold. rewrite IH by apply addr_succ_lt.
    rewrite (read_loop_unfold m cur i c).
    f_equal. f_equal.
    + f_equal. unfold addr_succ. rewrite two64_lit in *. lia.
    + lia.
Qed.

Lemma read_loop_sum (m : memory) (a : N) (c : nat) : wf_mem m -> a < two64 ->
  mem_read_loop m a 0 c 0 = le_sum (fun j => byte_at m ((a + j) mod two64)) c.
Proof.
  intros Hm Ha. induction c as [| c IH]; [reflexivity |].
  rewrite read_loop_snoc by exact Ha. rewrite IH. cbn [le_sum].
  rewrite N.add_0_l. rewrite lor_shiftl_add.
  - rewrite <- pow256. reflexivity.
  - rewrite <- pow256. apply le_sum_bound. intros j _. apply byte_at_bound. exact Hm.
Qed.

Theorem mem_read_ok : stmt_mem_read.
Proof.
  intros m a n Hm Ha Hn. unfold mem_read. rewrite read_loop_sum by assumption. reflexivity.
Qed.

Theorem mem_read_fits : stmt_mem_read_fits.
Proof.
  intros m a n Hm Ha Hn. rewrite mem_read_ok by assumption. cbn [bits].
  rewrite <- pow256. rewrite <- (N2Nat.id n) at 2.
  apply le_sum_bound. intros j _. apply byte_at_bound. exact Hm.
Qed.

Theorem mem_read_bytes : stmt_mem_read_bytes.
Proof.
  intros m a n i Hm Ha Hn Hi. rewrite mem_read_ok by assumption. cbn [bits].
  apply (le_sum_byte (fun j => byte_at m ((a + j) mod two64))).
  - intros j _. apply byte_at_bound. exact Hm.
  - lia.
Qed.

(* ---- read after write -------------------------------------------------------------------- *)

Theorem read_after_write : stmt_read_after_write.
Proof.
  intros m a v Hm Ha.
  destruct (mem_write_ok m a v 8 Hm Ha) as [Hwf Hget]; [lia |].
  rewrite mem_read_ok by (try assumption; lia).
  change (8 * 8) with 64. f_equal.
  change two64 with (256 ^ N.of_nat (N.to_nat 8)) at 2.
  rewrite <- le_sum_digits. apply le_sum_ext. intros j Hj.
  unfold byte_at. rewrite Hget by (apply N.mod_lt; discriminate).
  unfold awrite, offset_of.
  assert (Hd : ((a + j) mod two64 + two64 - a) mod two64 = j).
  { rewrite two64_lit in *. lia. }
  rewrite Hd.
  destruct (N.ltb_spec j 8) as [_ | Hge]; [reflexivity | lia].
Qed.

(* ---- any history of writes --------------------------------------------------------------- *)

Lemma awrite_fold_ext (ws : list (N * N)) : forall g g' : N -> option N,
  (forall x, x < two64 -> g x = g' x) ->
  forall x, x < two64 ->
    fold_left (fun g aw => awrite g (fst aw) (snd aw) 8) ws g x =
    fold_left (fun g aw => awrite g (fst aw) (snd aw) 8) ws g' x.
Proof.
  induction ws as [| [a w] ws IH]; intros g g' Hgg x Hx; cbn [fold_left].
  - apply Hgg. exact Hx.
  - apply IH; [| exact Hx]. intros y Hy. unfold awrite.
    destruct (offset_of (fst (a, w)) y 8); [reflexivity | apply Hgg; exact Hy].
Qed.

Theorem latest_write_wins : stmt_latest_write_wins.
Proof.
  intros ws. induction ws as [| [a w] ws IH]; intros m0 Hm0 Hws; cbn zeta.
  - cbn [fold_left]. split; [exact Hm0 | reflexivity].
  - cbn [fold_left]. inversion Hws as [| aw ws' Ha Hws' Heq]; subst.
    cbn [fst snd] in *.
    destruct (mem_write_ok m0 a w 8 Hm0 Ha) as [Hwf Hget]; [lia |].
    destruct (IH (mem_write m0 a w 8) Hwf Hws') as [Hwf' Hget'].
    split; [exact Hwf' |]. intros x Hx.
    rewrite Hget' by exact Hx.
    apply awrite_fold_ext; [| exact Hx]. exact Hget.
Qed.

Print Assumptions mem_put_ok.
Print Assumptions mem_read_ok.
Print Assumptions mem_write_ok.
Print Assumptions read_after_write.
Print Assumptions latest_write_wins.
Print Assumptions mem_read_fits.
Print Assumptions mem_read_bytes.
