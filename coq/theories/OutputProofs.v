(* C18, the OUTPUT half: proofs of the statements of OutputSpec.v. *)
From Coq Require Import Permutation.
From HclV Require Import Base Expr Disasm DisasmProofs Machine MachineSpec MachineProofs MemSpec MemProofs
  DumpSpec DumpProofs SchedSpec SchedProofs TableSpec TableProofs DumpParse DumpParseSpec
  DumpParseProofs TraceSpec TraceProofs Generated Build BuildSpec BuildProofs Lexer Parser LexParseSpec
  ExprSpec OutputSpec.
From Coq Require Import ZifyN ZifyBool ZifyNat.
Local Ltac Zify.zify_post_hook ::= Z.div_mod_to_equations.
Open Scope string_scope.
Open Scope N_scope.

(* ================================================================================== *)
(* A. sub-sequences                                                                   *)
(* ================================================================================== *)
Section Subseq.
  Context {A : Type}.

  Lemma subseq_refl (l : list A) : subseq l l.
  Proof. induction l as [|x l IH]; constructor. exact IH. Qed.

  Lemma subseq_nil_l (l : list A) : subseq [] l.
  Proof. induction l as [|x l IH]; constructor. exact IH. Qed.

  Lemma subseq_app (a a' b b' : list A) : subseq a a' -> subseq b b' -> subseq (a ++ b) (a' ++ b').
  Proof.
    intros Ha Hb. induction Ha as [|x l l' _ IH|x l l' _ IH]; cbn [List.app].
    - exact Hb.
    - apply subseq_keep. exact IH.
    - apply subseq_drop. exact IH.
  Qed.

  Lemma subseq_trans (a b c : list A) : subseq a b -> subseq b c -> subseq a c.
  Proof.
    intros Hab Hbc. revert a Hab.
    induction Hbc as [|x l l' _ IH|x l l' _ IH]; intros a Hab.
    - exact Hab.
    - inversion Hab as [|y m m' Hm|y m m' Hm]; subst.
      + apply subseq_keep. apply IH. exact Hm.
      + apply subseq_drop. apply IH. exact Hm.
    - apply subseq_drop. apply IH. exact Hab.
  Qed.

  Lemma subseq_length (a b : list A) : subseq a b -> (List.length a <= List.length b)%nat.
  Proof. intros H. induction H; cbn [List.length]; lia. Qed.

  Lemma subseq_In (a b : list A) (x : A) : subseq a b -> In x a -> In x b.
  Proof.
    intros H. induction H as [|y l l' _ IH|y l l' _ IH]; intros Hin.
    - exact Hin.
    - destruct Hin as [->|Hin]; [left; reflexivity | right; exact (IH Hin)].
    - right. exact (IH Hin).
  Qed.

  (* deleting a middle part *)
  Lemma subseq_delete (a b c : list A) : subseq (a ++ c) (a ++ b ++ c).
  Proof.
    apply subseq_app; [apply subseq_refl|].
    rewrite <- (app_nil_l c) at 1. apply subseq_app; [apply subseq_nil_l | apply subseq_refl].
  Qed.
End Subseq.

Lemma subseqb_sound : forall l' l, subseqb l l' = true -> subseq l l'.
Proof.
  induction l' as [|y r' IH]; intros l H.
  - destruct l as [|x r]; [constructor | discriminate H].
  - destruct l as [|x r]; [apply subseq_nil_l|].
    cbn [subseqb] in H. destruct (String.eqb x y) eqn:E.
    + apply String.eqb_eq in E. subst y. apply subseq_keep. apply IH. exact H.
    + apply subseq_drop. apply IH. exact H.
Qed.

Lemma subseqb_drop : forall l' l x, subseqb (x :: l) l' = true -> subseqb l l' = true.
Proof.
  induction l' as [|y r' IH]; intros l x H; [discriminate H|].
  cbn [subseqb] in H. destruct l as [|z l]; [reflexivity|].
  cbn [subseqb]. destruct (String.eqb x y) eqn:E.
  - destruct (String.eqb z y); [apply (IH _ z) | ]; exact H.
  - destruct (String.eqb z y).
    + apply (IH _ z). apply (IH _ x). exact H.
    + apply (IH _ x). exact H.
Qed.

Lemma subseqb_complete : forall l l', subseq l l' -> subseqb l l' = true.
Proof.
  intros l l' H. induction H as [|x l l' _ IH|x l l' _ IH].
  - reflexivity.
  - cbn [subseqb]. rewrite String.eqb_refl. exact IH.
  - destruct l as [|z l]; [reflexivity|]. cbn [subseqb].
    destruct (String.eqb z x); [apply (subseqb_drop _ _ z)|]; exact IH.
Qed.

(* ================================================================================== *)
(* B. texts as lists of lines                                                         *)
(* ================================================================================== *)
Lemma is_newline_eq (c : ascii) : is_newline c = true -> c = ascii_of_N 10.
Proof.
  unfold is_newline, is_char. intros H. apply N.eqb_eq in H.
  rewrite <- (ascii_N_embedding c), H. reflexivity.
Qed.

Lemma notnl_is_newline (c : ascii) : notnl c = negb (is_newline c).
Proof. reflexivity. Qed.

(* what [lines] returns is the text cut at its newlines *)
Lemma but_last_empty_cons2 (x y : string) (r : list string) :
  but_last_empty (x :: y :: r) = option_map (cons x) (but_last_empty (y :: r)).
Proof. reflexivity. Qed.

Lemma lines_inv : forall s l, lines s = Some l -> s = unlines l /\ all_nonl l.
Proof.
  induction s as [|c r IH]; intros l H.
  - cbv in H. injection H as <-. split; [reflexivity | constructor].
  - unfold lines, split_on in H. cbn [fields] in H.
    destruct (fields is_newline r) as [f0 fs] eqn:Ef.
    assert (Hr : lines r = but_last_empty (f0 :: fs)) by (unfold lines, split_on; rewrite Ef; reflexivity).
    destruct (is_newline c) eqn:Ec.
    + rewrite but_last_empty_cons2, <- Hr in H.
      destruct (lines r) as [l0|] eqn:El; [|discriminate H]. cbn [option_map] in H. injection H as <-.
      destruct (IH l0 eq_refl) as [Er Hn]. split.
      * rewrite unlines_cons, <- Er, (is_newline_eq c Ec). reflexivity.
      * constructor; [reflexivity | exact Hn].
    + destruct fs as [|g gs].
      * cbn [but_last_empty String.eqb] in H. discriminate H.
      * rewrite but_last_empty_cons2 in H. rewrite but_last_empty_cons2 in Hr.
        destruct (but_last_empty (g :: gs)) as [rest|] eqn:Eg; [|discriminate H].
        cbn [option_map] in H, Hr. injection H as <-.
        destruct (IH (f0 :: rest) Hr) as [Er Hn]. split.
        -- rewrite unlines_cons in *. rewrite Er. reflexivity.
        -- constructor; [|exact (Forall_inv_tail Hn)].
           rewrite nonl_cons, notnl_is_newline, Ec. exact (Forall_inv Hn).
Qed.

Lemma lines_app (a b : string) (la lb : list string) :
  lines a = Some la -> lines b = Some lb -> lines (a ++ b) = Some (la ++ lb)%list.
Proof.
  intros Ha Hb. destruct (lines_inv a la Ha) as [-> Hna]. destruct (lines_inv b lb Hb) as [-> Hnb].
  rewrite <- unlines_app. apply lines_unlines. apply Forall_app. split; assumption.
Qed.

(* every text is complete lines followed by an unfinished one *)
Lemma text_decompose : forall s, exists l part, s = unlines l ++ part /\ all_nonl l /\ nonl part = true.
Proof.
  induction s as [|c r IH].
  - exists [], "". repeat split. constructor.
  - destruct IH as [l [part [Er [Hl Hp]]]]. destruct (is_newline c) eqn:Ec.
    + exists ("" :: l), part. split; [|split; [constructor; [reflexivity | exact Hl] | exact Hp]].
      rewrite unlines_cons, Er, (is_newline_eq c Ec). reflexivity.
    + assert (Hc : notnl c = true) by (rewrite notnl_is_newline, Ec; reflexivity).
      destruct l as [|x l].
      * exists [], (String c part). split; [rewrite Er; reflexivity|].
        split; [constructor | rewrite nonl_cons, Hc; exact Hp].
      * exists (String c x :: l), part. split; [|split; [|exact Hp]].
        -- rewrite Er, !unlines_cons. reflexivity.
        -- constructor; [rewrite nonl_cons, Hc; exact (Forall_inv Hl) | exact (Forall_inv_tail Hl)].
Qed.

(* [closed t]: t ends with a newline; [piece t]: t is empty or closed *)
Definition closed (t : string) : Prop := exists a, t = a ++ nl.
Definition piece (t : string) : Prop := t = "" \/ closed t.

Lemma closed_nl : closed nl.
Proof. exists "". reflexivity. Qed.
Lemma closed_end (a : string) : closed (a ++ nl).
Proof. exists a. reflexivity. Qed.
Lemma closed_prefix (a b : string) : closed b -> closed (a ++ b).
Proof. intros [x ->]. exists (a ++ x). rewrite sapp_assoc. reflexivity. Qed.
Lemma closed_char (c : ascii) (b : string) : closed b -> closed (String c b).
Proof. intros H. apply (closed_prefix (String c "") b H). Qed.
Lemma closed_piece (t : string) : closed t -> piece t.
Proof. intros H. right. exact H. Qed.
Lemma piece_nil : piece "".
Proof. left. reflexivity. Qed.
Lemma piece_app (a b : string) : piece a -> piece b -> piece (a ++ b).
Proof.
  intros Ha [->|Hb]; [rewrite sapp_nil_r; exact Ha|].
  right. apply closed_prefix. exact Hb.
Qed.
Lemma piece_if (b : bool) (t : string) : piece t -> piece (if b then t else "").
Proof. intros H. destruct b; [exact H | apply piece_nil]. Qed.

Lemma closed_whole (t : string) : closed t -> whole_lines t.
Proof.
  intros [a ->]. destruct (text_decompose a) as [l [part [-> [Hl Hp]]]].
  exists (l ++ [part])%list. rewrite sapp_assoc, <- unlines_one, <- unlines_app.
  apply lines_unlines. apply Forall_app. split; [exact Hl | constructor; [exact Hp | constructor]].
Qed.

Lemma piece_whole (t : string) : piece t -> whole_lines t.
Proof. intros [->|H]; [exists []; reflexivity | apply closed_whole; exact H]. Qed.

Lemma unlines_snoc (l : list string) (x : string) : unlines (l ++ [x]) = unlines l ++ x ++ nl.
Proof. rewrite unlines_app, unlines_one. reflexivity. Qed.

Lemma whole_piece (t : string) : whole_lines t -> piece t.
Proof.
  intros [l H]. destruct (lines_inv t l H) as [-> _].
  destruct l as [|x l] using rev_ind; [left; reflexivity|].
  right. rewrite unlines_snoc, <- sapp_assoc. apply closed_end.
Qed.

Theorem whole_lines_char_holds : stmt_whole_lines_char.
Proof.
  intros t. split.
  - intros H. exact (whole_piece t H).
  - intros H. apply piece_whole. exact H.
Qed.

(* ---- fewer_lines ---- *)
Lemma fewer_refl (t : string) : whole_lines t -> fewer_lines t t.
Proof. intros [l H]. exists l, l. split; [exact H | split; [exact H | apply subseq_refl]]. Qed.

Lemma fewer_nil (t : string) : whole_lines t -> fewer_lines "" t.
Proof. intros [l H]. exists [], l. split; [reflexivity | split; [exact H | apply subseq_nil_l]]. Qed.

Lemma fewer_app (a a' b b' : string) :
  fewer_lines a a' -> fewer_lines b b' -> fewer_lines (a ++ b) (a' ++ b').
Proof.
  intros [la [la' [H1 [H2 H3]]]] [lb [lb' [H4 [H5 H6]]]].
  exists (la ++ lb)%list, (la' ++ lb')%list.
  split; [apply lines_app; assumption | split; [apply lines_app; assumption | apply subseq_app; assumption]].
Qed.

Lemma fewer_trans (a b c : string) : fewer_lines a b -> fewer_lines b c -> fewer_lines a c.
Proof.
  intros [la [lb [H1 [H2 H3]]]] [lb' [lc [H4 [H5 H6]]]].
  rewrite H2 in H4. injection H4 as <-.
  exists la, lc. split; [exact H1 | split; [exact H5 | exact (subseq_trans _ _ _ H3 H6)]].
Qed.

Lemma fewer_whole (a b : string) : fewer_lines a b -> whole_lines a /\ whole_lines b.
Proof. intros [la [lb [H1 [H2 _]]]]. split; [exists la | exists lb]; assumption. Qed.

Lemma fewer_if (b b' : bool) (t : string) :
  on_implies b b' -> piece t -> fewer_lines (if b then t else "") (if b' then t else "").
Proof.
  intros Hb Ht. destruct b.
  - rewrite (Hb eq_refl). apply fewer_refl, piece_whole, Ht.
  - apply fewer_nil. apply piece_whole, piece_if, Ht.
Qed.

Theorem fewer_linesb_correct_holds : stmt_fewer_linesb_correct.
Proof.
  intros t t'. unfold fewer_linesb, fewer_lines. split.
  - destruct (lines t) as [l|]; [|discriminate]. destruct (lines t') as [l'|]; [|discriminate].
    intros H. exists l, l'. repeat split. apply subseqb_sound. exact H.
  - intros [l [l' [-> [-> H]]]]. apply subseqb_complete. exact H.
Qed.

(* ================================================================================== *)
(* C. everything printed consists of complete lines                                   *)
(* ================================================================================== *)
Ltac closed_tac :=
  repeat first [apply closed_nl | apply closed_end | apply closed_prefix | apply closed_char].
Ltac piece_tac :=
  repeat first [apply piece_nil
               | solve [apply closed_piece; closed_tac]
               | apply piece_if
               | apply piece_app].

Lemma trace_line_closed (pc v : N) : closed (trace_line pc v).
Proof. destruct (trace_line_unlines pc v) as [l [-> _]]. rewrite unlines_one. apply closed_end. Qed.

(* ---- the actions ---- *)
Lemma action_piece f o a s s' t : exec_action f o a s = Ok (s', t) -> piece t.
Proof.
  intros H. destruct a; unfold exec_action in H; cbv zeta in H; repeat step_hyp H;
    injection H as _ <-; piece_tac.
  apply closed_piece, trace_line_closed.
Qed.

Lemma actions_piece f o : forall acts s s' t, exec_actions f o acts s = Ok (s', t) -> piece t.
Proof.
  induction acts as [|a r IH]; intros s s' t H; cbn [exec_actions] in H.
  - injection H as _ <-. apply piece_nil.
  - destruct (exec_action f o a s) as [[s1 t1]|e] eqn:Ea; cbn [bind fst snd] in H; [|discriminate H].
    destruct (exec_actions f o r s1) as [[s2 t2]|e] eqn:Er; cbn [bind fst snd] in H; [|discriminate H].
    injection H as _ <-. apply piece_app; [exact (action_piece _ _ _ _ _ _ Ea) | exact (IH _ _ _ Er)].
Qed.

(* ---- the table ---- *)
Lemma subtable_piece vals keys label header t :
  dump_wire_subtable vals keys label header = Ok t -> piece t.
Proof.
  unfold dump_wire_subtable. destruct keys as [|k r]; intros H.
  - injection H as <-. apply piece_nil.
  - destruct (find_table_widths vals (k :: r) 15 22) as [[mn mv]|e]; cbn [bind] in H; [|discriminate H].
    destruct (table_rows vals (sort_strings key_ltb (k :: r)) mn mv) as [rows|e]; cbn [bind] in H;
      [|discriminate H].
    injection H as <-. apply closed_piece. closed_tac.
Qed.

Lemma dump_values_piece o p vals t : dump_values o p vals = Ok t -> piece t.
Proof.
  unfold dump_values. destruct (o_group_wire_values o).
  - unfold dump_values_grouped. cbv zeta. intros H.
    repeat match type of H with
           | bind ?r _ = Ok _ =>
               let E := fresh "E" in destruct r eqn:E; cbn [bind] in H; [|discriminate H];
               apply subtable_piece in E
           end.
    injection H as <-. apply (piece_app nl); [apply closed_piece, closed_nl|].
    repeat (apply piece_app; [assumption|]). assumption.
  - unfold dump_values_ungrouped. apply subtable_piece.
Qed.

(* ---- the register banks ---- *)
Lemma dump_bank_closed vals b t : dump_bank vals b = Ok t -> closed t.
Proof.
  unfold dump_bank. intros H. cbv zeta in H. repeat step_hyp H. injection H as <-. closed_tac.
Qed.

Lemma dump_bank_list_piece vals : forall bs t, dump_bank_list vals bs = Ok t -> piece t.
Proof.
  induction bs as [|b r IH]; intros t H; cbn [dump_bank_list] in H.
  - injection H as <-. apply piece_nil.
  - destruct (dump_bank vals b) as [t1|e] eqn:E1; cbn [bind] in H; [|discriminate H].
    destruct (dump_bank_list vals r) as [t2|e] eqn:E2; cbn [bind] in H; [|discriminate H].
    injection H as <-. apply piece_app; [apply closed_piece, (dump_bank_closed _ _ _ E1) | exact (IH _ eq_refl)].
Qed.

Lemma dump_banks_in_piece vals banks : forall letters t, dump_banks_in vals banks letters = Ok t -> piece t.
Proof.
  induction letters as [|l r IH]; intros t H; cbn [dump_banks_in] in H.
  - injection H as <-. apply piece_nil.
  - destruct (dump_bank_list vals (banks_with banks l)) as [t1|e] eqn:E1; cbn [bind] in H; [|discriminate H].
    destruct (dump_banks_in vals banks r) as [t2|e] eqn:E2; cbn [bind] in H; [|discriminate H].
    injection H as <-. apply piece_app; [exact (dump_bank_list_piece _ _ _ E1) | exact (IH _ eq_refl)].
Qed.

Lemma custom_registers_piece vals banks t : dump_custom_registers vals banks = Ok t -> piece t.
Proof.
  unfold dump_custom_registers. cbv zeta. intros H.
  destruct (dump_banks_in vals banks fixed_letters) as [t1|e] eqn:E1; cbn [bind] in H; [|discriminate H].
  match type of H with
  | bind ?r _ = _ => destruct r as [t2|e] eqn:E2; cbn [bind] in H; [|discriminate H]
  end.
  injection H as <-.
  apply piece_app; [exact (dump_banks_in_piece _ _ _ _ E1) | exact (dump_banks_in_piece _ _ _ _ E2)].
Qed.

(* ---- the memory section, for ANY list of cells ---- *)
(* when the walk stands at the beginning of a row, what was printed so far is complete lines *)
Definition row_start (cur : N) (t : string) : Prop := cur mod 16 = 0 -> piece t.

Lemma succ_mod16 (a : N) : addr_succ a mod 16 = (a mod 16 + 1) mod 16.
Proof. unfold addr_succ. rewrite two64_lit. lia. Qed.

Lemma row_start_cell (cur1 : N) (pre x y z : string) :
  row_start (addr_succ cur1) (pre ++ x ++ y ++ z ++ (if cur1 mod 16 =? 15 then "    |" ++ nl else "")).
Proof.
  intros Hm. rewrite succ_mod16 in Hm. assert (E : cur1 mod 16 = 15) by lia.
  rewrite E, N.eqb_refl. apply closed_piece. closed_tac.
Qed.

Lemma walk_rows : forall fuel cur k v t c w pre,
  dump_mem_walk fuel cur k v = (t, c, w) -> row_start cur pre -> row_start c (pre ++ t).
Proof.
  induction fuel as [|fu IH]; intros cur k v t c w pre H Hpre.
  - cbn [dump_mem_walk] in H. injection H as <- <- _. rewrite sapp_nil_r. exact Hpre.
  - cbn [dump_mem_walk] in H. cbv zeta in H.
    destruct (cur <=? k); [|injection H as <- <- _; rewrite sapp_nil_r; exact Hpre].
    match type of H with
    | (if addr_succ ?c1 =? 0 then _ else _) = _ => set (cur1 := c1) in *
    end.
    destruct (addr_succ cur1 =? 0).
    + injection H as <- <- _. apply row_start_cell.
    + destruct (dump_mem_walk fu (addr_succ cur1) k v) as [[rest c'] w'] eqn:Er.
      injection H as <- <- _.
      match goal with
      | |- row_start _ (pre ++ ?x ++ ?y ++ ?z ++ ?u ++ rest) =>
          replace (pre ++ x ++ y ++ z ++ u ++ rest) with ((pre ++ x ++ y ++ z ++ u) ++ rest)
            by (rewrite !sapp_assoc; reflexivity)
      end.
      apply (IH _ _ _ _ _ _ _ Er). apply row_start_cell.
Qed.

Lemma dump_mem_cells_cons (k v : N) (r : memory) (cur : N) :
  dump_mem_cells ((k, v) :: r) cur =
  let '(t, c, _) := dump_mem_walk 40 cur k v in
  let '(rest, c2) := dump_mem_cells r c in (t ++ rest, c2).
Proof. reflexivity. Qed.

Lemma cells_rows : forall cells cur t c pre,
  dump_mem_cells cells cur = (t, c) -> row_start cur pre -> row_start c (pre ++ t).
Proof.
  induction cells as [|[k v] r IH]; intros cur t c pre H Hpre.
  - cbn [dump_mem_cells] in H. injection H as <- <-. rewrite sapp_nil_r. exact Hpre.
  - rewrite dump_mem_cells_cons in H. destruct (dump_mem_walk 40 cur k v) as [[t1 c1] w1] eqn:E1.
    destruct (dump_mem_cells r c1) as [rest c2] eqn:E2. injection H as <- <-.
    rewrite <- sapp_assoc. apply (IH _ _ _ _ E2). exact (walk_rows _ _ _ _ _ _ _ _ E1 Hpre).
Qed.

Lemma tail_at_row_start (fuel : nat) (cur : N) : cur mod 16 = 0 -> dump_mem_tail fuel cur = "".
Proof. intros H. destruct fuel; [reflexivity|]. cbn [dump_mem_tail]. rewrite H. reflexivity. Qed.

Lemma tail_closed : forall fuel cur,
  cur mod 16 <> 0 -> 16 - cur mod 16 <= N.of_nat fuel -> closed (dump_mem_tail fuel cur).
Proof.
  induction fuel as [|fu IH]; intros cur Hm Hf.
  - exfalso. lia.
  - cbn [dump_mem_tail]. destruct (cur mod 16 =? 0) eqn:E0; [lia|].
    destruct (cur mod 16 =? 15) eqn:E15.
    + assert (E : cur mod 16 = 15) by lia. rewrite E.
      rewrite tail_at_row_start; [rewrite sapp_nil_r; closed_tac | rewrite succ_mod16, E; reflexivity].
    + apply closed_prefix. apply IH; rewrite succ_mod16; lia.
Qed.

Lemma dump_memory_piece (m : memory) : piece (dump_memory m).
Proof.
  assert (Hh : closed mem_header) by (unfold mem_header; closed_tac).
  unfold dump_memory. destruct m as [|[k0 v0] r]; [apply closed_piece, Hh|].
  destruct (dump_mem_cells ((k0, v0) :: r) (k0 / 16 * 16)) as [t cur] eqn:E.
  pose proof (cells_rows _ _ _ _ mem_header E (fun _ => closed_piece _ Hh)) as Hr.
  destruct (cur mod 16 =? 0) eqn:E0.
  - rewrite tail_at_row_start by lia. rewrite sapp_nil_r. apply Hr. lia.
  - apply closed_piece. do 2 apply closed_prefix. apply tail_closed; lia.
Qed.

Lemma registers_piece (r : list N) : piece (dump_program_registers r).
Proof. rewrite registers_unlines. apply whole_piece. eexists. apply lines_unlines.
  repeat (constructor; [apply nonl_reg_line; reflexivity|]). constructor.
Qed.

(* ---- the state dump ---- *)
Lemma dump_memory_head (m : memory) : exists x, dump_memory m = mem_header ++ x.
Proof.
  unfold dump_memory. destruct m as [|[k0 v0] r]; [exists ""; rewrite sapp_nil_r; reflexivity|].
  destruct (dump_mem_cells ((k0, v0) :: r) (k0 / 16 * 16)) as [t cur]. eexists. reflexivity.
Qed.

Lemma dump_y86_parts (o : options) (p : program) (s : mstate) (text : string) :
  dump_y86 o p s = Ok text ->
  exists head banks tl,
    text = head ++ banks ++ tl /\ piece head /\ piece tl /\
    (if o_show_banks o then dump_custom_registers (values s) (p_banks p) else Ok "") = Ok banks /\
    (forall o', o_timeout o' = o_timeout o ->
       dump_y86 o' p s =
       do banks' <- (if o_show_banks o' then dump_custom_registers (values s) (p_banks p) else Ok "");
       Ok (head ++ banks' ++ tl)) /\
    (exists hl, lines head = Some hl /\ List.length hl = 6%nat) /\
    (exists after, lines tl = Some (memory_header_line :: after) /\ after <> []).
Proof.
  intros H. unfold dump_y86 in H. cbv zeta in H.
  destruct (if o_show_banks o then dump_custom_registers (values s) (p_banks p) else Ok "")
    as [banks|e] eqn:Hb; cbn [bind] in H; [|discriminate H].
  apply Ok_inj in H.
  match type of H with
  | (?h ++ nl ++ ?r ++ banks ++ ?m ++ ?f ++ nl ++ ?t) = _ =>
      exists (h ++ nl ++ r), banks, (m ++ f ++ nl ++ t);
      set (hd := h) in *; set (ft := f) in *; set (tail := t) in *
  end.
  assert (Htail : piece tail).
  { unfold tail. destruct (done o s && negb (timed_out o s)); [|apply piece_nil].
    apply closed_piece. apply closed_prefix.
    destruct (negb (halted s) && negb (timed_out o s)); [closed_tac|].
    rewrite sapp_nil_r. closed_tac. }
  assert (Htl : piece (dump_memory (mem s) ++ ft ++ nl ++ tail)).
  { apply piece_app; [apply dump_memory_piece|].
    rewrite <- (sapp_assoc ft nl tail). apply piece_app; [apply closed_piece, closed_end | exact Htail]. }
  split; [|split; [|split; [exact Htl|split; [reflexivity|split; [|split]]]]].
  - rewrite <- H. rewrite !sapp_assoc. reflexivity.
  - rewrite <- sapp_assoc. apply piece_app; [apply closed_piece, closed_end | apply registers_piece].
  - intros o' HT. unfold dump_y86. cbv zeta.
    assert (Ed : done o' s = done o s) by (unfold done, timed_out; rewrite HT; reflexivity).
    assert (Eto : timed_out o' s = timed_out o s) by (unfold timed_out; rewrite HT; reflexivity).
    rewrite Ed, Eto.
    destruct (if o_show_banks o' then dump_custom_registers (values s) (p_banks p) else Ok "") as [b'|e];
      cbn [bind]; [|reflexivity].
    unfold hd, ft, tail. rewrite !sapp_assoc. reflexivity.
  - assert (Hn : nonl hd = true).
    { unfold hd. destruct (halted s); [reflexivity|]. destruct (timed_out o s).
      - rewrite !nonl_app, nonl_pad_left; [reflexivity | reflexivity | apply nonl_dec].
      - destruct (done o s); [reflexivity|].
        rewrite !nonl_app, !nonl_pad_left; try reflexivity; apply nonl_dec. }
    rewrite registers_unlines, <- sapp_assoc, <- unlines_one, <- unlines_app.
    eexists. split; [apply lines_unlines | reflexivity].
    constructor; [exact Hn|].
    repeat (constructor; [apply nonl_reg_line; reflexivity|]). constructor.
  - destruct (piece_whole _ (dump_memory_piece (mem s))) as [lm Elm].
    destruct (closed_whole _ (closed_end ft)) as [lf Elf].
    destruct (piece_whole _ Htail) as [lt Elt].
    assert (Hlf : lf <> []).
    { intros ->. destruct (lines_inv _ _ Elf) as [E _]. destruct ft; discriminate E. }
    destruct (dump_memory_head (mem s)) as [x Ex]. rewrite Ex in Elm.
    change mem_header with (memory_header_line ++ nl) in Elm.
    rewrite sapp_assoc, lines_cons in Elm by reflexivity.
    destruct (lines x) as [rows|] eqn:Ex'; [|discriminate Elm]. clear Elm.
    exists (rows ++ lf ++ lt)%list. split.
    + rewrite <- (sapp_assoc ft nl tail).
      change (memory_header_line :: rows ++ lf ++ lt)%list with ((memory_header_line :: rows) ++ lf ++ lt)%list.
      apply lines_app; [|apply lines_app; assumption].
      rewrite Ex. change mem_header with (memory_header_line ++ nl).
      rewrite sapp_assoc, lines_cons by reflexivity. rewrite Ex'. reflexivity.
    + intros E. apply app_eq_nil in E. destruct E as [_ E]. apply app_eq_nil in E. destruct E as [E _].
      exact (Hlf E).
Qed.

Lemma dump_y86_piece o p s t : dump_y86 o p s = Ok t -> piece t.
Proof.
  intros H. destruct (dump_y86_parts o p s t H) as [head [banks [tl [-> [Hh [Ht [Hb _]]]]]]].
  apply piece_app; [exact Hh|]. apply piece_app; [|exact Ht].
  destruct (o_show_banks o); [exact (custom_registers_piece _ _ _ Hb)|].
  injection Hb as <-. apply piece_nil.
Qed.

(* ---- a cycle, a run, a session ---- *)
Lemma step_piece f o p s s' t : step f o p s = Ok (s', t) -> piece t.
Proof.
  unfold step. intros H.
  destruct (exec_actions f o (p_actions p) s) as [[s1 t1]|e] eqn:Ea; cbn [bind fst snd] in H;
    [|discriminate H].
  destruct (if o_show_wire_values o then dump_values o p (values s1) else Ok "") as [tbl|e] eqn:Et;
    cbn [bind] in H; [|discriminate H].
  destruct (process_banks (values s1) (p_banks p)) as [v2|e]; cbn [bind] in H; [|discriminate H].
  injection H as _ <-. apply piece_app; [exact (actions_piece _ _ _ _ _ _ Ea)|].
  destruct (o_show_wire_values o); [exact (dump_values_piece _ _ _ _ Et)|].
  injection Et as <-. apply piece_nil.
Qed.

Lemma cycle_dump_piece o p s d :
  (if o_show_regs_mem o then dump_y86 o p s else Ok "") = Ok d -> piece d.
Proof.
  destruct (o_show_regs_mem o); [apply dump_y86_piece|]. intros H. injection H as <-. apply piece_nil.
Qed.

Lemma run_piece f o p : forall fuel s s' t, run fuel f o p s = Ok (s', t) -> piece t.
Proof.
  induction fuel as [|fu IH]; intros s s' t H; rewrite run_unfold in H;
    (destruct (done o s); [injection H as _ <-; apply piece_nil|]).
  - discriminate H.
  - destruct (if o_show_regs_mem o then dump_y86 o p s else Ok "") as [d|e] eqn:Ed;
      cbn [bind] in H; [|discriminate H].
    destruct (step f o p s) as [[s1 t1]|e] eqn:Es; cbn [bind fst snd] in H; [|discriminate H].
    destruct (run fu f o p s1) as [[s2 t2]|e] eqn:Er; cbn [bind fst snd] in H; [|discriminate H].
    injection H as _ <-.
    apply piece_app; [exact (cycle_dump_piece _ _ _ _ Ed)|].
    apply piece_app; [exact (step_piece _ _ _ _ _ _ Es) | exact (IH _ _ _ Er)].
Qed.

Lemma session_piece fuel f o p s s' t : session fuel f o p s = Ok (s', t) -> piece t.
Proof.
  unfold session. intros H.
  destruct (run fuel f o p s) as [[s1 t1]|e] eqn:Er; cbn [bind fst snd] in H; [|discriminate H].
  destruct (dump_y86 o p s1) as [d|e] eqn:Ed; cbn [bind] in H; [|discriminate H].
  injection H as _ <-. apply piece_app; [exact (run_piece _ _ _ _ _ _ _ Er) | exact (dump_y86_piece _ _ _ _ Ed)].
Qed.

Theorem output_is_lines_holds : stmt_output_is_lines.
Proof.
  repeat split; intros.
  - eapply piece_whole, action_piece; eassumption.
  - eapply piece_whole, actions_piece; eassumption.
  - eapply piece_whole, dump_values_piece; eassumption.
  - eapply piece_whole, step_piece; eassumption.
  - eapply piece_whole, dump_y86_piece; eassumption.
  - eapply piece_whole, run_piece; eassumption.
  - eapply piece_whole, session_piece; eassumption.
Qed.

(* ================================================================================== *)
(* D. the order on option records and the command-line flags                          *)
(* ================================================================================== *)
Lemma on_implies_refl (b : bool) : on_implies b b.
Proof. intros H. exact H. Qed.
Lemma on_implies_trans (a b c : bool) : on_implies a b -> on_implies b c -> on_implies a c.
Proof. intros H1 H2 H. exact (H2 (H1 H)). Qed.
Lemma on_implies_false (b : bool) : on_implies false b.
Proof. intros H. discriminate H. Qed.
Lemma on_implies_true (b : bool) : on_implies b true.
Proof. intros _. reflexivity. Qed.
Lemma on_implies_andb (x b b' : bool) : on_implies b b' -> on_implies (x && b) (x && b').
Proof. intros H. destruct x; [exact H | apply on_implies_refl]. Qed.

Lemma trace_le_refl (o : options) : trace_le o o.
Proof. repeat split; apply on_implies_refl. Qed.
Lemma opts_le_refl (o : options) : opts_le o o.
Proof. split; [apply trace_le_refl|]. repeat split; apply on_implies_refl. Qed.
Lemma opts_le_trans (o1 o2 o3 : options) : opts_le o1 o2 -> opts_le o2 o3 -> opts_le o1 o3.
Proof.
  intros [[A1 [A2 A3]] [A4 [A5 A6]]] [[B1 [B2 B3]] [B4 [B5 B6]]].
  repeat split; eapply on_implies_trans; eassumption.
Qed.

Theorem opts_le_preorder_holds : stmt_opts_le_preorder.
Proof. split; [exact opts_le_refl | exact opts_le_trans]. Qed.

Theorem setters_order_holds : stmt_setters_order.
Proof.
  intros o. unfold opts_le, trace_le.
  repeat split; cbn [set_quiet set_debug set_test set_trace_assignments set_no_group set_timeout
                     o_trace_assignments o_trace_fixed o_show_wire_values o_group_wire_values
                     o_show_banks o_show_regs_mem o_show_disassembly o_timeout];
    first [apply on_implies_refl | apply on_implies_false | apply on_implies_true].
Qed.

Theorem quiet_debug_do_not_commute_holds : stmt_quiet_debug_do_not_commute.
Proof. split; [discriminate | split; reflexivity]. Qed.

Theorem opts_of_flags_fields_holds : stmt_opts_of_flags_fields.
Proof. intros [q d t u a] T. destruct q, d, t, u, a; reflexivity. Qed.

Theorem flags_order_holds : stmt_flags_order.
Proof.
  intros [q d t u a] [q' d' t' u' a'] T T'. rewrite !opts_of_flags_fields_holds.
  unfold opts_le, trace_le, same_table_form, flags_le, flags_same_form, on_implies.
  cbn [o_trace_assignments o_trace_fixed o_show_wire_values o_group_wire_values
       o_show_banks o_show_regs_mem o_show_disassembly o_timeout
       fl_quiet fl_debug fl_test fl_ungroup fl_trace_assignments].
  split.
  - destruct q, q', t, t'; cbn [negb]; intuition congruence.
  - destruct u, u'; cbn [negb]; intuition congruence.
Qed.

(* the chain asked for: -q  <=  (no flag)  <=  -d  <=  -d --trace-assignments, and -t below each *)
Example flags_chain (T : N) :
  opts_le (opts_of_flags (mkFlags true false false false false) T) (opts_of_flags no_flags T) /\
  opts_le (opts_of_flags no_flags T) (opts_of_flags (mkFlags false true false false false) T) /\
  opts_le (opts_of_flags (mkFlags false true false false false) T)
          (opts_of_flags (mkFlags false true false false true) T) /\
  opts_le (opts_of_flags (mkFlags false false true false false) T) (opts_of_flags no_flags T) /\
  (* -q -d is above -q and below -d, and not comparable with no flag at all *)
  opts_le (opts_of_flags (mkFlags true false false false false) T) (opts_of_flags (mkFlags true true false false false) T) /\
  opts_le (opts_of_flags (mkFlags true true false false false) T) (opts_of_flags (mkFlags false true false false false) T) /\
  ~ opts_le (opts_of_flags (mkFlags true true false false false) T) (opts_of_flags no_flags T) /\
  ~ opts_le (opts_of_flags no_flags T) (opts_of_flags (mkFlags true true false false false) T).
Proof.
  repeat split;
    try (apply (proj1 (flags_order_holds _ _ T T)); unfold flags_le, on_implies;
         cbn [fl_quiet fl_debug fl_test fl_trace_assignments no_flags]; intuition congruence).
  - intros H. apply (proj1 (flags_order_holds _ _ T T)) in H. destruct H as [_ [H _]].
    specialize (H eq_refl). discriminate H.
  - intros H. apply (proj1 (flags_order_holds _ _ T T)) in H. destruct H as [H _].
    specialize (H eq_refl). discriminate H.
Qed.

Example quiet_debug_record :
  opts_of_flags (mkFlags true true false false false) 9999 =
  set_timeout (set_debug (set_quiet default_options)) 9999 /\
  opts_of_flags (mkFlags true true false false false) 9999 =
  mkOpts false true true true true false false 9999.
Proof. split; reflexivity. Qed.

(* ================================================================================== *)
(* E. fewer switches, fewer lines                                                     *)
(* ================================================================================== *)
Ltac fewer_tac Ha Hf Hd :=
  repeat first
    [ apply fewer_refl, piece_whole, piece_nil
    | apply fewer_if;
      [ first [exact Ha | exact Hf | apply on_implies_andb; exact Hd]
      | first [solve [piece_tac] | apply closed_piece, trace_line_closed] ]
    | apply fewer_app ].

Theorem action_output_monotone_holds : stmt_action_output_monotone.
Proof.
  intros f o o' a s [Ha [Hf Hd]].
  destruct a; unfold exec_action; cbv zeta; repeat head_step; cbv beta iota;
    try reflexivity; (split; [reflexivity|]); fewer_tac Ha Hf Hd.
Qed.

Theorem actions_output_monotone_holds : stmt_actions_output_monotone.
Proof.
  intros f o o' acts s Hle. revert s. induction acts as [|a r IH]; intros s.
  - cbn [exec_actions]. split; [reflexivity | apply fewer_refl, piece_whole, piece_nil].
  - cbn [exec_actions].
    pose proof (action_output_monotone_holds f o o' a s Hle) as Ha.
    destruct (exec_action f o a s) as [[s1 t1]|e1];
      destruct (exec_action f o' a s) as [[s2 t2]|e2]; try contradiction; cbn [bind fst snd].
    + destruct Ha as [<- Ht]. specialize (IH s1).
      destruct (exec_actions f o r s1) as [[s3 t3]|e3];
        destruct (exec_actions f o' r s1) as [[s4 t4]|e4]; try contradiction; cbn [bind fst snd].
      * destruct IH as [<- Ht']. split; [reflexivity | apply fewer_app; assumption].
      * exact IH.
    + exact Ha.
Qed.

Lemma table_monotone (o o' : options) (p : program) (vals : list (string * wval)) :
  on_implies (o_show_wire_values o) (o_show_wire_values o') -> same_table_form o o' ->
  exists t t',
    (if o_show_wire_values o then dump_values o p vals else Ok "") = Ok t /\
    (if o_show_wire_values o' then dump_values o' p vals else Ok "") = Ok t' /\
    fewer_lines t t'.
Proof.
  intros Hw Hform.
  destruct (table_total_holds o' p vals) as [t' Et'].
  destruct (o_show_wire_values o) eqn:Eo.
  - rewrite (Hw eq_refl). exists t', t'. split; [|split; [exact Et'|]].
    + unfold dump_values in *. rewrite (Hform Eo). exact Et'.
    + apply fewer_refl, piece_whole. exact (dump_values_piece _ _ _ _ Et').
  - exists "". destruct (o_show_wire_values o').
    + exists t'. split; [reflexivity | split; [exact Et'|]].
      apply fewer_nil, piece_whole. exact (dump_values_piece _ _ _ _ Et').
    + exists "". split; [reflexivity | split; [reflexivity|]]. apply fewer_refl, piece_whole, piece_nil.
Qed.

Theorem step_output_monotone_holds : stmt_step_output_monotone.
Proof.
  intros f o o' p s [Htr [Hw _]] Hform. unfold step.
  pose proof (actions_output_monotone_holds f o o' (p_actions p) s Htr) as Ha.
  destruct (exec_actions f o (p_actions p) s) as [[s1 t1]|e1];
    destruct (exec_actions f o' (p_actions p) s) as [[s2 t2]|e2]; try contradiction; cbn [bind fst snd];
    [|exact Ha].
  destruct Ha as [<- Ht].
  destruct (table_monotone o o' p (values s1) Hw Hform) as [tb [tb' [E1 [E2 Htb]]]].
  rewrite E1, E2. cbn [bind].
  destruct (process_banks (values s1) (p_banks p)) as [v2|e]; cbn [bind]; [|reflexivity].
  split; [reflexivity | apply fewer_app; assumption].
Qed.

(* ---- the state dump ---- *)
Theorem dump_output_monotone_holds : stmt_dump_output_monotone.
Proof.
  intros o o' p s t' Hb HT H.
  destruct (dump_y86_parts o' p s t' H) as [head [banks' [tl [-> [Hh [Ht [Eb [Hother _]]]]]]]].
  rewrite (Hother o HT).
  assert (Hbp : piece banks').
  { destruct (o_show_banks o'); [exact (custom_registers_piece _ _ _ Eb)|].
    injection Eb as <-. apply piece_nil. }
  destruct (o_show_banks o) eqn:Eo.
  - rewrite (Hb eq_refl) in Eb. rewrite Eb. cbn [bind]. eexists. split; [reflexivity|].
    apply fewer_refl, piece_whole. apply piece_app; [exact Hh | apply piece_app; assumption].
  - cbn [bind]. eexists. split; [reflexivity|].
    apply fewer_app; [apply fewer_refl, piece_whole, Hh|].
    apply fewer_app; [apply fewer_nil, piece_whole, Hbp | apply fewer_refl, piece_whole, Ht].
Qed.

Lemma cycle_dump_monotone (o o' : options) (p : program) (s : mstate) (d' : string) :
  opts_le o o' -> o_timeout o = o_timeout o' ->
  (if o_show_regs_mem o' then dump_y86 o' p s else Ok "") = Ok d' ->
  exists d, (if o_show_regs_mem o then dump_y86 o p s else Ok "") = Ok d /\ fewer_lines d d'.
Proof.
  intros [_ [_ [Hr Hb]]] HT H.
  destruct (o_show_regs_mem o) eqn:Eo.
  - rewrite (Hr eq_refl) in H. exact (dump_output_monotone_holds o o' p s d' Hb HT H).
  - exists "". split; [reflexivity|]. apply fewer_nil, piece_whole. exact (cycle_dump_piece _ _ _ _ H).
Qed.

(* ---- a run ---- *)
Theorem run_output_monotone_holds : stmt_run_output_monotone.
Proof.
  intros fuel f o o' p. induction fuel as [|fu IH]; intros s s' t' Hle Hform HT H;
    rewrite run_unfold in H; rewrite run_unfold; rewrite (done_timeout_eq o o' s HT) in H;
    (destruct (done o s);
     [injection H as <- <-; exists ""; split; [reflexivity | apply fewer_refl, piece_whole, piece_nil]|]).
  - discriminate H.
  - destruct (if o_show_regs_mem o' then dump_y86 o' p s else Ok "") as [d'|e] eqn:Ed;
      cbn [bind] in H; [|discriminate H].
    destruct (step f o' p s) as [[s1 t1']|e] eqn:Es; cbn [bind fst snd] in H; [|discriminate H].
    destruct (run fu f o' p s1) as [[s2 t2']|e] eqn:Er; cbn [bind fst snd] in H; [|discriminate H].
    injection H as <- <-.
    destruct (cycle_dump_monotone o o' p s d' Hle HT Ed) as [d [Ed0 Hd]]. rewrite Ed0. cbn [bind].
    pose proof (step_output_monotone_holds f o o' p s Hle Hform) as Hs. rewrite Es in Hs.
    destruct (step f o p s) as [[s1o t1]|e]; [|contradiction]. destruct Hs as [-> Ht1].
    cbn [bind fst snd].
    destruct (IH s1 s2 t2' Hle Hform HT Er) as [t2 [Er0 Ht2]]. rewrite Er0. cbn [bind fst snd].
    eexists. split; [reflexivity|]. apply fewer_app; [exact Hd | apply fewer_app; assumption].
Qed.

Theorem session_output_monotone_holds : stmt_session_output_monotone.
Proof.
  intros fuel f o o' p s s' t' Hle Hform HT H. unfold session in *.
  destruct (run fuel f o' p s) as [[s1 t1']|e] eqn:Er; cbn [bind fst snd] in H; [|discriminate H].
  destruct (dump_y86 o' p s1) as [d'|e] eqn:Ed; cbn [bind] in H; [|discriminate H].
  injection H as <- <-.
  destruct (run_output_monotone_holds fuel f o o' p s s1 t1' Hle Hform HT Er) as [t1 [Er0 Ht1]].
  rewrite Er0. cbn [bind fst snd].
  destruct (dump_output_monotone_holds o o' p s1 d' (proj2 (proj2 (proj2 Hle))) HT Ed) as [d [Ed0 Hd]].
  rewrite Ed0. cbn [bind]. eexists. split; [reflexivity | apply fewer_app; assumption].
Qed.

Lemma opts_of_flags_timeout (fl : flags) (T : N) : o_timeout (opts_of_flags fl T) = T.
Proof. rewrite opts_of_flags_fields_holds. reflexivity. Qed.

Theorem session_flags_monotone_holds : stmt_session_flags_monotone.
Proof.
  intros fuel f fl fl' T p s s' t' Hle Hform H.
  apply (session_output_monotone_holds fuel f _ (opts_of_flags fl' T)); [| | |exact H].
  - apply (proj1 (flags_order_holds fl fl' T T)). exact Hle.
  - apply (proj2 (flags_order_holds fl fl' T T)). exact Hform.
  - rewrite !opts_of_flags_timeout. reflexivity.
Qed.

(* ---- a well-typed program: the same failure, too ---- *)
Theorem run_output_monotone_typed_holds : stmt_run_output_monotone_typed.
Proof.
  intros fuel f o o' G p s Hp Hs Hle Hform HT. revert s Hs.
  induction fuel as [|fu IH]; intros s Hs; rewrite !run_unfold; rewrite (done_timeout_eq o o' s HT);
    (destruct (done o s); [split; [reflexivity | apply fewer_refl, piece_whole, piece_nil]|]).
  - reflexivity.
  - assert (Hd' : exists d', (if o_show_regs_mem o' then dump_y86 o' p s else Ok "") = Ok d').
    { destruct (o_show_regs_mem o'); [exact (dump_y86_total o' G p s Hs) | eauto]. }
    destruct Hd' as [d' Ed']. destruct (cycle_dump_monotone o o' p s d' Hle HT Ed') as [d [Ed Hd]].
    rewrite Ed, Ed'. cbn [bind].
    pose proof (step_output_monotone_holds f o o' p s Hle Hform) as Hst.
    pose proof (step_safe_ok f o G p s Hp Hs) as Hsafe.
    destruct (step f o p s) as [[s1 t1]|e1]; destruct (step f o' p s) as [[s1' t1']|e1'];
      try contradiction; cbn [bind fst snd]; [|exact Hst].
    destruct Hst as [<- Ht1]. specialize (IH s1 Hsafe).
    destruct (run fu f o p s1) as [[s2 t2]|e2]; destruct (run fu f o' p s1) as [[s2' t2']|e2'];
      try contradiction; cbn [bind fst snd]; [|exact IH].
    destruct IH as [<- Ht2]. split; [reflexivity|].
    apply fewer_app; [exact Hd | apply fewer_app; assumption].
Qed.

(* ---- from arbitrary states only one direction holds ---- *)
(* a bank whose output wire has no value (no accepted program reaches such a state), stalled:
   the cycle runs, the state dump panics *)
Definition cex_bank : bank := mkBank "xX" [("x_a", "X_a", Bits 8)] [] "stall_X" "bubble_X".
Definition cex_prog : program := mkProgram [] [] [cex_bank] [] [].
Definition cex_state : mstate :=
  mkState [("stall_X", mkV 1 (Bits 1)); ("bubble_X", mkV 0 (Bits 1))] [] (repeat 0 16) None 0.
Definition cex_opts : options := set_timeout default_options 1.

Example cex_quiet_runs_default_panics :
  (exists s', run 1 gen_features (set_quiet cex_opts) cex_prog cex_state = Ok (s', "") /\ cycle s' = 1) /\
  run 1 gen_features cex_opts cex_prog cex_state = Err [mkErr Panicked ["X_a"]].
Proof. split; [eexists; split|]; vm_compute; reflexivity. Qed.

Lemma run_output_monotone_match_refuted : ~ stmt_run_output_monotone_match_draft.
Proof.
  intros H.
  specialize (H 1%nat gen_features (set_quiet cex_opts) cex_opts cex_prog cex_state
                (proj1 (setters_order_holds cex_opts))).
  assert (Hform : same_table_form (set_quiet cex_opts) cex_opts) by (intros E; discriminate E).
  specialize (H Hform eq_refl). vm_compute in H. exact H.
Qed.

(* ---- cycle by cycle ---- *)
Lemma cycle_dump_form (b : bool) (X : result string) (d : string) :
  (if b then X = Ok d else d = "") <-> (if b then X else Ok "") = Ok d.
Proof.
  destruct b; [tauto|]. split; [intros ->; reflexivity | intros H; injection H as <-; reflexivity].
Qed.

Lemma cycles_text_cons (d t : string) (cs : list (string * string)) :
  cycles_text ((d, t) :: cs) = d ++ t ++ cycles_text cs.
Proof. unfold cycles_text. cbn [map concat_strings fst snd]. apply sapp_assoc. Qed.

Theorem run_text_by_cycle_holds : stmt_run_text_by_cycle.
Proof.
  intros fuel f o p. induction fuel as [|fu IH]; intros s s' t H; rewrite run_unfold in H;
    (destruct (done o s) eqn:D;
     [injection H as <- <-; exists []; split; [constructor; exact D | reflexivity]|]).
  - discriminate H.
  - destruct (if o_show_regs_mem o then dump_y86 o p s else Ok "") as [d|e] eqn:Ed;
      cbn [bind] in H; [|discriminate H].
    destruct (step f o p s) as [[s1 t1]|e] eqn:Es; cbn [bind fst snd] in H; [|discriminate H].
    destruct (run fu f o p s1) as [[s2 t2]|e] eqn:Er; cbn [bind fst snd] in H; [|discriminate H].
    injection H as <- <-. destruct (IH s1 s2 t2 Er) as [cs [Hc ->]].
    exists ((d, t1) :: cs). split; [|rewrite cycles_text_cons; reflexivity].
    apply (rc_cycle f o p s d s1 t1 cs s2 D); [|exact Es | exact Hc].
    apply cycle_dump_form. exact Ed.
Qed.

Theorem run_cycles_aligned_holds : stmt_run_cycles_aligned.
Proof.
  intros f o o' p s cs' s' Hle Hform HT H.
  induction H as [s D | s d' s1 t' cs' s' D Hd Hs Hr IH].
  - exists []. split; [|constructor]. constructor. rewrite <- (done_timeout_eq o o' s HT). exact D.
  - destruct IH as [cs [Hc Hall]].
    apply cycle_dump_form in Hd. destruct (cycle_dump_monotone o o' p s d' Hle HT Hd) as [d [Ed Hfd]].
    pose proof (step_output_monotone_holds f o o' p s Hle Hform) as Hst. rewrite Hs in Hst.
    destruct (step f o p s) as [[s1o t]|e] eqn:Es; [|contradiction]. destruct Hst as [-> Hft].
    exists ((d, t) :: cs). split.
    + apply (rc_cycle f o p s d s1 t cs s'); [|apply cycle_dump_form; exact Ed | exact Es | exact Hc].
      rewrite <- (done_timeout_eq o o' s HT). exact D.
    + constructor; [split; assumption | exact Hall].
Qed.

(* what a dump consists of: at least the heading, five register lines, the memory heading and
   the closing line *)
Lemma dump_y86_line_count (o : options) (p : program) (s : mstate) (d : string) :
  dump_y86 o p s = Ok d -> exists l, lines d = Some l /\ (8 <= List.length l)%nat.
Proof.
  intros H. destruct (dump_y86_parts o p s d H)
    as [head [banks [tl [-> [_ [Htl [Hb [_ [[hl [Ehl Hlen]] [after [Eafter Hne]]]]]]]]]]].
  assert (Hbp : piece banks).
  { destruct (o_show_banks o); [exact (custom_registers_piece _ _ _ Hb)|].
    injection Hb as <-. apply piece_nil. }
  destruct (piece_whole _ Hbp) as [bl Ebl].
  exists (hl ++ bl ++ memory_header_line :: after)%list. split.
  - apply lines_app; [exact Ehl|]. apply lines_app; [exact Ebl | exact Eafter].
  - rewrite !app_length. cbn [List.length]. destruct after as [|a r]; [contradiction|].
    cbn [List.length]. lia.
Qed.

Theorem quiet_cycles_holds : stmt_quiet_cycles.
Proof.
  intros f o p s cs' s' H.
  assert (Hle : opts_le (set_quiet o) o) by exact (proj1 (setters_order_holds o)).
  assert (Hform : same_table_form (set_quiet o) o) by (intros E; discriminate E).
  induction H as [s D | s d' s1 t' cs' s' D Hd Hs Hr IH].
  - exists []. split; [|constructor]. constructor. exact D.
  - destruct IH as [cs [Hc Hall]].
    pose proof (step_output_monotone_holds f (set_quiet o) o p s Hle Hform) as Hst. rewrite Hs in Hst.
    destruct (step f (set_quiet o) p s) as [[s1o t]|e] eqn:Es; [|contradiction]. destruct Hst as [-> Hft].
    exists (("", t) :: cs). split.
    + apply (rc_cycle f (set_quiet o) p s "" s1 t cs s'); [exact D | reflexivity | exact Es | exact Hc].
    + constructor; [|exact Hall]. split; [reflexivity|]. split; [|exact Hft].
      intros Er. rewrite Er in Hd. cbn [fst]. exact (dump_y86_line_count o p s d' Hd).
Qed.

(* ---- -t ---- *)
Theorem test_dump_lines_holds : stmt_test_dump_lines.
Proof.
  intros o p s t' Hshow H.
  destruct (dump_y86_parts o p s t' H)
    as [head [banks [tl [-> [_ [_ [Hb [Hother [[hl [Ehl Hlen]] [after [Eafter _]]]]]]]]]]].
  rewrite Hshow in Hb.
  destruct (piece_whole _ (custom_registers_piece _ _ _ Hb)) as [bl Ebl].
  exists (head ++ "" ++ tl), banks, hl, bl, after.
  split; [|split; [exact Hb | split; [exact Ebl | split; [|split; [|exact Hlen]]]]].
  - rewrite (Hother (set_test o) eq_refl). reflexivity.
  - apply lines_app; [exact Ehl|]. apply lines_app; [exact Ebl | exact Eafter].
  - apply lines_app; [exact Ehl|]. exact Eafter.
Qed.

Theorem test_dump_same_holds : stmt_test_dump_same.
Proof.
  intros o p s [Hoff | Hnone].
  - destruct o as [a b c d e g h T]. cbn [o_show_banks] in Hoff. subst e. reflexivity.
  - assert (E : dump_custom_registers (values s) [] = Ok "") by reflexivity.
    unfold dump_y86. cbv zeta. rewrite Hnone, E.
    change (done (set_test o) s) with (done o s). change (timed_out (set_test o) s) with (timed_out o s).
    destruct (o_show_banks o); reflexivity.
Qed.

(* ================================================================================== *)
(* G. --ungroup-debug-wires                                                           *)
(* ================================================================================== *)
Lemma table_row_line (vals : list (string * wval)) (mn mv : N) (k : string) :
  table_row k (val_of vals k) mn mv = row_line vals mn mv k ++ nl.
Proof. unfold table_row, row_line. cbv zeta. rewrite !sapp_assoc. reflexivity. Qed.

Lemma rows_text_unlines (vals : list (string * wval)) (mn mv : N) (ks : list string) :
  rows_text vals ks mn mv = unlines (map (row_line vals mn mv) ks).
Proof.
  unfold rows_text. induction ks as [|k r IH]; [reflexivity|].
  cbn [map concat_strings]. rewrite unlines_cons, IH, table_row_line, sapp_assoc. reflexivity.
Qed.

Lemma nonl_row_line' (vals : list (string * wval)) (mn mv : N) (k : string) :
  nonl k = true -> nonl (row_line vals mn mv k) = true.
Proof.
  intros Hk. unfold row_line. cbv zeta.
  rewrite !nonl_app, Hk, nonl_spaces, (nonl_repeat " "%char _ eq_refl), nonl_pad_left;
    [reflexivity | reflexivity | apply nonl_hex].
Qed.

Lemma nonl_column_header (mn mv : N) : nonl (column_header mn mv) = true.
Proof.
  unfold column_header, pad_right. rewrite !nonl_app, (nonl_repeat " "%char _ eq_refl), nonl_pad_left;
    reflexivity.
Qed.

Lemma subtable_lines (vals : list (string * wval)) (ks : list string) (label : string) (header : bool) :
  nonl label = true -> (forall k, In k ks -> nonl k = true) ->
  lines (subtable_text vals ks label header) =
  Some (block label (if header then Some (column_header (name_col ks) (value_col vals ks)) else None)
              (map (row_line vals (name_col ks) (value_col vals ks)) ks)).
Proof.
  intros Hl Hk. destruct ks as [|k r]; [reflexivity|].
  unfold subtable_text. cbv beta iota zeta. set (ks := k :: r) in *.
  replace (block label _ (map _ ks)) with
    ([label] ++ (if header then [column_header (name_col ks) (value_col vals ks)] else []) ++
     map (row_line vals (name_col ks) (value_col vals ks)) ks ++ [""])%list
    by (unfold ks; destruct header; reflexivity).
  assert (Hrows : all_nonl (map (row_line vals (name_col ks) (value_col vals ks)) ks)).
  { apply Forall_forall. intros x Hx. apply in_map_iff in Hx. destruct Hx as [k' [<- Hin]].
    apply nonl_row_line'. exact (Hk k' Hin). }
  rewrite <- (sapp_assoc label nl).
  apply lines_app; [rewrite <- unlines_one; apply lines_unlines; constructor; [exact Hl | constructor]|].
  apply lines_app.
  - destruct header; [|reflexivity].
    match goal with
    | |- lines ?t = _ =>
        replace t with (column_header (name_col ks) (value_col vals ks) ++ nl)
          by (unfold column_header; rewrite !sapp_assoc; reflexivity)
    end.
    rewrite <- unlines_one. apply lines_unlines. constructor; [apply nonl_column_header | constructor].
  - apply lines_app; [rewrite rows_text_unlines; apply lines_unlines; exact Hrows | reflexivity].
Qed.

Lemma candidate_key (p : program) (vals : list (string * wval)) (k : string) :
  candidate p vals k -> In k (map fst vals).
Proof.
  intros [H _]. destruct (lookup vals k) as [v|] eqn:E; [|contradiction].
  apply lookup_In in E. apply in_map_iff. exists (k, v). split; [reflexivity | exact E].
Qed.

Lemma lines_nl_cons (t : string) (l : list string) : lines t = Some l -> lines (nl ++ t) = Some ("" :: l).
Proof. intros H. change (nl ++ t) with ("" ++ nl ++ t). rewrite lines_cons by reflexivity. rewrite H. reflexivity. Qed.

Lemma table_forms_common (p : program) (vals : list (string * wval)) (tg tu : string) :
  NoDup (map fst vals) -> (forall k, In k (map fst vals) -> no_newline k = true) ->
  types_mark_consts p ->
  dump_values_grouped p vals = Ok tg -> dump_values_ungrouped p vals = Ok tu ->
  exists ks k1 k2 k3 k4,
    Permutation ks (k1 ++ k2 ++ k3 ++ k4) /\
    rows_exactly (fun k => candidate p vals k /\ has (p_consts p) k = false) ks /\
    (forall k, In k (ks ++ k1 ++ k2 ++ k3 ++ k4) -> In k (map fst vals)) /\
    lines tu = Some (block "Values of wires:" (Some (column_header (name_col ks) (value_col vals ks)))
                           (map (row_line vals (name_col ks) (value_col vals ks)) ks)) /\
    lines tg = Some ("" :: block "Values of inputs to built-in components:" None
                                 (map (row_line vals (name_col k1) (value_col vals k1)) k1) ++
                           block "Values of outputs of built-in components:" None
                                 (map (row_line vals (name_col k2) (value_col vals k2)) k2) ++
                           block "Values of register bank signals:" None
                                 (map (row_line vals (name_col k3) (value_col vals k3)) k3) ++
                           block "Values of other wires:" None
                                 (map (row_line vals (name_col k4) (value_col vals k4)) k4))%list.
Proof.
  intros Hnd Hnl Htm Hg Hu.
  pose proof (table_lists_each_once_holds default_options p vals tg Hnd Hg) as Tg.
  pose proof (table_lists_each_once_holds (set_no_group default_options) p vals tu Hnd Hu) as Tu.
  cbn [o_group_wire_values default_options set_no_group] in Tg, Tu.
  destruct Tg as [k1 [k2 [k3 [k4 [R1 [R2 [R3 [R4 ->]]]]]]]]. destruct Tu as [ks [Rs ->]].
  exists ks, k1, k2, k3, k4.
  assert (Hkeys : forall Q l, rows_exactly Q l -> (forall k, Q k -> candidate p vals k) ->
                              forall k, In k l -> In k (map fst vals)).
  { intros Q l [_ [Hin _]] HQ k Hk. apply Hin in Hk. exact (candidate_key p vals k (HQ k Hk)). }
  assert (Hn : forall Q l, rows_exactly Q l -> (forall k, Q k -> candidate p vals k) ->
                           forall k, In k l -> nonl k = true).
  { intros Q l Hr HQ k Hk. apply no_newline_nonl, Hnl. exact (Hkeys Q l Hr HQ k Hk). }
  split; [exact (table_same_wires_both_forms_holds p vals ks k1 k2 k3 k4 Htm Rs R1 R2 R3 R4)|].
  split; [exact Rs|]. split; [|split].
  - intros k Hk. rewrite !in_app_iff in Hk.
    destruct Hk as [Hk|[Hk|[Hk|[Hk|Hk]]]];
      [exact (Hkeys _ _ Rs (fun k H => proj1 H) k Hk) | exact (Hkeys _ _ R1 (fun k H => proj1 H) k Hk)
      | exact (Hkeys _ _ R2 (fun k H => proj1 H) k Hk) | exact (Hkeys _ _ R3 (fun k H => proj1 H) k Hk)
      | exact (Hkeys _ _ R4 (fun k H => proj1 H) k Hk)].
  - apply subtable_lines; [reflexivity | exact (Hn _ _ Rs (fun k H => proj1 H))].
  - apply lines_nl_cons.
    apply lines_app; [apply (subtable_lines vals k1 _ false); [reflexivity | exact (Hn _ _ R1 (fun k H => proj1 H))]|].
    apply lines_app; [apply (subtable_lines vals k2 _ false); [reflexivity | exact (Hn _ _ R2 (fun k H => proj1 H))]|].
    apply lines_app; [apply (subtable_lines vals k3 _ false); [reflexivity | exact (Hn _ _ R3 (fun k H => proj1 H))]|].
    apply (subtable_lines vals k4 _ false); [reflexivity | exact (Hn _ _ R4 (fun k H => proj1 H))].
Qed.

Theorem table_forms_lines_holds : stmt_table_forms_lines.
Proof.
  intros p vals tg tu Hnd Hnl Htm Hg Hu.
  destruct (table_forms_common p vals tg tu Hnd Hnl Htm Hg Hu)
    as [ks [k1 [k2 [k3 [k4 [Hp [Rs [_ [Eu Eg]]]]]]]]].
  exists ks, k1, k2, k3, k4. split; [exact Hp | split; [exact Rs | split; [exact Eu | exact Eg]]].
Qed.

Lemma name_col_narrow (ks : list string) : (forall k, In k ks -> slen k <= 15) -> name_col ks = 15.
Proof.
  unfold name_col. induction ks as [|k r IH]; intros H; [reflexivity|].
  cbn [map fold_right]. rewrite IH by (intros k' Hk'; apply H; right; exact Hk').
  pose proof (H k (or_introl eq_refl)). lia.
Qed.

Lemma value_col_narrow (vals : list (string * wval)) (ks : list string) :
  (forall k, In k ks -> value_width_len (val_of vals k) <= 22) -> value_col vals ks = 22.
Proof.
  unfold value_col. induction ks as [|k r IH]; intros H; [reflexivity|].
  cbn [map fold_right]. rewrite IH by (intros k' Hk'; apply H; right; exact Hk').
  pose proof (H k (or_introl eq_refl)). lia.
Qed.

Theorem table_forms_same_rows_holds : stmt_table_forms_same_rows.
Proof.
  intros p vals tg tu Hnd Hnl Htm Hnarrow Hg Hu.
  destruct (table_forms_common p vals tg tu Hnd Hnl Htm Hg Hu)
    as [ks [k1 [k2 [k3 [k4 [Hp [Rs [Hkeys [Eu Eg]]]]]]]]].
  assert (Hcols : forall l, (forall k, In k l -> In k (ks ++ k1 ++ k2 ++ k3 ++ k4)) ->
                            name_col l = 15 /\ value_col vals l = 22).
  { intros l Hl. split.
    - apply name_col_narrow. intros k Hk. apply Hl, Hkeys in Hk. apply in_map_iff in Hk.
      destruct Hk as [[k' v] [E Hin]]. cbn [fst] in E. subst k'. exact (proj1 (Hnarrow k v Hin)).
    - apply value_col_narrow. intros k Hk. apply Hl, Hkeys in Hk. apply in_map_iff in Hk.
      destruct Hk as [[k' v] [E Hin]]. cbn [fst] in E. subst k'.
      unfold val_of. rewrite (In_lookup vals k v Hnd Hin). exact (proj2 (Hnarrow k v Hin)). }
  destruct (Hcols ks) as [Es1 Es2]; [intros k Hk; rewrite !in_app_iff; tauto|].
  destruct (Hcols k1) as [E11 E12]; [intros k Hk; rewrite !in_app_iff; tauto|].
  destruct (Hcols k2) as [E21 E22]; [intros k Hk; rewrite !in_app_iff; tauto|].
  destruct (Hcols k3) as [E31 E32]; [intros k Hk; rewrite !in_app_iff; tauto|].
  destruct (Hcols k4) as [E41 E42]; [intros k Hk; rewrite !in_app_iff; tauto|].
  rewrite Es1, Es2 in Eu. rewrite E11, E12, E21, E22, E31, E32, E41, E42 in Eg.
  exists (map (row_line vals 15 22) ks), (map (row_line vals 15 22) k1), (map (row_line vals 15 22) k2),
         (map (row_line vals 15 22) k3), (map (row_line vals 15 22) k4).
  split; [|split; [exact Eu | exact Eg]].
  rewrite <- !map_app. apply Permutation_map. exact Hp.
Qed.

(* ---- the drafts that fail ---- *)
Lemma block_In (label : string) (h : option string) (rows : list string) (x : string) :
  In x rows -> In x (block label h rows).
Proof.
  intros H. destruct rows as [|y r]; [contradiction|]. unfold block.
  right. apply in_or_app. right. apply in_or_app. left. exact H.
Qed.

Lemma blocks_In (l1 l2 l3 l4 : string) (r1 r2 r3 r4 : list string) (x : string) :
  In x (r1 ++ r2 ++ r3 ++ r4) ->
  In x ("" :: block l1 None r1 ++ block l2 None r2 ++ block l3 None r3 ++ block l4 None r4).
Proof.
  intros H. right. rewrite !in_app_iff in *.
  destruct H as [H|[H|[H|H]]]; [left | right; left | right; right; left | right; right; right];
    apply block_In; exact H.
Qed.

(* a long name next to a register-bank signal *)
Definition wide_prog : program := mkProgram [] [] [] [] [("X_a", TRegisterBankOutput)].
Definition wide_vals : list (string * wval) :=
  [("a_wire_with_a_long_name", mkV 1 (Bits 8)); ("X_a", mkV 2 (Bits 8))].
Definition wide_tg : string := match dump_values_grouped wide_prog wide_vals with Ok t => t | Err _ => "" end.
Definition wide_tu : string := match dump_values_ungrouped wide_prog wide_vals with Ok t => t | Err _ => "" end.

Example wide_tables :
  lines wide_tu = Some ["Values of wires:";
                        "Wire                                      Value";
                        "a_wire_with_a_long_name                    0x01";
                        "X_a                                        0x02";
                        ""] /\
  lines wide_tg = Some [""; "Values of register bank signals:";
                        "X_a                                0x02"; "";
                        "Values of other wires:";
                        "a_wire_with_a_long_name                    0x01"; ""].
Proof. split; vm_compute; reflexivity. Qed.

Lemma wide_types : types_mark_consts wide_prog.
Proof.
  intros k. split; [discriminate|]. unfold type_of, wide_prog. cbn [p_types lookup].
  destruct (String.eqb k "X_a"); discriminate.
Qed.

Lemma table_forms_same_rows_draft_refuted : ~ stmt_table_forms_same_rows_draft.
Proof.
  intros H.
  destruct (H wide_prog wide_vals wide_tg wide_tu) as [cu [rows [r1 [r2 [r3 [r4 [Hp [Eu Eg]]]]]]]].
  - apply NoDup_by_nodupb. vm_compute. reflexivity.
  - intros k [<-|[<-|[]]]; reflexivity.
  - exact wide_types.
  - vm_compute. reflexivity.
  - vm_compute. reflexivity.
  - rewrite (proj1 wide_tables) in Eu. rewrite (proj2 wide_tables) in Eg.
    injection Eg as Eg.
    destruct rows as [|x rows]; [discriminate Eu|].
    unfold block in Eu. cbn [List.app] in Eu. injection Eu as _ _ Er.
    destruct rows as [|y rows]; [discriminate Er|]. cbn [List.app] in Er. injection Er as Ey _.
    assert (Hin : In y (r1 ++ r2 ++ r3 ++ r4)) by (apply (Permutation_in y Hp); right; left; reflexivity).
    apply (blocks_In "Values of inputs to built-in components:" "Values of outputs of built-in components:"
                     "Values of register bank signals:" "Values of other wires:") in Hin.
    rewrite <- Eg, <- Ey in Hin.
    repeat (destruct Hin as [Hin|Hin]; [discriminate Hin|]). exact Hin.
Qed.

Lemma ungroup_fewer_lines_draft_refuted : ~ stmt_ungroup_fewer_lines_draft.
Proof.
  intros H.
  destruct (step gen_features (set_debug default_options) ex_run_p ex_run_s0) as [[s1 t1]|e] eqn:E1;
    [|vm_compute in E1; discriminate E1].
  destruct (step gen_features (set_no_group (set_debug default_options)) ex_run_p ex_run_s0)
    as [[s2 t2]|e] eqn:E2; [|vm_compute in E2; discriminate E2].
  destruct (H _ _ _ _ _ _ _ _ E1 E2) as [Hf|Hf];
    apply fewer_linesb_correct_holds in Hf;
    vm_compute in E1; injection E1 as _ <-; vm_compute in E2; injection E2 as _ <-;
    vm_compute in Hf; discriminate Hf.
Qed.

(* ================================================================================== *)
(* H. non-vacuity: a concrete accepted program under the option sets of the command   *)
(*    line, computed and derived from the theorems                                    *)
(* ================================================================================== *)
(* a counter in a register bank; every cycle fetches at pc, writes 8 bytes to data memory, reads
   and writes %rbx; halts in the third cycle *)
Definition demo_src : string :=
"register cC { n : 64 = 0; }
c_n = C_n + 1;
pc = C_n;
mem_addr = 0x100 + C_n;
mem_input = 0x1122334455667788 + C_n;
mem_writebit = 1;
mem_readbit = 0;
reg_srcA = 3;
reg_dstE = 3;
reg_inputE = C_n + reg_outputA;
Stat = [ C_n >= 2 : 2; 1 : 1 ];
".
Definition demo_stmts : list stmt :=
  match parse_text test_uclass doc_tiers (bytes_of_string demo_src) with Some l => l | None => [] end.
Definition demo_prog : program :=
  match build_program gen_features gen_fixed ascii_lower ascii_upper demo_stmts with
  | Ok p => p
  | Err _ => mkProgram [] [] [] [] []
  end.
Definition demo_s0 : mstate :=
  match initial_state demo_prog with Ok s => s | Err _ => mkState [] [] [] None 0 end.

Example demo_accepted :
  build_program gen_features gen_fixed ascii_lower ascii_upper demo_stmts = Ok demo_prog /\
  List.length (p_actions demo_prog) = 16%nat /\ List.length (p_banks demo_prog) = 1%nat /\
  initial_state demo_prog = Ok demo_s0.
Proof. vm_compute. repeat split. Qed.

Example demo_wf_stmts : Forall wf_stmt demo_stmts.
Proof.
  vm_compute.
  repeat (constructor; [repeat (constructor; try (split; [|split]); try (cbv; intros; discriminate);
                                 try exact Logic.I) |]).
  constructor.
Qed.

Lemma demo_typed : exists G, program_ok gen_features G demo_prog /\ state_ok G demo_prog demo_s0.
Proof.
  destruct (accept_program_ok_gen gen_features ascii_lower ascii_upper gen_fixed_ok gen_fixed_widths_ok
              demo_stmts demo_prog demo_wf_stmts (proj1 demo_accepted)) as [G Hp].
  exists G. split; [exact Hp|].
  destruct (initial_state_safe_ok gen_features G demo_prog Hp) as [s [Es Hs]].
  rewrite (proj2 (proj2 (proj2 demo_accepted))) in Es. apply Ok_inj in Es. rewrite Es. exact Hs.
Qed.

(* the command lines *)
Definition F_none : flags := no_flags.
Definition F_q : flags := mkFlags true false false false false.
Definition F_qt : flags := mkFlags true false true false false.
Definition F_t : flags := mkFlags false false true false false.
Definition F_d : flags := mkFlags false true false false false.
Definition F_qd : flags := mkFlags true true false false false.
Definition F_da : flags := mkFlags false true false false true.
Definition F_du : flags := mkFlags false true false true false.

Definition demo_session (fl : flags) : result (mstate * string) :=
  session 10 gen_features (opts_of_flags fl 9999) demo_prog demo_s0.
Definition demo_out (fl : flags) : string :=
  match demo_session fl with Ok (_, t) => t | Err _ => "" end.
Definition line_count (t : string) : option nat := option_map (@List.length string) (lines t).

(* computed: every session succeeds after 3 cycles, halted; the outputs have 10 < 11 < 43 < 121 <
   151 lines, and each is a sub-sequence of the next *)
Example demo_computed :
  map (fun fl => match demo_session fl with Ok (s, _) => Some (cycle s, halted s) | Err _ => None end)
      [F_qt; F_q; F_none; F_d; F_da; F_qd; F_t; F_du] = repeat (Some (3, true)) 8 /\
  map (fun fl => line_count (demo_out fl)) [F_qt; F_q; F_none; F_d; F_da; F_qd; F_t] =
    [Some 10; Some 11; Some 43; Some 121; Some 151; Some 89; Some 39]%nat /\
  fewer_linesb (demo_out F_qt) (demo_out F_q) = true /\
  fewer_linesb (demo_out F_q) (demo_out F_none) = true /\
  fewer_linesb (demo_out F_none) (demo_out F_d) = true /\
  fewer_linesb (demo_out F_d) (demo_out F_da) = true /\
  fewer_linesb (demo_out F_q) (demo_out F_qd) = true /\
  fewer_linesb (demo_out F_qd) (demo_out F_d) = true /\
  fewer_linesb (demo_out F_t) (demo_out F_none) = true /\
  (* and not the other way round; -q -d and no flag are incomparable; ungrouping is neither *)
  fewer_linesb (demo_out F_none) (demo_out F_q) = false /\
  fewer_linesb (demo_out F_qd) (demo_out F_none) = false /\
  fewer_linesb (demo_out F_none) (demo_out F_qd) = false /\
  fewer_linesb (demo_out F_du) (demo_out F_d) = false /\
  fewer_linesb (demo_out F_d) (demo_out F_du) = false.
Proof. vm_compute. repeat split. Qed.

(* the same from the theorem *)
Lemma demo_out_monotone (fl fl' : flags) :
  flags_le fl fl' -> flags_same_form fl fl' -> is_ok (demo_session fl') = true ->
  fewer_lines (demo_out fl) (demo_out fl') /\
  (exists s t t', demo_session fl = Ok (s, t) /\ demo_session fl' = Ok (s, t')).
Proof.
  intros Hle Hform Hok. unfold demo_out.
  destruct (demo_session fl') as [[s' t']|e] eqn:E; [|discriminate Hok].
  destruct (session_flags_monotone_holds 10%nat gen_features fl fl' 9999 demo_prog demo_s0 s' t' Hle Hform E)
    as [t [E0 Hf]].
  unfold demo_session at 1 2. rewrite E0. split; [exact Hf|]. exists s', t, t'. split; reflexivity.
Qed.

Ltac flags_facts :=
  unfold flags_le, flags_same_form, on_implies;
  cbn [fl_quiet fl_debug fl_test fl_ungroup fl_trace_assignments
       F_none F_q F_qt F_t F_d F_qd F_da F_du no_flags];
  intuition congruence.

Lemma flags_opts_le (fl fl' : flags) (T : N) :
  flags_le fl fl' -> opts_le (opts_of_flags fl T) (opts_of_flags fl' T).
Proof. apply (proj1 (flags_order_holds fl fl' T T)). Qed.
Lemma flags_form (fl fl' : flags) (T : N) :
  flags_same_form fl fl' -> same_table_form (opts_of_flags fl T) (opts_of_flags fl' T).
Proof. apply (proj2 (flags_order_holds fl fl' T T)). Qed.

Example demo_from_theorem :
  fewer_lines (demo_out F_qt) (demo_out F_q) /\
  fewer_lines (demo_out F_q) (demo_out F_none) /\
  fewer_lines (demo_out F_none) (demo_out F_d) /\
  fewer_lines (demo_out F_d) (demo_out F_da) /\
  fewer_lines (demo_out F_q) (demo_out F_qd) /\
  fewer_lines (demo_out F_qd) (demo_out F_d) /\
  fewer_lines (demo_out F_t) (demo_out F_none).
Proof.
  repeat split; apply demo_out_monotone; try flags_facts; vm_compute; reflexivity.
Qed.

(* the two agree (fewer_linesb decides fewer_lines) *)
Example demo_checker_agrees :
  fewer_linesb (demo_out F_q) (demo_out F_none) = true <-> fewer_lines (demo_out F_q) (demo_out F_none).
Proof. apply fewer_linesb_correct_holds. Qed.

(* the typed form: any two comparable option sets, the same outcome *)
Example demo_typed_instance :
  forall fuel o o', opts_le o o' -> same_table_form o o' -> o_timeout o = o_timeout o' ->
    match run fuel gen_features o demo_prog demo_s0, run fuel gen_features o' demo_prog demo_s0 with
    | Ok (s1, t), Ok (s2, t') => s1 = s2 /\ fewer_lines t t'
    | Err e1, Err e2 => e1 = e2
    | _, _ => False
    end.
Proof.
  intros fuel o o'. destruct demo_typed as [G [Hp Hs]].
  exact (run_output_monotone_typed_holds fuel gen_features o o' G demo_prog demo_s0 Hp Hs).
Qed.
(* e.g. with too little fuel both fail alike; with enough both succeed *)
Example demo_typed_computed :
  run 2 gen_features (opts_of_flags F_q 9999) demo_prog demo_s0 = Err [mkErr OutOfFuel []] /\
  run 2 gen_features (opts_of_flags F_d 9999) demo_prog demo_s0 = Err [mkErr OutOfFuel []] /\
  is_ok (run 3 gen_features (opts_of_flags F_q 9999) demo_prog demo_s0) = true /\
  is_ok (run 3 gen_features (opts_of_flags F_d 9999) demo_prog demo_s0) = true.
Proof. vm_compute. repeat split. Qed.

(* ---- one action, the actions of a cycle, one cycle ---- *)
Definition demo_fetch : action := AReadMemory None "pc" "i10bytes" 10 true.
Definition demo_s_mid : mstate := set_values demo_s0 (upd (values demo_s0) "pc" (mkV 0 (Bits 64))).

Example demo_action :
  match exec_action gen_features (opts_of_flags F_q 9999) demo_fetch demo_s_mid,
        exec_action gen_features (opts_of_flags F_none 9999) demo_fetch demo_s_mid,
        exec_action gen_features (opts_of_flags F_d 9999) demo_fetch demo_s_mid with
  | Ok (s1, t1), Ok (s2, t2), Ok (s3, t3) =>
      s1 = s2 /\ s2 = s3 /\
      lines t1 = Some [] /\
      lines t2 = Some ["pc = 0x0; loaded [00 : halt]"] /\
      lines t3 = Some ["i10bytes set to 0x0 (reading 10 bytes from memory at pc=0x0)";
                       "pc = 0x0; loaded [00 : halt]"]
  | _, _, _ => False
  end.
Proof. vm_compute. repeat split. Qed.

Example demo_action_from_theorem :
  match exec_action gen_features (opts_of_flags F_none 9999) demo_fetch demo_s_mid,
        exec_action gen_features (opts_of_flags F_d 9999) demo_fetch demo_s_mid with
  | Ok (s1, t), Ok (s2, t') => s1 = s2 /\ fewer_lines t t'
  | Err e1, Err e2 => e1 = e2
  | _, _ => False
  end.
Proof.
  apply action_output_monotone_holds.
  apply (fun H => proj1 (flags_opts_le F_none F_d 9999 H)). flags_facts.
Qed.

Example demo_actions_from_theorem :
  match exec_actions gen_features (opts_of_flags F_none 9999) (p_actions demo_prog) demo_s0,
        exec_actions gen_features (opts_of_flags F_da 9999) (p_actions demo_prog) demo_s0 with
  | Ok (s1, t), Ok (s2, t') => s1 = s2 /\ fewer_lines t t'
  | Err e1, Err e2 => e1 = e2
  | _, _ => False
  end.
Proof.
  apply actions_output_monotone_holds.
  apply (fun H => proj1 (flags_opts_le F_none F_da 9999 H)). flags_facts.
Qed.
Example demo_actions_computed :
  match exec_actions gen_features (opts_of_flags F_none 9999) (p_actions demo_prog) demo_s0,
        exec_actions gen_features (opts_of_flags F_da 9999) (p_actions demo_prog) demo_s0 with
  | Ok (s1, t), Ok (s2, t') => line_count t = Some 1%nat /\ line_count t' = Some 16%nat
  | _, _ => False
  end.
Proof. vm_compute. repeat split. Qed.

Example demo_step_from_theorem :
  match step gen_features (opts_of_flags F_q 9999) demo_prog demo_s0,
        step gen_features (opts_of_flags F_d 9999) demo_prog demo_s0 with
  | Ok (s1, t), Ok (s2, t') => s1 = s2 /\ fewer_lines t t'
  | Err e1, Err e2 => e1 = e2
  | _, _ => False
  end.
Proof.
  apply step_output_monotone_holds.
  - apply flags_opts_le. flags_facts.
  - apply flags_form. flags_facts.
Qed.
Example demo_step_computed :
  match step gen_features (opts_of_flags F_q 9999) demo_prog demo_s0,
        step gen_features (opts_of_flags F_d 9999) demo_prog demo_s0 with
  | Ok (s1, t), Ok (s2, t') => line_count t = Some 0%nat /\ line_count t' = Some 27%nat
  | _, _ => False
  end.
Proof. vm_compute. repeat split. Qed.

(* ---- the run, cycle by cycle ---- *)
Lemma run_cycles_count f o p s cs s' :
  run_cycles f o p s cs s' -> cycle s' = cycle s + N.of_nat (List.length cs).
Proof.
  intros H. induction H as [s D | s d s1 t cs s' D Hd Hs Hr IH]; [cbn [List.length]; lia|].
  rewrite IH, (step_cycle_ok _ _ _ _ _ _ Hs). cbn [List.length]. lia.
Qed.

Example demo_cycles :
  exists cs cs' s',
    run_cycles gen_features (opts_of_flags F_q 9999) demo_prog demo_s0 cs s' /\
    run_cycles gen_features (opts_of_flags F_none 9999) demo_prog demo_s0 cs' s' /\
    List.length cs' = 3%nat /\
    Forall2 (fun c c' => fst c = "" /\
                         (exists l, lines (fst c') = Some l /\ (8 <= List.length l)%nat) /\
                         fewer_lines (snd c) (snd c')) cs cs'.
Proof.
  destruct (run 10 gen_features (opts_of_flags F_none 9999) demo_prog demo_s0) as [[s' t']|e] eqn:E;
    [|vm_compute in E; discriminate E].
  destruct (run_text_by_cycle_holds _ _ _ _ _ _ _ E) as [cs' [Hc' Et']].
  destruct (quiet_cycles_holds _ _ _ _ _ _ Hc') as [cs [Hc Hall]].
  exists cs, cs', s'. split; [exact Hc | split; [exact Hc' | split]].
  - pose proof (run_cycles_count _ _ _ _ _ _ Hc') as Hn.
    assert (E3 : cycle s' = 3) by (vm_compute in E; injection E as <- _; reflexivity).
    assert (E0 : cycle demo_s0 = 0) by (vm_compute; reflexivity).
    rewrite E3, E0 in Hn. lia.
  - clear -Hall. induction Hall as [|c c' r r' [A [B C]] _ IH]; constructor; [|exact IH].
    split; [exact A | split; [exact (B eq_refl) | exact C]].
Qed.

Example demo_cycles_aligned :
  forall cs' s',
    run_cycles gen_features (opts_of_flags F_none 9999) demo_prog demo_s0 cs' s' ->
    exists cs, run_cycles gen_features (opts_of_flags F_t 9999) demo_prog demo_s0 cs s' /\
      Forall2 (fun c c' => fewer_lines (fst c) (fst c') /\ fewer_lines (snd c) (snd c')) cs cs'.
Proof.
  intros cs' s'. apply run_cycles_aligned_holds.
  - apply flags_opts_le. flags_facts.
  - apply flags_form. flags_facts.
  - reflexivity.
Qed.

(* ---- the final dump with and without -t ---- *)
Definition demo_final : mstate :=
  match demo_session F_none with Ok (s, _) => s | Err _ => demo_s0 end.

Example demo_test_dump :
  match dump_y86 (opts_of_flags F_none 9999) demo_prog demo_final,
        dump_y86 (opts_of_flags F_t 9999) demo_prog demo_final with
  | Ok t', Ok t =>
      lines t' = Some
        ["+----------------------- halted in state: ------------------------------+";
         "| RAX:                0   RCX:                0   RDX:                0 |";
         "| RBX:                3   RSP:                0   RBP:                0 |";
         "| RSI:                0   RDI:                0   R8:                 0 |";
         "| R9:                 0   R10:                0   R11:                0 |";
         "| R12:                0   R13:                0   R14:                0 |";
         "| register cC(N) { n=0000000000000003 }                                 |";
         "| used memory:   _0 _1 _2 _3  _4 _5 _6 _7   _8 _9 _a _b  _c _d _e _f    |";
         "|  0x0000010_:   88 89 8a 77  66 55 44 33   22 11                       |";
         "+--------------------- (end of halted state) ---------------------------+";
         "Cycles run: 3"] /\
      lines t = Some
        ["+----------------------- halted in state: ------------------------------+";
         "| RAX:                0   RCX:                0   RDX:                0 |";
         "| RBX:                3   RSP:                0   RBP:                0 |";
         "| RSI:                0   RDI:                0   R8:                 0 |";
         "| R9:                 0   R10:                0   R11:                0 |";
         "| R12:                0   R13:                0   R14:                0 |";
         "| used memory:   _0 _1 _2 _3  _4 _5 _6 _7   _8 _9 _a _b  _c _d _e _f    |";
         "|  0x0000010_:   88 89 8a 77  66 55 44 33   22 11                       |";
         "+--------------------- (end of halted state) ---------------------------+";
         "Cycles run: 3"]
  | _, _ => False
  end.
Proof. vm_compute. split; reflexivity. Qed.

Example demo_test_dump_from_theorem :
  forall t', dump_y86 (opts_of_flags F_none 9999) demo_prog demo_final = Ok t' ->
    exists t bank_text before banks after,
      dump_y86 (opts_of_flags F_t 9999) demo_prog demo_final = Ok t /\
      dump_custom_registers (values demo_final) (p_banks demo_prog) = Ok bank_text /\
      lines bank_text = Some banks /\
      lines t' = Some (before ++ banks ++ memory_header_line :: after)%list /\
      lines t = Some (before ++ memory_header_line :: after)%list /\
      List.length before = 6%nat.
Proof.
  intros t' H.
  exact (test_dump_lines_holds (opts_of_flags F_none 9999) demo_prog demo_final t' eq_refl H).
Qed.

(* ---- complete lines ---- *)
Example demo_output_is_lines : forall fl s t, demo_session fl = Ok (s, t) -> whole_lines t.
Proof.
  intros fl s t H.
  exact (proj2 (proj2 (proj2 (proj2 (proj2 (proj2 output_is_lines_holds))))) _ _ _ _ _ _ _ H).
Qed.

(* ---- the two forms of the table in the first cycle ---- *)
Definition demo_vals : list (string * wval) :=
  match exec_actions gen_features default_options (p_actions demo_prog) demo_s0 with
  | Ok (s, _) => values s
  | Err _ => []
  end.
Definition demo_tg : string := match dump_values_grouped demo_prog demo_vals with Ok t => t | Err _ => "" end.
Definition demo_tu : string := match dump_values_ungrouped demo_prog demo_vals with Ok t => t | Err _ => "" end.

Example demo_table_forms :
  exists rows r1 r2 r3 r4,
    Permutation rows (r1 ++ r2 ++ r3 ++ r4) /\ List.length rows = 14%nat /\
    lines demo_tu = Some (block "Values of wires:" (Some (column_header 15 22)) rows) /\
    lines demo_tg = Some ("" :: block "Values of inputs to built-in components:" None r1 ++
                                block "Values of outputs of built-in components:" None r2 ++
                                block "Values of register bank signals:" None r3 ++
                                block "Values of other wires:" None r4)%list.
Proof.
  destruct (table_forms_same_rows_holds demo_prog demo_vals demo_tg demo_tu)
    as [rows [r1 [r2 [r3 [r4 [Hp [Eu Eg]]]]]]].
  - apply NoDup_by_nodupb. vm_compute. reflexivity.
  - assert (H : forallb no_newline (map fst demo_vals) = true) by (vm_compute; reflexivity).
    intros k Hk. exact (proj1 (forallb_forall _ _) H k Hk).
  - exact (built_types_mark_consts_holds _ _ _ _ _ _ (proj1 demo_accepted)).
  - assert (H : forallb (fun kv => (slen (fst kv) <=? 15) && (value_width_len (snd kv) <=? 22)) demo_vals = true)
      by (vm_compute; reflexivity).
    intros k v Hin. pose proof (proj1 (forallb_forall _ _) H (k, v) Hin) as Hkv. cbn [fst snd] in Hkv. lia.
  - vm_compute. reflexivity.
  - vm_compute. reflexivity.
  - exists rows, r1, r2, r3, r4. split; [exact Hp | split; [|split; [exact Eu | exact Eg]]].
    assert (El : lines demo_tu = Some (block "Values of wires:" (Some (column_header 15 22)) rows)) by exact Eu.
    assert (Hc : line_count demo_tu = Some 17%nat) by (vm_compute; reflexivity).
    unfold line_count in Hc. rewrite El in Hc. cbn [option_map] in Hc. injection Hc as Hc.
    destruct rows as [|x rows]; [discriminate Hc|].
    unfold block in Hc. cbn [List.length List.app] in Hc. rewrite app_length in Hc.
    cbn [List.length] in *. lia.
Qed.

(* ---- the remaining instances ---- *)
Example default_between_quiet_and_debug :
  opts_le (set_quiet default_options) default_options /\
  opts_le default_options (set_debug default_options) /\
  opts_le (set_quiet default_options) (set_debug default_options) /\
  opts_le default_options (set_trace_assignments (set_debug default_options)) /\
  ~ opts_le default_options (set_quiet default_options) /\
  ~ opts_le (set_debug default_options) default_options.
Proof.
  split; [exact (proj1 (setters_order_holds default_options))|].
  split; [exact (proj1 (proj2 (setters_order_holds default_options)))|].
  split; [exact (opts_le_trans _ _ _ (proj1 (setters_order_holds default_options))
                               (proj1 (proj2 (setters_order_holds default_options))))|].
  split; [exact (opts_le_trans _ _ _ (proj1 (proj2 (setters_order_holds default_options)))
                               (proj1 (proj2 (proj2 (proj2 (setters_order_holds (set_debug default_options)))))))|].
  split; intros [[_ [A B]] [C [D _]]].
  - specialize (D eq_refl). discriminate D.
  - specialize (A eq_refl). discriminate A.
Qed.

Example demo_dump_monotone :
  forall t', dump_y86 (opts_of_flags F_none 9999) demo_prog demo_final = Ok t' ->
    exists t, dump_y86 (opts_of_flags F_t 9999) demo_prog demo_final = Ok t /\ fewer_lines t t'.
Proof.
  intros t'. apply dump_output_monotone_holds; [apply on_implies_false | reflexivity].
Qed.

Example demo_test_same :
  dump_y86 (set_test (opts_of_flags F_t 9999)) demo_prog demo_final =
  dump_y86 (opts_of_flags F_t 9999) demo_prog demo_final.
Proof. apply test_dump_same_holds. left. reflexivity. Qed.

(* the general form on the program with the long name (its two tables: wide_tables above) *)
Example wide_forms_lines :
  exists ks k1 k2 k3 k4,
    Permutation ks (k1 ++ k2 ++ k3 ++ k4) /\
    rows_exactly (fun k => candidate wide_prog wide_vals k /\ has (p_consts wide_prog) k = false) ks /\
    lines wide_tu = Some (block "Values of wires:" (Some (column_header (name_col ks) (value_col wide_vals ks)))
                           (map (row_line wide_vals (name_col ks) (value_col wide_vals ks)) ks)) /\
    let sub label k := block label None (map (row_line wide_vals (name_col k) (value_col wide_vals k)) k) in
    lines wide_tg = Some ("" :: sub "Values of inputs to built-in components:" k1 ++
                                sub "Values of outputs of built-in components:" k2 ++
                                sub "Values of register bank signals:" k3 ++
                                sub "Values of other wires:" k4)%list.
Proof.
  apply table_forms_lines_holds.
  - apply NoDup_by_nodupb. vm_compute. reflexivity.
  - intros k [<-|[<-|[]]]; reflexivity.
  - exact wide_types.
  - vm_compute. reflexivity.
  - vm_compute. reflexivity.
Qed.

(* ---- axiom audit ---- *)
Print Assumptions whole_lines_char_holds.
Print Assumptions fewer_linesb_correct_holds.
Print Assumptions output_is_lines_holds.
Print Assumptions opts_le_preorder_holds.
Print Assumptions setters_order_holds.
Print Assumptions quiet_debug_do_not_commute_holds.
Print Assumptions opts_of_flags_fields_holds.
Print Assumptions flags_order_holds.
Print Assumptions action_output_monotone_holds.
Print Assumptions actions_output_monotone_holds.
Print Assumptions step_output_monotone_holds.
Print Assumptions dump_output_monotone_holds.
Print Assumptions run_output_monotone_holds.
Print Assumptions session_output_monotone_holds.
Print Assumptions session_flags_monotone_holds.
Print Assumptions run_output_monotone_typed_holds.
Print Assumptions run_output_monotone_match_refuted.
Print Assumptions run_text_by_cycle_holds.
Print Assumptions run_cycles_aligned_holds.
Print Assumptions quiet_cycles_holds.
Print Assumptions test_dump_lines_holds.
Print Assumptions test_dump_same_holds.
Print Assumptions table_forms_lines_holds.
Print Assumptions table_forms_same_rows_holds.
Print Assumptions table_forms_same_rows_draft_refuted.
Print Assumptions ungroup_fewer_lines_draft_refuted.
Print Assumptions demo_computed.
Print Assumptions demo_from_theorem.
Print Assumptions demo_typed_instance.
Print Assumptions demo_cycles.
Print Assumptions demo_table_forms.
