(* C12 (renaming half): renaming wires consistently leaves acceptance, every wire's value in
   every cycle and the final machine state unchanged.

   A consistent renaming is given by two functions on names: [r] for wires and constants and [q]
   for the register names written inside register banks.  A register [foo] of a bank [xY]
   introduces the signals [x_foo] and [Y_foo]; the bank's letters are kept, so [r] has to send
   [x_foo] to [x_(q foo)] (condition [bank_compatible]).  Bank names, built-in component wires
   and the [stall_Y] / [bubble_Y] control signals are kept. *)
From HclV Require Import Base Expr Machine MachineSpec Graph Build BuildSpec Generated.
Open Scope list_scope.
Open Scope string_scope.

(* ====================================================================================== *)
(* 1. applying a renaming                                                                  *)
(* ====================================================================================== *)
Section Rename.
  Variable r : string -> string.          (* wires and constants *)
  Variable q : string -> string.          (* register names inside banks *)

  Fixpoint rename_expr (e : expr) : expr :=
    match e with
    | EConst v => EConst v
    | EBin op l x => EBin op (rename_expr l) (rename_expr x)
    | EUn op e1 => EUn op (rename_expr e1)
    | EMux a => EMux (rename_arms a)
    | EWire n => EWire (r n)
    | ESlice e1 lo hi => ESlice (rename_expr e1) lo hi
    | ECat l x => ECat (rename_expr l) (rename_expr x)
    | EIn e1 items => EIn (rename_expr e1) (rename_exprs items)
    end
  with rename_arms (a : arms) : arms :=
    match a with
    | ANil => ANil
    | ACons c v rest => ACons (rename_expr c) (rename_expr v) (rename_arms rest)
    end
  with rename_exprs (items : exprs) : exprs :=
    match items with
    | XNil => XNil
    | XCons e1 rest => XCons (rename_expr e1) (rename_exprs rest)
    end.

  (* every identifier occurrence of a statement: declared names, assignment targets, the names
     read by expressions; inside a bank the register names (by q) and the initial-value
     expressions; the bank's own name is kept *)
  Definition rename_stmt (s : stmt) : stmt :=
    match s with
    | SConst decls => SConst (map (fun ne => (r (fst ne), rename_expr (snd ne))) decls)
    | SWire decls => SWire (map (fun nw => (r (fst nw), snd nw)) decls)
    | SAssign assigns => SAssign (map (fun ne => (map r (fst ne), rename_expr (snd ne))) assigns)
    | SBank name regs =>
        SBank name (map (fun x => (q (fst (fst x)), snd (fst x), rename_expr (snd x))) regs)
    end.

  (* ---- the same renaming on what Program::new produces ------------------------------------- *)
  Definition rename_action (a : action) : action :=
    match a with
    | AAssign n e w => AAssign (r n) (rename_expr e) w
    | AReadReg num outp => AReadReg (r num) (r outp)
    | AReadMemory en addr outp n i => AReadMemory (option_map r en) (r addr) (r outp) n i
    | AWriteReg num inp => AWriteReg (r num) (r inp)
    | AWriteMemory en addr inp n => AWriteMemory (option_map r en) (r addr) (r inp) n
    | ASetStatus w => ASetStatus (r w)
    end.

  Definition rename_keys {V} (m : list (string * V)) : list (string * V) :=
    map (fun kv => (r (fst kv), snd kv)) m.

  Definition rename_bank (b : bank) : bank :=
    mkBank (b_label b)
           (map (fun sg => (r (fst (fst sg)), r (snd (fst sg)), snd sg)) (b_signals b))
           (rename_keys (b_defaults b)) (r (b_stall b)) (r (b_bubble b)).

  Definition rename_program (p : program) : program :=
    mkProgram (rename_keys (p_consts p)) (map rename_action (p_actions p)) (map rename_bank (p_banks p))
              (map r (p_defaulted p)) (rename_keys (p_types p)).

  (* diagnostics: the names a diagnostic carries are wire names, except
     - DuplicateRegister / MismatchedRegisterDefaultWidths [bank; register]: the register by q,
     - InvalidRegisterBankName [bank]: kept,
     - PartialFixedInput (present inputs, "/", missing inputs of a built-in component): kept *)
  Definition rename_err_names (k : ekind) (names : list string) : list string :=
    match k with
    | DuplicateRegister | MismatchedRegisterDefaultWidths =>
        match names with
        | [b; reg] => [b; q reg]
        | _ => names
        end
    | InvalidRegisterBankName | PartialFixedInput => names
    | _ => map r names
    end.
  Definition rename_err (e : err) : err := mkErr (ek e) (rename_err_names (ek e) (enames e)).

  Definition rename_build_result (x : result program) : result program :=
    match x with
    | Ok p => Ok (rename_program p)
    | Err es => Err (map rename_err es)
    end.

  Definition rename_state (s : mstate) : mstate :=
    mkState (rename_keys (values s)) (mem s) (regs s) (last_status s) (cycle s).

  (* ---- the side conditions --------------------------------------------------------------- *)
  (* the names a statement mentions *)
  Definition stmt_mentions (s : stmt) : list string :=
    match s with
    | SConst decls => flat_map (fun ne => fst ne :: refs (snd ne)) decls
    | SWire decls => map fst decls
    | SAssign assigns => flat_map (fun ne => (fst ne ++ refs (snd ne))%list) assigns
    | SBank _ regs => flat_map (fun x => refs (snd x)) regs
    end.

  (* the signals a bank declaration introduces (when its name consists of two characters) *)
  Definition bank_signals_of (s : stmt) : list string :=
    match s with
    | SBank name regs =>
        match utf8_chars name "" with
        | [inp; outp] =>
            ("stall_" ++ outp) :: ("bubble_" ++ outp) ::
            flat_map (fun x => [inp ++ "_" ++ fst (fst x); outp ++ "_" ++ fst (fst x)]) regs
        | _ => []
        end
    | _ => []
    end.

  (* every name that plays a role when the program is built and run: what the program mentions,
     the wires of the built-in components, the signals of its register banks *)
  Definition relevant_names (fixed : list fixed_fn) (stmts : list stmt) : list string :=
    (fixed_all_names fixed ++ flat_map stmt_mentions stmts ++ flat_map bank_signals_of stmts)%list.

  (* r follows the shape of bank signals: letters and control signals kept, register part by q *)
  Definition bank_compatible (s : stmt) : Prop :=
    match s with
    | SBank name regs =>
        match utf8_chars name "" with
        | [inp; outp] =>
            r ("stall_" ++ outp) = "stall_" ++ outp /\ r ("bubble_" ++ outp) = "bubble_" ++ outp /\
            forall x, In x regs ->
              r (inp ++ "_" ++ fst (fst x)) = inp ++ "_" ++ q (fst (fst x)) /\
              r (outp ++ "_" ++ fst (fst x)) = outp ++ "_" ++ q (fst (fst x))
        | _ => True
        end
    | _ => True
    end.

  (* a consistent renaming of the program: distinct relevant names stay distinct (in particular no
     user name is mapped onto a built-in, bank-signal or control-signal name, nor onto another user
     name), built-in wires are kept, bank signals keep their shape *)
  Definition consistent_renaming (fixed : list fixed_fn) (stmts : list stmt) : Prop :=
    (forall a b, In a (relevant_names fixed stmts) -> In b (relevant_names fixed stmts) -> r a = r b -> a = b) /\
    (forall n, In n (fixed_all_names fixed) -> r n = n) /\
    (forall s, In s stmts -> bank_compatible s).
End Rename.

(* ====================================================================================== *)
(* 2. expressions: the checker and the evaluator commute with renaming                     *)
(* ====================================================================================== *)
(* environments related along r on the names the expression reads; no inverse of r is needed *)
Definition stmt_refs_rename : Prop :=
  forall r e, refs (rename_expr r e) = map r (refs e).

Definition rename_expr_result {A} (r q : string -> string) (x : result A) : result A :=
  match x with Ok a => Ok a | Err es => Err (map (rename_err r q) es) end.

Definition stmt_check_rename : Prop :=
  forall f r q (G G' : string -> option width) (C C' : string -> option wval) e,
    (forall k, In k (refs e) -> G' (r k) = G k) ->
    (forall k, In k (refs e) -> C' (r k) = C k) ->
    check f G' C' (rename_expr r e) = rename_expr_result r q (check f G C e).

Definition stmt_eval_rename : Prop :=
  forall f r q (rho rho' : string -> option wval) e,
    (forall k, In k (refs e) -> rho' (r k) = rho k) ->
    eval f rho' (rename_expr r e) = rename_expr_result r q (eval f rho e).

(* ====================================================================================== *)
(* 3. the sorter commutes with an injective renaming of the nodes                          *)
(* ====================================================================================== *)
Definition map_graph {A B} (h : A -> B) (g : graph A) : graph B :=
  mkGraph (map h (g_nodes g)) (map (fun kv => (h (fst kv), map h (snd kv))) (g_succ g)) (g_num_edges g).

Definition map_sort_result {A B} (h : A -> B) (x : result (list A + list A)) : result (list B + list B) :=
  match x with
  | Ok (inl order) => Ok (inl (map h order))
  | Ok (inr cyc) => Ok (inr (map h cyc))
  | Err es => Err es
  end.

(* the sorter only compares nodes: the same presentation with renamed nodes gives the renamed
   answer - the same order, the same cycle *)
Definition stmt_toposort_rename : Prop :=
  forall (A B : Type) (eqA : A -> A -> bool) (eqB : B -> B -> bool) (h : A -> B),
    (forall a b, eqB (h a) (h b) = eqA a b) ->
    forall g, toposort B eqB (map_graph h g) = map_sort_result h (toposort A eqA g).

(* ====================================================================================== *)
(* 4. Program::new                                                                         *)
(* ====================================================================================== *)
(* the renamed program is accepted iff the original is; the accepted program is the original one
   renamed - constants, banks, wire types, and the actions IN THE SAME ORDER; a rejected program
   gets the renamed diagnostics in the same order.  For every feature set and classifier, and the
   component table of the compiled code. *)
Definition stmt_rename_acceptance : Prop :=
  forall f is_lower is_upper r q stmts,
    consistent_renaming r q gen_fixed stmts ->
    build_program f gen_fixed is_lower is_upper (map (rename_stmt r q) stmts) =
    rename_build_result r q (build_program f gen_fixed is_lower is_upper stmts).

(* ====================================================================================== *)
(* 5. running                                                                              *)
(* ====================================================================================== *)
(* both runs fail, or both succeed with the renamed state *)
Definition same_run (r : string -> string) (x x' : result mstate) : Prop :=
  match x, x' with
  | Ok s, Ok s' => s' = rename_state r s
  | Err _, Err _ => True
  | _, _ => False
  end.

(* n cycles from the initial state, under any options: the value map of the renamed run is the
   value map of the original run with renamed keys (so wire [r k] has the value of wire [k], and
   there are no other wires); memory, register file, status and cycle count are equal *)
Definition stmt_rename_simulation : Prop :=
  forall f is_lower is_upper o r q stmts p,
    consistent_renaming r q gen_fixed stmts ->
    build_program f gen_fixed is_lower is_upper stmts = Ok p ->
    same_run r (initial_state p) (initial_state (rename_program r p)) /\
    forall s0 n, initial_state p = Ok s0 ->
      same_run r (iter_step n f o p s0) (iter_step n f o (rename_program r p) (rename_state r s0)).

(* ... in particular, wire by wire (r is injective on the wires of the run) *)
Definition stmt_rename_wire_values : Prop :=
  forall f is_lower is_upper o r q stmts p s0 n s,
    consistent_renaming r q gen_fixed stmts ->
    build_program f gen_fixed is_lower is_upper stmts = Ok p ->
    initial_state p = Ok s0 -> iter_step n f o p s0 = Ok s ->
    exists s', iter_step n f o (rename_program r p) (rename_state r s0) = Ok s' /\
      (forall k, In k (relevant_names gen_fixed stmts) -> lookup (values s') (r k) = lookup (values s) k) /\
      mem s' = mem s /\ regs s' = regs s /\ last_status s' = last_status s /\ cycle s' = cycle s.

(* ---- the state dump ---------------------------------------------------------------------------- *)
(* dump_bank_signals / dump_bank / ... / dump_y86 with the printed register name passed through
   [nm]: the only place where a name reaches the dump *)
Fixpoint dump_bank_signals_as (nm : string -> string) (vals : list (string * wval))
         (sigs : list (string * string * width)) (line_loc : N) : result (string * N) :=
  match sigs with
  | [] => Ok ("", line_loc)
  | (i, o, w) :: rest0 =>
      let name := nm (after_underscore i) in
      let hex_width := ((bits_or_128 w + 3) / 4)%N in
      let wrap := (71 <=? line_loc + 2 + hex_width + slen name)%N in
      let pre := if wrap then spaces (71 - line_loc) ++ " |" ++ nl ++ "| " else "" in
      let loc1 := if wrap then 2%N else line_loc in
      do v <- get_value vals o;
      let item := " " ++ name ++ "=" ++ pad_left "0"%char hex_width (hex (bits v)) in
      do rest <- dump_bank_signals_as nm vals rest0 (loc1 + 2 + hex_width + slen name)%N;
      Ok (pre ++ item ++ fst rest, snd rest)
  end.

Definition dump_bank_as (nm : string -> string) (vals : list (string * wval)) (b : bank) : result string :=
  do st <- get_value vals (b_stall b);
  do bu <- get_value vals (b_bubble b);
  let status := if is_true bu then "B" else if is_true st then "S" else "N" in
  let head := "| register " ++ b_label b ++ "(" ++ status ++ ") {" in
  do body <- dump_bank_signals_as nm vals (b_signals b) 18;
  let loc := snd body in
  let wrap := (71 <=? loc + 2)%N in
  let pre := if wrap then spaces (71 - loc) ++ " |" ++ nl ++ "| " else "" in
  let loc1 := ((if wrap then 2 else loc) + 2)%N in
  Ok (head ++ fst body ++ pre ++ " }" ++ spaces (71 - loc1) ++ " |" ++ nl).

Fixpoint dump_bank_list_as (nm : string -> string) (vals : list (string * wval)) (bs : list bank) : result string :=
  match bs with
  | [] => Ok ""
  | b :: rest0 =>
      do t <- dump_bank_as nm vals b;
      do rest <- dump_bank_list_as nm vals rest0;
      Ok (t ++ rest)
  end.

Fixpoint dump_banks_in_as (nm : string -> string) (vals : list (string * wval)) (banks : list bank)
         (letters : list string) : result string :=
  match letters with
  | [] => Ok ""
  | l :: rest0 =>
      do t <- dump_bank_list_as nm vals (banks_with banks l);
      do rest <- dump_banks_in_as nm vals banks rest0;
      Ok (t ++ rest)
  end.

Definition dump_custom_registers_as (nm : string -> string) (vals : list (string * wval)) (banks : list bank)
  : result string :=
  let others := filter (fun l => negb (mem_str l fixed_letters)) (dedup (map bank_letter banks)) in
  do t1 <- dump_banks_in_as nm vals banks fixed_letters;
  do t2 <- dump_banks_in_as nm vals banks (sort_strings string_ltb others);
  Ok (t1 ++ t2).

Definition dump_y86_as (nm : string -> string) (o : options) (p : program) (s : mstate) : result string :=
  let header :=
    if halted s then
      "+----------------------- halted in state: ------------------------------+"
    else if timed_out o s then
      "+------------ timed out after " ++ pad_left " "%char 5 (dec (cycle s)) ++ " cycles in state: -------------------+"
    else if done o s then
      "+------------------- error caused in state: ----------------------------+"
    else
      "+------------------- between cycles " ++ pad_left " "%char 4 (dec (cycle s)) ++ " and " ++
      pad_left " "%char 4 (dec (cycle s + 1)) ++ " ----------------------+" in
  do banks <- (if o_show_banks o then dump_custom_registers_as nm (values s) (p_banks p) else Ok "");
  let footer :=
    if halted s then
      "+--------------------- (end of halted state) ---------------------------+"
    else if done o s && negb (timed_out o s) then
      "+-------------------- (end of error state) -----------------------------+"
    else
      "+-----------------------------------------------------------------------+" in
  let tail :=
    if done o s && negb (timed_out o s) then
      "Cycles run: " ++ dec (cycle s) ++ nl ++
      (if negb (halted s) && negb (timed_out o s)
       then "Error code: " ++ name_status y86_statuses s ++ nl else "")
    else "" in
  Ok (header ++ nl ++ dump_program_registers (regs s) ++ banks ++ dump_memory (mem s) ++ footer ++ nl ++ tail).

(* with the identity it is the dump itself *)
Definition stmt_dump_y86_as_id : Prop :=
  forall o p s, dump_y86_as (fun x => x) o p s = dump_y86 o p s.

(* both dumps fail, or both succeed with the same text *)
Definition same_text (x x' : result string) : Prop :=
  match x, x' with
  | Ok a, Ok b => a = b
  | Err _, Err _ => True
  | _, _ => False
  end.

(* the state dump of the renamed run, after any number of cycles, is the state dump of the
   original run with every register name printed in a bank line passed through q: header, register
   file, memory, footer, the order and layout rules of the bank lines are unchanged.  (Hypothesis on
   the classifier: nothing that starts with '_' is a lower-case letter - so a bank's input letter
   contains no '_' and the printed register name, the part of x_foo after the first '_', is foo.) *)
Definition underscore_not_lower (is_lower : string -> bool) : Prop :=
  forall rest, is_lower (String "_"%char rest) = false.

Definition stmt_rename_dump : Prop :=
  forall f is_lower is_upper o r q stmts p s0 n s,
    underscore_not_lower is_lower ->
    consistent_renaming r q gen_fixed stmts ->
    build_program f gen_fixed is_lower is_upper stmts = Ok p ->
    initial_state p = Ok s0 -> iter_step n f o p s0 = Ok s ->
    same_text (dump_y86_as q o p s) (dump_y86 o (rename_program r p) (rename_state r s)).

(* hence: renaming wires and constants only (register names kept) leaves the whole state dump
   byte for byte unchanged *)
Definition stmt_rename_dump_equal : Prop :=
  forall f is_lower is_upper o r stmts p s0 n s,
    underscore_not_lower is_lower ->
    consistent_renaming r (fun x => x) gen_fixed stmts ->
    build_program f gen_fixed is_lower is_upper stmts = Ok p ->
    initial_state p = Ok s0 -> iter_step n f o p s0 = Ok s ->
    same_text (dump_y86 o p s) (dump_y86 o (rename_program r p) (rename_state r s)).
