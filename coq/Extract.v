(* Extraction of the executable model to OCaml. ExtrOcamlBasic only: bool, option, unit,
   list, prod, sumbool, sumor map to their OCaml counterparts; N, positive, nat, ascii and
   string stay the extracted Coq datatypes. *)
Require Extraction.
Require Import ExtrOcamlBasic.
From HclV Require Import Base Disasm.
Extraction Language OCaml.
Extraction "model.ml" Disasm.disassemble Disasm.trace_line.
