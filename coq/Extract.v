(* Extraction of the executable model to OCaml. ExtrOcamlBasic only: bool, option, unit,
   list, prod, sumbool, sumor map to their OCaml counterparts; N, positive, nat, ascii and
   string stay the extracted Coq datatypes. *)
Require Extraction.
Require Import ExtrOcamlBasic.
From HclV Require Import Base Expr Disasm Machine Graph Yo Build MachineSpec SchedSpec Generated Region Cli CliArgs Lexer Parser SpanParser Tool Diag SpanBuild ParseDiag FullDiag ToolErr ParseLoc.
Extraction Language OCaml.
Extraction "model.ml"
  Disasm.disassemble Disasm.trace_line
  Expr.eval Expr.check Expr.dynw Expr.refs
  Machine.initial_state Machine.step Machine.run Machine.done Machine.halted Machine.timed_out
  Machine.dump_y86 Machine.mem_read Machine.mem_write Machine.dump_memory Machine.mem_put
  Machine.default_options Machine.set_quiet Machine.set_test Machine.set_debug Machine.set_no_group
  Machine.set_trace_assignments Machine.set_timeout Machine.set_nth Base.lookup Base.upd Base.ekind_name
  Tool.tool_main_as Tool.files_of ToolErr.tool_full Diag.render_all Diag.hook_spans ParseLoc.first_error_span_text FullDiag.front_errors Diag.str_bytes SpanBuild.front_sp ParseDiag.parse_text_diag ParseDiag.all_diags Generated.gen_features Generated.gen_preamble
  Parser.parse_text SpanParser.parse_text_sp Generated.gen_tiers Lexer.lex Lexer.test_uclass Cli.main_model CliArgs.main_in_world CliArgs.parse_argv Region.new_from_data Region.show_region Yo.load_from_y86 Build.build_program Build.ascii_lower Build.ascii_upper Build.test_lower Build.test_upper Generated.gen_fixed
  SchedSpec.valid_schedule SchedSpec.known0
  Graph.toposortN Graph.is_linear_extensionN Graph.is_cycleN.
